#!/usr/bin/env python3
"""Rewrites the table between the SEEDS markers of DESIGN.md from seeded/*/meta.json (run tools/store_seeds.py first)."""
import json, os, re
HERE = os.path.dirname(os.path.dirname(os.path.abspath(__file__)))
rows = []
for d in sorted(os.listdir(os.path.join(HERE, 'seeded'))):
    mp = os.path.join(HERE, 'seeded', d, 'meta.json')
    if not os.path.exists(mp):
        continue
    m = json.load(open(mp))
    patch = open(os.path.join(HERE, 'seeded', d, 'patch.diff')).read()
    files = sorted(set(re.findall(r'^\+\+\+ b/sigtools/(\S+)', patch, re.M)))
    funcs = []
    for h in re.findall(r'^@@.*@@ (.*)$', patch, re.M):
        h = h.strip()
        mm = re.match(r'(?:async )?(?:def|class) (\w+)', h)
        if mm and mm.group(1) not in funcs:
            funcs.append(mm.group(1))
    own = m['breaks_property']
    det = m.get('detected_by', {})
    ownr = ', '.join(det.get(own, [])) or ('— (inconclusive)' if own in m.get('inconclusive_in', []) else '— **missed**')
    others = ', '.join('%s' % p for p in sorted(det) if p != own)
    rows.append('| %s | %s | %s | %s | %s |' % (d, ', '.join(files), ', '.join(funcs[:3]) or '(module level)', ownr, others or ''))
table = '\n'.join(['| seed | file | enclosing def/class of the hunks | reported by its own property\'s check | also reported by |', '|---|---|---|---|---|'] + rows)
p = os.path.join(HERE, 'DESIGN.md')
s = open(p).read()
a, b = '<!-- SEEDS:BEGIN -->', '<!-- SEEDS:END -->'
if a in s:
    s = s[:s.index(a) + len(a)] + '\n' + table + '\n' + s[s.index(b):]
    open(p, 'w').write(s)
print(len(rows), 'rows')
