#!/bin/bash
# tools/revalidate_seed.sh <seed-id>: re-validate one seed against /repo HEAD: demo passes clean, fails with the patch, suite unchanged with the patch
ID=$1
S=/verif/seeded/$ID
if grep -q "/tmp/wt/" $S/demo.py; then D=/tmp/wt/${ID%%-*}; else D=/tmp/reval/$ID; fi
rm -rf $D; mkdir -p $D
git -C /repo archive HEAD | tar -x -C $D
( cd $D && PYTHONPATH=$D timeout 300 /venv/bin/python $S/demo.py >/dev/null 2>&1 ); CLEAN=$?
( cd $D && patch -p1 -s < $S/patch.diff ) || { echo "$ID APPLY-FAILED"; rm -rf $D; exit; }
( cd $D && PYTHONPATH=$D timeout 300 /venv/bin/python $S/demo.py >/dev/null 2>&1 ); WITH=$?
SUITE=$(cd $D && PYTHONPATH=$D /venv/bin/python -m pytest -q -p no:cacheprovider --timeout=900 --continue-on-collection-errors 2>&1 | tail -1)
rm -rf $D
OK=ok
case "$SUITE" in *"294 passed, 2 skipped"*"10 errors"*) ;; *) OK=SUITE;; esac
[ $CLEAN -eq 0 ] || OK="$OK CLEAN-FAILS"
[ $WITH -ne 0 ] || OK="$OK NOT-DETECTED-BY-DEMO"
echo "$ID $OK clean=$CLEAN with=$WITH | $SUITE"
