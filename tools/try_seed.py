#!/usr/bin/env python3
"""Run every registered check against a patch applied to a scratch copy of /repo.
usage: tools/try_seed.py PATCH [PROP ...]"""
import io, json, os, shutil, subprocess, sys, tempfile
HERE = os.path.dirname(os.path.dirname(os.path.abspath(__file__)))
sys.path.insert(0, HERE)
from sa.main import run_property


def main():
    patch = sys.argv[1]
    props = sys.argv[2:]
    if not props:
        m = json.load(open(os.path.join(HERE, 'MANIFEST.json')))
        props = [c['property_id'] for c in m['checks']]
        extra = [p for p in os.environ.get('EXTRA_PROPS', '').split() if p]
        props += [p for p in extra if p not in props]
    d = tempfile.mkdtemp(prefix='sa-seed-')
    try:
        shutil.copytree('/repo/sigtools', os.path.join(d, 'sigtools'), ignore=shutil.ignore_patterns('__pycache__'))
        r = subprocess.run(['patch', '-p1', '-s', '-d', d, '-i', os.path.abspath(patch)], capture_output=True, text=True)
        if r.returncode != 0:
            print('PATCH FAILED', r.stdout, r.stderr)
            return 2
        fired = []
        for p in props:
            buf = io.StringIO()
            code = run_property(p, d, 'quick', write_evidence=False, out=buf)
            txt = buf.getvalue()
            rules = sorted(set(l.split(' [VIOLATION]')[0].split()[-1] for l in txt.splitlines() if '[VIOLATION]' in l))
            if code != 0:
                fired.append((p, code, rules))
                if os.environ.get('V'):
                    print(txt)
        print('%s -> %s' % (patch, ', '.join('%s:%s%s' % (p, {1: 'VIOLATION', 2: 'INCONCLUSIVE'}[c], rules) for p, c, rules in fired) or 'nothing fires'))
    finally:
        shutil.rmtree(d, ignore_errors=True)


if __name__ == '__main__':
    sys.exit(main())
