#!/bin/bash
# tools/rebase_seed.sh <seed-id> [patchfile]: re-create seeded/<id>/patch.diff against /repo HEAD (after a fix: commit moved its
# context), from the stored patch applied with fuzz or from a hand-edited patch file; then re-confirm suite + demo.
ID=$1; SRC=${2:-/verif/seeded/$ID/patch.diff}
P=${ID%%-*}; V=${ID##*-}
case "$V" in a|b) WT=/tmp/wt/$P;; *) WT=/tmp/wt2/$P;; esac
mkdir -p $(dirname $WT) /tmp/wt3
rm -rf $WT; git -C /repo worktree prune; git -C /repo worktree add -q --detach $WT HEAD || exit 2
( cd $WT && patch -p1 --fuzz=3 -s < $SRC ) || { echo "PATCH FAILED"; git -C /repo worktree remove --force $WT; exit 2; }
find $WT -name '*.orig' -delete
git -C $WT diff > /tmp/wt3/$ID.diff
SUITE=$(cd $WT && /venv/bin/python -m pytest -q -p no:cacheprovider --timeout=900 --continue-on-collection-errors 2>&1 | tail -1)
( cd $WT && PYTHONPATH=$WT timeout 300 /venv/bin/python /verif/seeded/$ID/demo.py >/dev/null 2>&1 ); WITH=$?
git -C $WT checkout -q -- .
( cd $WT && PYTHONPATH=$WT timeout 300 /venv/bin/python /verif/seeded/$ID/demo.py >/dev/null 2>&1 ); WITHOUT=$?
git -C /repo worktree remove --force $WT
echo "$ID suite: $SUITE | demo with: $WITH without: $WITHOUT"
case "$SUITE" in *"294 passed, 2 skipped"*"10 errors"*) ;; *) echo "REJECT: suite"; exit 1;; esac
[ $WITH -ne 0 ] && [ $WITHOUT -eq 0 ] || { echo "REJECT: demo"; exit 1; }
cp /tmp/wt3/$ID.diff /verif/seeded/$ID/patch.diff
echo "$SUITE" > /verif/seeded/$ID/suite.txt
echo REBASED
