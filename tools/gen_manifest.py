#!/usr/bin/env python3
"""Regenerates /verif/MANIFEST.json from the table below (kept next to the
checks so the two cannot drift)."""
import json
import os

HERE = os.path.dirname(os.path.dirname(os.path.abspath(__file__)))

TECH = 'static analysis: '
NOTE_COMMON = ('Trusted base: the hand-derived oracle tables / rule statements of DESIGN.md section 3 and appendix B, '
               'Python semantics as modelled by the path enumerator (sa/interp.py), the callee resolver (sa/index.py). '
               'Decides structural necessary conditions only; NOT decided: ')

CHECKS = {
    'C01': dict(
        technique=TECH + 'path-sensitive abstract-effect analysis of _Merger (kind/bucket domain) checked against oracle decision tables',
        text='Decides the structural clauses C01.R1-R6 (bucket/kind closure of the fold, star retention, soundness column of the '
             'merge decision tables incl. side wiring, fold coverage, conciled default soundness) on every path of the anchored '
             'functions; these are necessary conditions of merge soundness, not the behaviour over all signatures x calls.',
        note='the forall over signatures x call shapes, correctness of the tables themselves, value-level behaviour inside a row, '
             'cross-element interactions beyond kind/order invariants.',
        design='DESIGN.md section 3 (C01), appendix B1-B7'),
}

NOT_YET = 'no static check registered yet in this round (work in progress; see DESIGN.md section 3 for the planned clauses)'


def main():
    checks = []
    na = []
    for i in range(1, 21):
        pid = 'C%02d' % i
        c = CHECKS.get(pid)
        if c is None:
            na.append({'property_id': pid, 'reason': NOT_YET})
            continue
        checks.append({
            'property_id': pid,
            'quick_cmd': './check %s --tier quick' % pid,
            'thorough_cmd': './check %s --tier thorough' % pid,
            'evidence_file': '/verif/evidence/%s.json' % pid,
            'replay_cmd_template': './check %s --replay {path}' % pid,
            'engine': 'sa',
            'level_claimed': {'category': 'other', 'text': c['text'], 'design_ref': c['design']},
            'level_note': NOTE_COMMON + c['note'],
            'technique': c['technique'],
        })
    m = {
        'version': 1,
        'setup_cmd': 'if [ -x /venv/bin/python ]; then /venv/bin/python -m compileall -q sa >/dev/null; else python3 -m compileall -q sa >/dev/null; fi; true',
        'hooks': {
            'guard': 'SIGTOOLS_VERIF',
            'enable': 'none needed: the checks are static and read the working tree of /repo; the guard name is reserved and unused',
            'baseline_off_cmd': 'cd /repo && /venv/bin/python -m pytest -ra -q -p no:cacheprovider --timeout=900 --continue-on-collection-errors',
            'source_commits': [],
            'add_only': True,
        },
        'engines': [{
            'name': 'sa', 'path': '/verif/sa',
            'serves_properties': [c['property_id'] for c in checks],
            'kind_free_text': 'stdlib-only Python static analyser: source index + callee resolver, path enumeration with '
                              'abstract effects over access-path terms, kind/bucket domain, protocol agreement, '
                              'exception-escape and window analyses, grammar metadata; never imports or runs sigtools',
        }],
        'checks': checks,
        'notes': 'All checks are static analyses of /repo/sigtools/*.py (re-parsed on every run). exit 0 = all rules hold or are '
                 'listed known findings; exit 1 = VIOLATION line; exit 2 = ANALYSIS-ERROR (inconclusive: vanished anchor / '
                 'unknown idiom), never a silent pass. Known findings: /verif/known_findings.json.',
        'not_applicable': na,
    }
    with open(os.path.join(HERE, 'MANIFEST.json'), 'w') as f:
        json.dump(m, f, indent=1)
        f.write('\n')


if __name__ == '__main__':
    main()
