#!/usr/bin/env python3
"""Regenerates /verif/MANIFEST.json from the table below (kept next to the
checks so the two cannot drift)."""
import json
import os

HERE = os.path.dirname(os.path.dirname(os.path.abspath(__file__)))

TECH = 'static analysis: '
NOTE_COMMON = ('Trusted base: the hand-derived oracle tables / rule statements of DESIGN.md section 3 and appendix B, '
               'Python semantics as modelled by the path enumerator (sa/interp.py), the callee resolver (sa/index.py). '
               'Decides structural necessary conditions only; NOT decided: ')

CHECKS = {
    'C01': dict(
        technique=TECH + 'path-sensitive abstract-effect analysis of _Merger (kind/bucket domain) checked against oracle decision tables',
        text='Decides the structural clauses C01.R1-R6 (bucket/kind closure of the fold, star retention, soundness column of the '
             'merge decision tables incl. side wiring, fold coverage, conciled default soundness) on every path of the anchored '
             'functions; these are necessary conditions of merge soundness, not the behaviour over all signatures x calls.',
        note='the forall over signatures x call shapes, correctness of the tables themselves, value-level behaviour inside a row, '
             'cross-element interactions beyond kind/order invariants.',
        design='DESIGN.md section 3 (C01), appendix B1-B7'),
    'C02': dict(
        technique=TECH + 'path-sensitive abstract-effect analysis of _embed (bucket contents per path) against oracle table B8; argument-flow rules for the flags',
        text='Decides the structural clauses C02.R1-R6 (bucket contents/kinds per path, mandatory default clearing, duplicate-name '
             'rejection before keyword-only merging, star-flag coherence and name-preserving forwarding, fold coverage with 1-based '
             'depth, outer-before-inner order; defaults of inner parameters are never cleared and outer ones only when required): necessary '
             'conditions, not exactness over calls.',
        note='exactness over calls, embed(a,b,c) == embed(embed(a,b),c) as a value law, identity on bare (*args, **kwargs).',
        design='DESIGN.md section 3 (C02), appendix B8'),
    'C03': dict(
        technique=TECH + 'path-sensitive abstract-effect analysis of _mask: per-name decision table, induction-variable rule, derived-collection (def-use) rule, hide-flag coherence',
        text='Decides the structural clauses C03.R1-R5 (per-name table, name-index coherence = order independence, positional '
             'consumption order/trip count/exhaustion, kinds of converted parameters, hide flags only remove and are bound '
             'name-preservingly; statement-level def-use rule for positional indexes; clamped cut of slice-based consumption): '
             'necessary conditions, not the iff over calls.',
        note='exactness over calls, mask(mask(s,n),m) == mask(s,n+m) as a value law.',
        design='DESIGN.md section 3 (C03), appendix B9'),
    'C08': dict(
        technique=TECH + 'effect pairing (Put<->SrcAdd, Clear<->SrcDel) on enumerated paths, origin tags for provenance maps, helper contracts',
        text='Decides the structural clauses C08.R1-R7 (registration of every stored parameter from every side it stands for, removal '
             'pairing in _mask, union hygiene in _embed, +depths always assigned, depth arithmetic, duplicate-free concatenation, '
             'wrapper swap; depth maps combined by the minimum, not by overwriting; the classification hands out a private map). '
             'C08.R6 is a recorded known finding (D12), pinned by the test suite.',
        note='that each listed callable declares the parameter as a runtime fact; depth strictness along discovered chains.',
        design='DESIGN.md section 3 (C08)'),
    'C09': dict(
        technique=TECH + 'extracted decision table of _Merger compared with the exact column of the oracle tables; protocol-position agreement (sort_params/apply_params)',
        text='Decides the structural clauses C09.R1-R4 (exactness column incl. raise discipline, classification round trip and '
             'six-position protocol agreement, left operand wins, bucket/kind closure of the fold): necessary conditions of the '
             'precision/identity/fold laws, not the laws as equalities of values. A result rebuilt with the class constructor must '
             'hand over the (upgraded) return annotation.',
        note='the iff over calls, idempotence/neutral-element laws as value equalities, provenance equality in the fold law beyond closure.',
        design='DESIGN.md section 3 (C09), appendix B1-B7'),
    'C10': dict(
        technique=TECH + 'decision-table conformance of _concile_meta, dominance of default clearing, kind-restriction scan over all replace(kind=) terms',
        text='Decides the structural clauses C10.R1-R5 (default/annotation table, defaults cleared exactly when required, kind '
             'changes are restrictions, outer-before-inner order, partial defaults are the bound value of the own name; every '
             'two-sided parameter is conciled; identity comparison of defaults is not equality; name-index coherence).',
        note='displayed default/annotation values.',
        design='DESIGN.md section 3 (C10), appendix B7/B8'),
    'C04': dict(
        technique=TECH + 'argument-flow rules on enumerated paths (forwards = embed o mask, per-kind evaluation of the partial rewrite, declaration parameters used), class-protocol rules for the emulating wrapper',
        text='Decides the structural clauses C04.R1-R5 (forwards is embed of mask with name-preserving flags, partial rewrite makes '
             'every non-star parameter optional, every declaration parameter is used and reaches forwards(), forger protocol and '
             'forger-first chain order, wrapper hygiene incl. non-skippable deletions and release of the as_forged guard) and, as '
             'C04.R6/R7, the soundness clauses of the two operations forwards() is composed of (C02.R1-R4, C03.R1-R5).',
        note='that executing an accepted call raises no TypeError (needs running wrappers); emulate dispatch values.',
        design='DESIGN.md section 3 (C04)'),
    'C05': dict(
        technique=TECH + 'meta-analysis of the AST visitor: handler exhaustiveness against the running interpreter\'s grammar (ASDL metadata), guard-table conformance on enumerated paths',
        text='Decides the structural clauses C05.R1-R9 (binder / parameter-field / scope exhaustiveness, evaluation order of '
             'comprehensions and loop back-edges, visit_Name/taint/deferred-call tables, star extraction, callee resolution order, '
             'untranslatable calls abort discovery, translation of the call record incl. per-call callee retrieval and caller-bound '
             'known arguments, effects of nested scopes reach the enclosing bindings and the calls already recorded): necessary '
             'conditions of discovery soundness over all programs.',
        note='anything about executed programs; that the resolved object is the one called at run time.',
        design='DESIGN.md section 3 (C05), appendix B10-B12, B16'),
    'C06': dict(
        technique=TECH + 'positional-protocol agreement (Call record, hint triple) and argument-flow rules on enumerated paths; exception-escape analysis for the fallback',
        text='Decides the structural clauses C06.R1-R7 (Call protocol, translation into forwards(), skip and fallback, hint '
             'protocol, method/partial routes, extraction of every forwarding call, read-only resolution of attribute bases, '
             'optional references to container-like scopes tested by identity).',
        note='equality of discovered and declared signatures over a program grammar; invariance under source transformations.',
        design='DESIGN.md section 3 (C06)'),
    'C07': dict(
        technique=TECH + 'interprocedural exception-escape analysis over the resolved call graph (with conditional re-raise specialisation), path enumeration of the fallback chain, call-cycle detection',
        text='Decides the structural clauses C07.R1-R8 (fallback discipline and containment of internal signals, stage order and '
             'forger-first, source handling in get_ast, recursion guard on the user-driven cycle, probe discipline, Sphinx hook, '
             'result type, nested retrieval of callees absorbs ValueError and TypeError, the Sphinx fallback returns autodoc\'s own '
             'pair, scope-chain lookups, retrieval inside the delete/restore window is converted and __repr__ survives the window). '
             'C07.R3 is a recorded known finding (D17).',
        note='"only narrows the def parameter list", totality over the standard-library corpus, implicit TypeError/KeyError of dynamically typed values.',
        design='DESIGN.md section 3 (C07)'),
    'C11': dict(
        technique=TECH + 'class-protocol (slot completeness), argument-flow and decision-table rules on enumerated paths',
        text='Decides the structural clauses C11.R1-R4 (slot completeness of replace/__init__, pairing of raw and upgraded '
             'annotation, evaluation context of postponed annotations and the upgrade table, annotate wraps with preevaluated and '
             'nothing read from an existing parameter is re-wrapped as pre-evaluated).',
        note='the eager-vs-postponed metamorphic equality (needs evaluation).',
        design='DESIGN.md section 3 (C11)'),
    'C12': dict(
        technique=TECH + 'decision-table conformance of _PokTranslator._prepare / __call__ and of the start/end/auto forms on enumerated paths',
        text='Decides the decoration-time and rejection structure C12.R1-R4 (tables B13/B14, position record is the index in the '
             'original parameter list, re-preparation idempotent, forms select among positional-or-keyword parameters and apply '
             'kwoargs to every selected name; bound access returns the translator bound to this instance from a per-descriptor cache).',
        note='delivery of argument values to the right parameter (index arithmetic on runtime lists), the iff over calls, bound-method behaviour.',
        design='DESIGN.md section 3 (C12), appendix B13/B14'),
    'C13': dict(
        technique=TECH + 'argument-flow and class-protocol rules: pure forwarding, descriptor rebinding from stored constructor parts, update_wrapper hygiene',
        text='Decides the structural clauses C13.R1-R6 (pure forwarding __call__, partial(wrapper, wrapped), Combination threading '
             'and flattening, __get__ rebuilds type(self) from stored parts, as_forged exposure and hygiene, _Wrapped forger and '
             'Combination merge, wrappers() order, guarded descriptor).',
        note='equality of results with the hand-written composition on actual calls; signature/behaviour coherence.',
        design='DESIGN.md section 3 (C13)'),
    'C14': dict(
        technique=TECH + 'class-protocol rules: guard dominance in __eq__, __hash__ presence, slot completeness and selection coherence of replace(), inherited-method inventory',
        text='Decides the structural clauses C14.R1-R4 (__eq__ totality, NotImplemented handed on, symmetric slot comparison; '
             'hashability with a hash that delegates to the base; replace '
             'returns the upgraded type and keeps the extras, explicit empty overrides win, nothing else overridden).',
        note='reflexivity/symmetry/hash-consistency as value laws beyond the guards.',
        design='DESIGN.md section 3 (C14)'),
    'C15': dict(
        technique=TECH + 'interprocedural exception-escape analysis (explicit raises/asserts, vetted external raisers), handler-wrapping and validating-construction rules',
        text='Decides the structural clauses C15.R1-R8 (fold steps wrapped by ValueError -> IncompatibleSignatures, explicit raises '
             'escaping the public algebra are ValueErrors or reviewed, results built through the validating constructor, upgrade '
             'with DeprecationWarning on entry, discovery converts algebra failures into its fallback; R6/R7: the two implicit '
             'exception sources visible in the code -- nullable star slots and partial provenance maps; R8: output buckets hold '
             'their kinds and defaults are cleared when a required positional follows).',
        note='absence of implicit exception types (KeyError, TypeError, RecursionError) from dynamically typed expressions; '
             'well-formedness of values beyond "built by the validating constructor".',
        design='DESIGN.md section 3 (C15)'),
    'C16': dict(
        technique=TECH + 'provenance/alias domain with interprocedural mutates-parameter and returns-alias summaries; typestate and exception-edge analysis of the delete/restore window',
        text='Decides the structural clauses C16.R1-R4 (inputs not mutated, results do not share provenance maps, foreign '
             'attribute writes only inside the verified window with per-key typestate and restoration on every exit, recursion '
             'guard emptied in a finally with the same key; every result of the public operations is built by apply_params; the '
             'restoring call on the exception edge binds to __exit__).',
        note='what outside code called during retrieval does; deep-snapshot equality.',
        design='DESIGN.md section 3 (C16)'),
    'C17': dict(
        technique=TECH + 'static race argument: temporary-mutation windows x receiver provenance (created-here / thread-local / caller-owned / shared), fail-closed inventory of shared mutable state',
        text='Decides the structural clauses C17.R1-R4 (no mutate/restore window on an object other threads can reach; inventory '
             'of shared mutable state equals the reviewed list; no placeholder is published in the shared binding cache; attribute '
             'probes inside the window are EAFP). The window on the inspected function is a recorded known finding (D6).',
        note='everything about actual schedules; benign races on caches.',
        design='DESIGN.md section 3 (C17)'),
    'C18': dict(
        technique=TECH + 'alias rule for weak caches (value must not be derived from its key), argument-flow and effect-ordering rules for stacking and annotate, idempotence of _prepare',
        text='Decides the structural clauses C18.R1-R4 (weak cache must not retain its key -- recorded known finding D7; stacking '
             'merges both selections -- the composition with anchor-based (start=/end=) getters is recorded known finding D24; '
             'annotate after a modifier re-prepares; descriptor cache keyed by the bound function and created per descriptor).',
        note='permutation equality of signatures and call behaviour; sequence histories.',
        design='DESIGN.md section 3 (C18)'),
    'C19': dict(
        technique=TECH + 'sibling cross-check of the two partial branches (argument flow into _mask), partial column of the mask table, effect ordering',
        text='Decides the structural clauses C19.R1-R4 (both partial branches call _mask with the same shape, partial rows of the '
             'mask table incl. name-index coherence, depth copy before depth-0 placement, discovery passes bound positionals and no '
             'keywords, runs for every partial object and resolves names in the caller-bound arguments only).',
        note='agreement with really calling the partial object.',
        design='DESIGN.md section 3 (C19)'),
    'C20': dict(
        technique=TECH + 'decision-table conformance of the independent binder, partition rule, enumeration bounds with effect ordering',
        text='Decides only the structural clauses C20.R1-R5 (bind_callsig table B15 incl. *args bound as a tuple, sort_callsigs '
             'partition, make_up_callsigs bounds, idempotent combination of __future__ flags, partition protocol of '
             'func_from_sig). The string/code round trip of read_sig/func_code as an equality is stated not applicable (value-level).',
        note='the string <-> code <-> signature round trip of read_sig/func_code/f/s/func_from_sig; equality of bind_callsig\'s mapping with CPython\'s.',
        design='DESIGN.md section 3 (C20)'),
}

# clauses added while the seeded changes of rounds 3 and 4 were worked through (DESIGN.md section 3, "(added, round N)")
EXTRA = {
    'C01': ' Rounds 3-4: star-name column, conversion order in the positional-only bucket, left-wins at the keyword-only match, lazy-iterator rule (C01.R6n). Round 5: lazy itertools iterators. Round 7 (clean-tree hunt): the empty marker is compared by identity (C01.R7), the validating construction of the result lies in the converting try (C01.R8). Round 8 / sweep 5: no whole-parameter equality in the merger (C01.R7b), no comparison of an expression with itself (C01.R7c).',
    'C02': ' Rounds 3-4: placeholder-vs-test coherence of the star slots across embed/_Merger, stale forwarded-stars operand, roles of the switches from the call site, and (C02.R7) the tables of the pairwise merger embed uses. Round 5: one-shot iterators as buckets, accumulator read by position (C02.R5b). Round 7: identity comparison of the empty marker (C02.R8), validating construction in the converting try (C02.R9). Sweep 5: defaults of embed()\'s public switches (C02.R4d).',
    'C03': ' Rounds 3-4: neutral defaults of the switches relied on inside the package (C03.R5d), buckets created by the classification (C03.R6), an emptied parameter list stays empty through replace (C03.R7), input-fact guards in the per-name table, early returns of _mask only as the identity when nothing is asked. Round 7: no raise decision of _mask depends on a hide flag (C03.R8, D37; the table rows that had the flags first were removed), absorbed-partial row split on a name collision (D38), positional-only names go to **kwargs (D58). Round 8 / sweep 5: reserved names complete and identifier tests before a display parameter (C03.R1r), defaults of mask()\'s public switches (C03.R5p).',
    'C04': ' Rounds 3-4: merger tables (C04.R6m/n), early-return rule of _mask, universal safe_get table (C04.R4c). Later: dispatch table of set_signature_forger (C04.R4e), update_wrapper source.',
    'C05': ' Rounds 3-4: definition-time expressions visited in the enclosing scope (C05.R3b), star arguments resolved after explicit ones, the composed algebra\'s soundness columns (C05.R10). Round 5: two traversals of loop bodies (D29), every recorded call re-evaluated against late taints (D28), pre-scan helper exhaustive while relied upon (C05.R4b). Round 6: re-evaluation table (C05.R9c), enclosing lookup (C05.R9d). Round 7: comprehension back-edge (C05.R4, D40), visit_Attribute traverses its object and taints a parameter it is taken from (C05.R11, D41), globals merely read may be kept (C05.R5), operands of several star arguments are visited (C05.R12), generator expressions are lazy (C05.R13), nothing is visited before the comprehension mark (D40b). Round 8 / sweep 5: main/nested marker for every named-parameter loop incl. polarity (C05.R2), visits counted rather than mentions.',
    'C06': ' Rounds 3-4: get_ast decides by __code__ not by type (C06.R4b), resolution order table (C06.R8). Round 5: drain order of the deferred calls, empty closure cell vs not-free. Later: known arguments threaded by name (C06.R9), subject search (C06.R4c). Round 7: attribute handler (C06.R10), the object of an attribute access is visited once (C06.R10b), reading a global keeps it (C06.R6, D44), partial\'s function taken from the explicit arguments (C06.R11, known D51), only the star parameters are tainted by an attribute read (D41c).',
    'C07': ' Rounds 3-4: nullable AST children tested before visiting (C07.R9), no subscripting of __builtins__ (C07.R7b), LBYL probes counted. Round 5: implicit AttributeError sources through the escape analysis (C07.R4b), partial provenance-map lookups (C07.R10). Later: definite assignment of locals over the retrieval closure (C07.R11), output protocol of the Sphinx hook (C07.R5d). Round 6: index guards (C07.R12), the subject is not hashed (C07.R13, known finding D34), two wrong review entries removed (D33 fixed). Round 7: operations on resolved live values are handled (C07.R14, D50), the autodoc hook is total and binds callables only (C07.R15, D49). Round 8: embed\'s duplicate-name rejection as part of the narrowing clause (C07.R16).',
    'C08': ' Rounds 3-4: merge_depths writes under membership and comparison, bookkeeping table B6 per flags, early returns of _mask in partial mode. Round 5: removals from the united provenance map. Round 7: replace(parameters=) restricts the provenance map (C08.R8, D47), depth increment past the forwarding callable (C08.R5, D48), provenance of what hide_args removes. Round 8 / sweep 5: merge_depths never written blindly (setdefault/update), depth increment adds one (C08.R5). Round 9: every feed of the forwarding-callables collection after the first adds to it, and the depth comprehension filters on presence (C08.R5f).',
    'C09': ' Rounds 3-4: fold law read off merge() (C09.R4f), replace takes base-class overrides as given (C09.R2b), star-name column.',
    'C10': ' Rounds 3-4: conversion order for _Merger (C10.R4), rows of the partial table (C10.R5), upgraded-annotation test set aside. Round 5: star parameters standing for both inputs are conciled (C10.R1s). Round 7: a disagreement between annotations is remembered (C10.R6, known D57).',
    'C11': ' Rounds 3-4: pairing of annotation and upgraded annotation at every construction site (C11.R2c). Round 7: annotate survives discovery (C11.R5, known D54), agreement decided on denotations (C11.R6, known D55), annotations paired with the owner through __wrapped__ (C11.R7, D56); non-text annotations stay pre-evaluated. Round 8 / sweep 5: a slot is overridden by its own argument only (C11.R1), owner accepted by capability (C11.R8), slot polarity (C11.R1d).',
    'C12': ' Rounds 3-4: targets of functools.partial do not edit bound arguments in place (C12.R3p). Round 5: position records count in the whole parameter list (C12.R1k), empty selections do not reach the pass-through __new__ (C12.R5). Later: definite assignment (C12.R6). Round 6: stacked selections (C12.R7). Round 7: identity comparison of the empty marker (C12.R8), bound copy built from an adjusted selection (C12.R9, known D52), receiver name of the pass-through __call__ (C12.R10, known D53). Sweep 5: admissibility of the selection in _prepare (C12.R1a: the after-a-regular-parameter flag is set, a selected non-regular parameter raises). Round 9: anchor-based getters (start=/end=) re-run their factory with its own leading parameters, unedited, never with names resolved on the unbound function (C12.R11).',
    'C13': ' Rounds 3-4: thread-local attributes read tolerantly (C13.R6c), wrappers() lists every layer (universal C13.R5), universal safe_get table. Round 6: operands of specifiers.forwards (C13.R4). Round 7: forged signature visible to inspect (C13.R7, known D46), receiver names of the pass-through __call__ methods (C13.R8, known D53 x3).',
    'C14': ' Rounds 3-4: base-class overrides decided neither by truthiness nor by is-None (also at value level), _upgrade idempotent (C14.R3b), sibling agreement on __eq__ (C14.R1s). Round 5: parameter iterables materialised before being traversed twice (C14.R5, D30), __eq__ must not evaluate source text outside a handler (C14.R1e, known finding D31), receiver slots kept as they are. Round 6: upgrade on every way out of forged_signature (C14.R6). Round 7: eval() only sees text (C14.R7, D35), __eq__ reflexive by shape (C14.R8, D36). Round 8 / sweep 5: replace never returns its receiver (C14.R3c), slot polarity (C14.R3d), what __eq__ answers (C14.R9).',
    'C15': ' Rounds 3-4: helper contracts give every provenance map its own +depths (C15.R9), _upgrade idempotent (C15.R4c). Round 5: accumulator read by position (C15.R10). Later: definite assignment over the algebra closure (C15.R11). Round 6: index guards over the algebra closure (C15.R12). Round 7: every ValueError-raising call of merge/embed, the validating construction included, lies in the converting try (C15.R13, D43). Round 8: names-versus-parameters contract of _remove_from_src at every call site (C15.R14). Round 9: entries are removed from provenance maps (input handles and the private copies of sort_params/copy_sources) only with a default, behind a membership test or inside a KeyError handler (C15.R7d).',
    'C16': ' Rounds 3-4: unconditional restoration in __exit__, results of _upgrade are not fresh objects, classification buckets fresh (C16.R1f). Round 7: the delete/restore window saves the object\'s own entry, not what attribute lookup evaluates to (C16.R3r, D42). Round 8: the package\'s replace overrides return fresh objects (C16.R2b).',
    'C17': ' Rounds 3-4: __exit__ never deletes (C17.R5), flags published after the state they announce (C17.R6), inventory of implicit followers of the windowed attributes (C17.R7). Round 6: guard-clause form of one-time flags, shared singletons of package classes. Round 7: inspect.unwrap in plain retrieval is one more follower exposed to the window (listed under the known D6).',
    'C18': ' Rounds 3-4: private name sets (C18.R2c), getter protocol (C18.R4c), no memoising decorators (C18.R5), descriptor rebinding through safe_get (C18.R6). Round 5: re-preparation drops the cache of bound copies (C18.R7, D27), as_forged subject (C18.R6b). Round 6: partial targets pure (C18.R8), every returning path of annotate judged. Round 8: every path of _merge_other composes the getters.',
    'C19': ' Rounds 3-4: early exits of discovery for partial objects, no early return of _mask while partial mode is possible. Later: known arguments threaded by name (C19.R5). Round 6: +depths contract of copy_sources (C19.R3c), clamped consumed-name slices. Round 7: positional-only duplicate row (C19.R2, D58), binding validated against the real parameters before the discovered signature is masked (C19.R6, D59). Round 8 / sweep 5: narrowed kind compared with the real one, per-keyword exit required (C19.R6b), resolution order (C19.R7), reserved names (C19.R2r).',
    'C20': ' Rounds 3-4: no memoisation in support (C20.R6), surplus-argument test idioms of bind_callsig, and (C20.R7) the translator tables the modifiers-based spellings rely on. Round 5: prefixes after the surplus names, star-aware counted insertion index of read_sig (C20.R8). Later: definite assignment (C20.R9). Round 6: options forwarded (C20.R10), flag gating in read_sig (C20.R11), star names in make_up_callsigs. Round 7: identity comparison of the empty marker (C20.R12), no str.format on f-strings in the code generators (C20.R13, D45).',
}

NOT_YET = 'no static check registered yet in this round (work in progress; see DESIGN.md section 3 for the planned clauses)'


def main():
    checks = []
    na = []
    for i in range(1, 21):
        pid = 'C%02d' % i
        c = CHECKS.get(pid)
        if c is None:
            na.append({'property_id': pid, 'reason': NOT_YET})
            continue
        checks.append({
            'property_id': pid,
            'quick_cmd': './check %s --tier quick' % pid,
            'thorough_cmd': './check %s --tier thorough' % pid,
            'evidence_file': '/verif/evidence/%s.json' % pid,
            'replay_cmd_template': './check %s --replay {path}' % pid,
            'engine': 'sa',
            'level_claimed': {'category': 'other', 'text': c['text'] + EXTRA.get(pid, ''), 'design_ref': c['design']},
            'level_note': NOTE_COMMON + c['note'],
            'technique': c['technique'],
        })
    m = {
        'version': 1,
        'setup_cmd': 'if [ -x /venv/bin/python ]; then /venv/bin/python -m compileall -q sa >/dev/null; else python3 -m compileall -q sa >/dev/null; fi; true',
        'hooks': {
            'guard': 'SIGTOOLS_VERIF',
            'enable': 'none needed: the checks are static and read the working tree of /repo; the guard name is reserved and unused',
            'baseline_off_cmd': 'cd /repo && /venv/bin/python -m pytest -ra -q -p no:cacheprovider --timeout=900 --continue-on-collection-errors',
            'source_commits': [],
            'add_only': True,
        },
        'engines': [{
            'name': 'sa', 'path': '/verif/sa',
            'serves_properties': [c['property_id'] for c in checks],
            'kind_free_text': 'stdlib-only Python static analyser: source index + callee resolver, path enumeration with '
                              'abstract effects over access-path terms, kind/bucket domain, protocol agreement, '
                              'exception-escape and window analyses, grammar metadata; never imports or runs sigtools',
        }],
        'checks': checks,
        'notes': 'All checks are static analyses of /repo/sigtools/*.py (re-parsed on every run). exit 0 = all rules hold or are '
                 'listed known findings; exit 1 = VIOLATION line; exit 2 = ANALYSIS-ERROR (inconclusive: vanished anchor / '
                 'unknown idiom), never a silent pass. Known findings: /verif/known_findings.json.',
        'not_applicable': na,
    }
    with open(os.path.join(HERE, 'MANIFEST.json'), 'w') as f:
        json.dump(m, f, indent=1)
        f.write('\n')


if __name__ == '__main__':
    main()
