#!/usr/bin/env python3
"""Development regression: (1) all twenty checks on /repo must exit 0; (2) the self-test corpora must have no wrong verdict;
(3) every stored seed is re-run against all checks (16-way) and the table of own-property detection is printed.
usage: tools/regress.py [--seeds-only|--no-seeds] [--only C01-c ...]"""
import io, json, os, shutil, subprocess, sys, tempfile, time
from concurrent.futures import ProcessPoolExecutor
HERE = os.path.dirname(os.path.dirname(os.path.abspath(__file__)))
sys.path.insert(0, HERE)
ALL = ['C%02d' % i for i in range(1, 21)]


def clean(p):
    from sa.main import run_property
    buf = io.StringIO()
    t = time.time()
    code = run_property(p, '/repo', 'quick', write_evidence=False, out=buf)
    return p, code, time.time() - t, [l for l in buf.getvalue().splitlines() if 'ANALYSIS-ERROR' in l or '[VIOLATION]' in l][:5]


def seed(d):
    from sa.main import run_property
    patch = os.path.join(HERE, 'seeded', d, 'patch.diff')
    t = tempfile.mkdtemp(prefix='sa-seed-')
    fired = {}
    try:
        shutil.copytree('/repo/sigtools', os.path.join(t, 'sigtools'), ignore=shutil.ignore_patterns('__pycache__', 'tests'))
        r = subprocess.run(['patch', '-p1', '-s', '-d', t, '-i', patch], capture_output=True, text=True)
        if r.returncode != 0:
            return d, None
        for p in ALL:
            buf = io.StringIO()
            code = run_property(p, t, 'quick', write_evidence=False, out=buf)
            if code != 0:
                rules = sorted(set(l.split(' [VIOLATION]')[0].split()[-1] for l in buf.getvalue().splitlines() if '[VIOLATION]' in l))
                fired[p] = (code, rules)
    finally:
        shutil.rmtree(t, ignore_errors=True)
    return d, fired


def main():
    args = sys.argv[1:]
    only = [a for a in args if not a.startswith('--')]
    bad = 0
    with ProcessPoolExecutor(16) as ex:
        if '--seeds-only' not in args:
            for p, code, dt, lines in ex.map(clean, ALL):
                if code != 0:
                    bad += 1
                    print('CLEAN-TREE %s exit %d (%.1fs)' % (p, code, dt))
                    for l in lines:
                        print('   ', l[:300])
            print('clean tree: %d/20 exit 0' % (20 - bad))
            from sa import selftest
            res = selftest.run('/repo')
            print('selftest: variants=%d evaluations=%d skipped=%d wrong=%d' % (res['variants'], res['evaluations'], res['skipped'], len(res['bad'])))
            for vid, p, x in res['bad']:
                bad += 1
                print('  WRONG %s %s: wanted %s got %s rules=%s' % (vid, p, x['want'], x['got'], x['rules_hit']))
        if '--no-seeds' not in args:
            seeds = sorted(d for d in os.listdir(os.path.join(HERE, 'seeded')) if os.path.exists(os.path.join(HERE, 'seeded', d, 'patch.diff')))
            if only:
                seeds = [s for s in seeds if s in only]
            own = other = inc = miss = 0
            for d, fired in ex.map(seed, seeds):
                prop = d.split('-')[0]
                if fired is None:
                    print('%-7s PATCH DOES NOT APPLY' % d)
                    continue
                viol = dict((p, r) for p, (c, r) in fired.items() if c == 1)
                incl = [p for p, (c, r) in fired.items() if c == 2]
                if prop in viol:
                    own += 1
                    tag = 'own'
                elif viol:
                    other += 1
                    tag = 'OTHER'
                elif incl:
                    inc += 1
                    tag = 'INCONCL'
                else:
                    miss += 1
                    tag = 'MISS'
                if tag != 'own' or only:
                    print('%-7s %-7s %s %s' % (d, tag, ' '.join('%s%s' % (p, r) for p, r in sorted(viol.items())), ('inconclusive:' + ','.join(incl)) if incl else ''))
            print('seeds: %d own-property VIOLATION, %d only by another property, %d inconclusive only, %d missed' % (own, other, inc, miss))
    return 1 if bad else 0


if __name__ == '__main__':
    sys.exit(main())
