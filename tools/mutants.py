#!/usr/bin/env python3
"""Development aid (NOT a registered check, not evidence): systematic AST mutants of the non-test modules of
/repo/sigtools, each run (a) against the pinned test suite in a scratch copy and (b) against all twenty static
checks.  A mutant that passes the suite and that no check reports is a *candidate gap*: either it is equivalent /
value-level, or a rule is missing.  Results: JSONL on stdout / --out.

usage: tools/mutants.py [--modules _signatures,_autoforwards,...] [--jobs 16] [--out FILE] [--only-func NAME] [--limit N]
"""
import argparse
import ast
import copy
import io
import json
import os
import shutil
import subprocess
import sys
import tempfile
from concurrent.futures import ProcessPoolExecutor

HERE = os.path.dirname(os.path.dirname(os.path.abspath(__file__)))
sys.path.insert(0, HERE)
REPO = os.environ.get('VERIF_REPO', '/repo')
ALL = ['C%02d' % i for i in range(1, 21)]
MODULES = ['_signatures', '_autoforwards', '_specifiers', '_util', 'modifiers', 'specifiers', 'sphinxext', 'support', 'wrappers', 'signatures']

CMP_SWAP = {ast.Eq: ast.NotEq, ast.NotEq: ast.Eq, ast.Is: ast.IsNot, ast.IsNot: ast.Is, ast.In: ast.NotIn, ast.NotIn: ast.In,
            ast.Lt: ast.LtE, ast.LtE: ast.Lt, ast.Gt: ast.GtE, ast.GtE: ast.Gt}
CONFUSABLE = [
    ('varargs', 'varkwargs'), ('posargs', 'pokargs'), ('pokargs', 'kwoargs'), ('l_', 'r_'), ('left', 'right'), ('i_', 'o_'),
    ('outer', 'inner'), ('hide_args', 'hide_kwargs'), ('args', 'kwargs'), ('posoarg', 'kwoarg'), ('instance', 'owner'),
    ('wrapped', 'wrapper'), ('start', 'end'), ('use_', 'hide_'), ('func', 'partial_obj'),
]


def swap_ident(name):
    out = []
    for a, b in CONFUSABLE:
        for x, y in ((a, b), (b, a)):
            if x in name:
                n = name.replace(x, y, 1)
                if n != name:
                    out.append(n)
    return out


class Site(object):
    def __init__(self, func, node, desc, apply):
        self.func, self.node, self.desc, self.apply = func, node, desc, apply


def enclosing_functions(tree):
    res = {}

    def walk(n, qual):
        for c in ast.iter_child_nodes(n):
            q = qual
            if isinstance(c, (ast.FunctionDef, ast.AsyncFunctionDef, ast.ClassDef)):
                q = (qual + '.' if qual else '') + c.name
            res[id(c)] = q
            walk(c, q)
    walk(tree, '')
    return res


def gen_mutants(src, modname):
    """yields (desc, func, lineno, new_source)"""
    tree = ast.parse(src)
    encl = enclosing_functions(tree)
    nodes = [n for n in ast.walk(tree)]
    # local names per function for identifier swaps
    locals_of = {}
    for n in nodes:
        if isinstance(n, (ast.Name, ast.arg)):
            q = encl.get(id(n), '')
            locals_of.setdefault(q, set()).add(n.id if isinstance(n, ast.Name) else n.arg)
    attrs_of = {}
    for n in nodes:
        if isinstance(n, ast.Attribute):
            attrs_of.setdefault(encl.get(id(n), ''), set()).add(n.attr)
    index = {id(n): i for i, n in enumerate(nodes)}

    def emit(i, desc, mut):
        t2 = copy.deepcopy(tree)
        n2 = list(ast.walk(t2))[i]
        r = mut(n2, t2)
        if r is False:
            return None
        ast.fix_missing_locations(t2)
        try:
            new = ast.unparse(t2)
            compile(new, modname, 'exec')
        except Exception:
            return None
        if new == BASE[modname]:
            return None
        n = nodes[i]
        return (desc, encl.get(id(n), ''), getattr(n, 'lineno', 0), new)

    def replace_in_parent(t2, target, newnode):
        for p in ast.walk(t2):
            for f, v in ast.iter_fields(p):
                if v is target:
                    setattr(p, f, newnode)
                    return True
                if isinstance(v, list):
                    for k, e in enumerate(v):
                        if e is target:
                            v[k] = newnode
                            return True
        return False

    for i, n in enumerate(nodes):
        q = encl.get(id(n), '')
        if not q:
            # module level: only mutate class-level/simple assignments? skip
            continue
        if isinstance(n, (ast.If, ast.While, ast.IfExp)):
            def neg(n2, t2):
                n2.test = ast.UnaryOp(ast.Not(), n2.test)
            yield emit(i, 'negate-test', neg)
            if isinstance(n, ast.If) and n.orelse == [] and not isinstance(getattr(n, '_p', None), ast.If):
                def always(n2, t2):
                    n2.test = ast.Constant(True)
                yield emit(i, 'test-always-true', always)

                def never(n2, t2):
                    n2.test = ast.Constant(False)
                yield emit(i, 'test-always-false', never)
        if isinstance(n, ast.BoolOp):
            def flip(n2, t2):
                n2.op = ast.Or() if isinstance(n2.op, ast.And) else ast.And()
            yield emit(i, 'and<->or', flip)
            for k in range(len(n.values)):
                def dropv(n2, t2, k=k):
                    vals = n2.values[:k] + n2.values[k + 1:]
                    new = vals[0] if len(vals) == 1 else ast.BoolOp(n2.op, vals)
                    return replace_in_parent(t2, n2, new)
                yield emit(i, 'drop-operand-%d' % k, dropv)
        if isinstance(n, ast.Compare) and len(n.ops) == 1 and type(n.ops[0]) in CMP_SWAP:
            def sw(n2, t2):
                n2.ops = [CMP_SWAP[type(n2.ops[0])]()]
            yield emit(i, 'cmp-swap', sw)
        if isinstance(n, ast.UnaryOp) and isinstance(n.op, ast.Not):
            def unnot(n2, t2):
                return replace_in_parent(t2, n2, n2.operand)
            yield emit(i, 'drop-not', unnot)
        if isinstance(n, (ast.Expr, ast.Assign, ast.AugAssign, ast.Delete, ast.Raise, ast.Assert, ast.Continue, ast.Break)) and \
                not (isinstance(n, ast.Expr) and isinstance(n.value, ast.Constant)):
            def dele(n2, t2):
                return replace_in_parent(t2, n2, ast.Pass())
            yield emit(i, 'delete-stmt:%s' % type(n).__name__, dele)
        if isinstance(n, ast.Return) and n.value is not None and not (isinstance(n.value, ast.Constant) and n.value.value is None):
            def retnone(n2, t2):
                n2.value = ast.Constant(None)
            yield emit(i, 'return-none', retnone)
        if isinstance(n, ast.Call):
            if len(n.args) >= 2 and not any(isinstance(a, ast.Starred) for a in n.args):
                for k in range(len(n.args) - 1):
                    def swp(n2, t2, k=k):
                        n2.args[k], n2.args[k + 1] = n2.args[k + 1], n2.args[k]
                    yield emit(i, 'swap-args-%d' % k, swp)
            for k, kw in enumerate(n.keywords):
                def dk(n2, t2, k=k):
                    del n2.keywords[k]
                yield emit(i, 'drop-kw:%s' % (kw.arg or '**'), dk)
            if len(n.keywords) >= 2:
                for k in range(len(n.keywords) - 1):
                    if n.keywords[k].arg and n.keywords[k + 1].arg:
                        def swk(n2, t2, k=k):
                            n2.keywords[k].value, n2.keywords[k + 1].value = n2.keywords[k + 1].value, n2.keywords[k].value
                        yield emit(i, 'swap-kw-values-%d' % k, swk)
        if isinstance(n, ast.Constant) and not isinstance(getattr(n, 'value', None), str):
            v = n.value
            if v is True or v is False:
                def fl(n2, t2):
                    n2.value = not n2.value
                yield emit(i, 'bool-flip', fl)
            elif isinstance(v, int):
                for d in (1, -1):
                    def inc(n2, t2, d=d):
                        n2.value = n2.value + d
                    yield emit(i, 'int%+d' % d, inc)
            elif v is None and False:
                pass
        if isinstance(n, ast.BinOp) and isinstance(n.op, (ast.Add, ast.Sub)):
            def fo(n2, t2):
                n2.op = ast.Sub() if isinstance(n2.op, ast.Add) else ast.Add()
            yield emit(i, 'add<->sub', fo)

            def lo(n2, t2):
                return replace_in_parent(t2, n2, n2.left)
            yield emit(i, 'binop-left-only', lo)
        if isinstance(n, ast.Name):
            for alt in swap_ident(n.id):
                if alt in locals_of.get(q, ()):  # only swap to a name that exists in the function
                    def sn(n2, t2, alt=alt):
                        n2.id = alt
                    yield emit(i, 'name:%s->%s' % (n.id, alt), sn)
        if isinstance(n, ast.Attribute):
            for alt in swap_ident(n.attr):
                if alt in attrs_of.get(q, ()) or alt in ALL_ATTRS:
                    def sa(n2, t2, alt=alt):
                        n2.attr = alt
                    yield emit(i, 'attr:%s->%s' % (n.attr, alt), sa)
            if n.attr in KINDS:
                for alt in KINDS:
                    if alt != n.attr:
                        def sk(n2, t2, alt=alt):
                            n2.attr = alt
                        yield emit(i, 'kind:%s->%s' % (n.attr, alt), sk)
        if isinstance(n, ast.keyword) and n.arg:
            for alt in swap_ident(n.arg):
                def skw(n2, t2, alt=alt):
                    n2.arg = alt
                yield emit(i, 'kwname:%s->%s' % (n.arg, alt), skw)
        if isinstance(n, ast.Subscript) and isinstance(n.slice, ast.Slice):
            def noslice(n2, t2):
                return replace_in_parent(t2, n2, n2.value)
            yield emit(i, 'drop-slice', noslice)
        if isinstance(n, ast.ExceptHandler) and n.type is not None:
            def bare(n2, t2):
                n2.body = [ast.Raise()]
            yield emit(i, 'handler-reraise', bare)
        if isinstance(n, ast.Try) and n.finalbody:
            def nofin(n2, t2):
                if not n2.handlers:
                    return False
                n2.finalbody = []
            yield emit(i, 'drop-finally', nofin)
        if isinstance(n, (ast.For,)) and n.orelse:
            def noelse(n2, t2):
                n2.orelse = []
            yield emit(i, 'drop-for-else', noelse)


KINDS = ['POSITIONAL_ONLY', 'POSITIONAL_OR_KEYWORD', 'VAR_POSITIONAL', 'KEYWORD_ONLY', 'VAR_KEYWORD']
ALL_ATTRS = set()
BASE = {}


KNOWN_SUITE = {}


def evaluate(job):
    mid, modname, desc, func, lineno, new = job
    d = tempfile.mkdtemp(prefix='sa-mut-')
    try:
        shutil.copytree(REPO, d, dirs_exist_ok=True, ignore=shutil.ignore_patterns('.git', '__pycache__', 'docs', '*.egg-info', 'examples'))
        with open(os.path.join(d, 'sigtools', modname + '.py'), 'w') as f:
            f.write(new)
        env = dict(os.environ, PYTHONPATH=d, PYTHONDONTWRITEBYTECODE='1')
        if mid in KNOWN_SUITE:
            tail = KNOWN_SUITE[mid]       # --recheck: the suite verdict of an earlier sweep over the same source is reused
        else:
          try:
            r = subprocess.run(['/venv/bin/python', '-m', 'pytest', '-q', '-p', 'no:cacheprovider', '--timeout=120',
                                '--continue-on-collection-errors'], cwd=d, env=env, capture_output=True, text=True, timeout=600)
            tail = (r.stdout.strip().splitlines() or [''])[-1]
          except subprocess.TimeoutExpired:
            tail = 'timeout'
        suite_ok = '294 passed' in tail and '10 errors' in tail and 'failed' not in tail
        import difflib
        dl = [l for l in difflib.unified_diff(BASE[modname].splitlines(), new.splitlines(), lineterm='', n=0) if not l.startswith(('---', '+++', '@@'))]
        res = {'id': mid, 'module': modname, 'func': func, 'line': lineno, 'desc': desc, 'suite': tail, 'suite_ok': suite_ok, 'diff': dl[:8]}
        if suite_ok or os.environ.get('MUT_ALL'):
            from sa.main import run_property
            fired, incon = {}, []
            for p in ALL:
                buf = io.StringIO()
                code = run_property(p, d, 'quick', write_evidence=False, out=buf)
                if code == 1:
                    fired[p] = sorted(set(l.split(' [VIOLATION]')[0].split()[-1] for l in buf.getvalue().splitlines() if '[VIOLATION]' in l))
                elif code != 0:
                    incon.append(p)
            res['fired'] = fired
            res['inconclusive'] = incon
        return res
    finally:
        shutil.rmtree(d, ignore_errors=True)


def main():
    ap = argparse.ArgumentParser()
    ap.add_argument('--modules', default=','.join(MODULES))
    ap.add_argument('--jobs', type=int, default=16)
    ap.add_argument('--out', default='/tmp/mutants.jsonl')
    ap.add_argument('--only-func')
    ap.add_argument('--limit', type=int)
    ap.add_argument('--list', action='store_true')
    ap.add_argument('--recheck', help='JSONL of an earlier sweep over the same source: only its suite-surviving mutants are run, and only against the checks')
    a = ap.parse_args()
    prev = {}
    if a.recheck:
        for l in open(a.recheck):
            r = json.loads(l)
            prev[r['id']] = r
    jobs = []
    for m in a.modules.split(','):
        src = open(os.path.join(REPO, 'sigtools', m + '.py')).read()
        BASE[m] = ast.unparse(ast.parse(src))
        for n in ast.walk(ast.parse(src)):
            if isinstance(n, ast.Attribute):
                ALL_ATTRS.add(n.attr)
    for m in a.modules.split(','):
        src = open(os.path.join(REPO, 'sigtools', m + '.py')).read()
        seen = set()
        for mu in gen_mutants(src, m):
            if mu is None:
                continue
            desc, func, lineno, new = mu
            if a.only_func and a.only_func not in func:
                continue
            if new in seen:
                continue
            seen.add(new)
            jobs.append(('%s:%d' % (m, len(jobs)), m, desc, func, lineno, new))
    if a.recheck:
        keep = []
        for j in jobs:
            r = prev.get(j[0])
            if r is not None and r['suite_ok'] and r['func'] == j[3] and r['desc'] == j[2] and r['line'] == j[4]:
                KNOWN_SUITE[j[0]] = r['suite']
                keep.append(j)
        jobs = keep
    if a.limit:
        jobs = jobs[:a.limit]
    sys.stderr.write('%d mutants\n' % len(jobs))
    if a.list:
        for j in jobs:
            print(j[0], j[3], j[4], j[2])
        return
    with open(a.out, 'w') as out, ProcessPoolExecutor(a.jobs) as ex:
        n = 0
        for res in ex.map(evaluate, jobs, chunksize=1):
            out.write(json.dumps(res) + '\n')
            out.flush()
            n += 1
            if n % 50 == 0:
                sys.stderr.write('%d/%d\n' % (n, len(jobs)))


if __name__ == '__main__':
    main()
