#!/usr/bin/env python3
"""usage: tools/try_edit.py FILE 'old text' 'new text' [PROP ...] -- apply one textual edit to a scratch copy and run the checks"""
import io, os, shutil, sys, tempfile
HERE = os.path.dirname(os.path.dirname(os.path.abspath(__file__)))
sys.path.insert(0, HERE)
from sa.main import run_property
fn, old, new = sys.argv[1:4]
props = sys.argv[4:] or ['C%02d' % i for i in range(1, 21)]
old = old.encode().decode('unicode_escape'); new = new.encode().decode('unicode_escape')
d = tempfile.mkdtemp(prefix='sa-edit-')
try:
    shutil.copytree('/repo/sigtools', os.path.join(d, 'sigtools'), ignore=shutil.ignore_patterns('__pycache__', 'tests'))
    p = os.path.join(d, fn)
    s = open(p).read()
    if s.count(old) != 1:
        print('anchor occurs %d times' % s.count(old)); sys.exit(2)
    open(p, 'w').write(s.replace(old, new))
    compile(open(p).read(), p, 'exec')
    for pr in props:
        buf = io.StringIO()
        code = run_property(pr, d, 'quick', write_evidence=False, out=buf)
        if code:
            lines = [l for l in buf.getvalue().splitlines() if '[VIOLATION]' in l or 'ANALYSIS-ERROR' in l]
            print(pr, {1: 'VIOLATION', 2: 'INCONCLUSIVE'}[code])
            for l in sorted(set(lines))[:4]:
                print('   ', l[:260])
    print('done')
finally:
    shutil.rmtree(d, ignore_errors=True)
