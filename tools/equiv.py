#!/usr/bin/env python3
"""Development aid: false-alarm sweep over /repo (all twenty checks on every behaviour-preserving variant); see sa/equiv.py.
usage: tools/equiv.py [--jobs N] [--out FILE] [--only T1,T2] [--modules _signatures,...] [--list]"""
import os, sys
sys.path.insert(0, os.path.dirname(os.path.dirname(os.path.abspath(__file__))))
from sa.equiv import main
if __name__ == '__main__':
    sys.exit(main())
