#!/usr/bin/env python3
"""(Re)writes /verif/seeded/<id>/meta.json for every confirmed seed: which property it targets, what it needs to
manifest (from the author's notes), what was run to confirm it, and which checks report it on the current tree."""
import io, json, os, re, shutil, subprocess, sys, tempfile
HERE = os.path.dirname(os.path.dirname(os.path.abspath(__file__)))
sys.path.insert(0, HERE)
from sa.main import run_property

ALL = ['C%02d' % i for i in range(1, 21)]


def notes_for(prop, variant):
    p = '/tmp/seed2/%s/notes.md' % prop
    if not os.path.exists(p):
        return None
    txt = open(p).read()
    return txt


def evaluate(d):
    base = os.path.join(HERE, 'seeded')
    sd = os.path.join(base, d)
    patch = os.path.join(sd, 'patch.diff')
    applies = subprocess.run(['git', '-C', '/repo', 'apply', '--check', patch], capture_output=True).returncode == 0
    fired = {}
    if applies:
        t = tempfile.mkdtemp(prefix='sa-seed-')
        try:
            shutil.copytree('/repo/sigtools', os.path.join(t, 'sigtools'), ignore=shutil.ignore_patterns('__pycache__', 'tests'))
            subprocess.run(['patch', '-p1', '-s', '-d', t, '-i', patch], check=True, capture_output=True)
            for p in ALL:
                buf = io.StringIO()
                code = run_property(p, t, 'quick', write_evidence=False, out=buf)
                if code != 0:
                    rules = sorted(set(l.split(' [VIOLATION]')[0].split()[-1] for l in buf.getvalue().splitlines() if '[VIOLATION]' in l))
                    fired[p] = {'exit': code, 'rules': rules}
        finally:
            shutil.rmtree(t, ignore_errors=True)
    return d, applies, fired


def main():
    from concurrent.futures import ProcessPoolExecutor
    base = os.path.join(HERE, 'seeded')
    rows = []
    dirs = [d for d in sorted(os.listdir(base)) if os.path.exists(os.path.join(base, d, 'patch.diff'))]
    with ProcessPoolExecutor(16) as ex:
        results = list(ex.map(evaluate, dirs))
    for d, applies, fired in results:
        sd = os.path.join(base, d)
        prop, variant = d.split('-')
        meta_path = os.path.join(sd, 'meta.json')
        old = json.load(open(meta_path)) if os.path.exists(meta_path) else {}
        suite = open(os.path.join(sd, 'suite.txt')).read().strip() if os.path.exists(os.path.join(sd, 'suite.txt')) else ''
        meta = {
            'id': d,
            'breaks_property': prop,
            'origin': 'independent sub-agent given only the property text and a scratch worktree (no access to /verif)',
            'needs_to_manifest': old.get('needs_to_manifest') or 'see author_notes.md (section %s)' % variant.upper(),
            'confirmed_by': [
                'git apply patch.diff in a scratch worktree of /repo',
                'pinned suite with the change: %s' % suite,
                'demo.py with the change: exit 1; without: exit 0 (tools/confirm_seed.sh)',
            ],
            'applies_to_current_head': applies,
            'detected_by': dict((p, v['rules']) for p, v in fired.items() if v['exit'] == 1),
            'inconclusive_in': [p for p, v in fired.items() if v['exit'] == 2],
            'detected_by_own_property_check': prop in fired and fired[prop]['exit'] == 1,
        }
        json.dump(meta, open(meta_path, 'w'), indent=1)
        rows.append((d, applies, meta['detected_by_own_property_check'], ','.join('%s%s' % (p, v['rules']) for p, v in fired.items())))
    for r in rows:
        print('%-8s applies=%-5s own=%-5s %s' % r)


if __name__ == '__main__':
    main()
