#!/bin/bash
# tools/confirm_seed.sh <PROP> <variant> [WTROOT] [SEEDROOT]: confirm a seeded change in its scratch worktree, then store it
# under /verif/seeded/ (patch applies; suite still 294 passed; demo fails with the change and passes without)
P=$1; V=$2
WT=${3:-/tmp/wt2}/$P; SD=${4:-/tmp/seed2}/$P
set -u
git -C $WT checkout -q -- . || exit 2
git -C $WT apply $SD/$V.diff || { echo "APPLY FAILED"; exit 2; }
( cd $WT && /venv/bin/python -m pytest -q -p no:cacheprovider --timeout=900 --continue-on-collection-errors 2>&1 | tail -1 ) > $SD/$V.suite.txt
SUITE=$(cat $SD/$V.suite.txt)
( cd $WT && PYTHONPATH=$WT timeout 300 /venv/bin/python $SD/${V}_demo.py >$SD/$V.with.txt 2>&1 ); WITH=$?
git -C $WT checkout -q -- .
( cd $WT && PYTHONPATH=$WT timeout 300 /venv/bin/python $SD/${V}_demo.py >$SD/$V.without.txt 2>&1 ); WITHOUT=$?
find $WT -name __pycache__ -prune -exec rm -rf {} + 2>/dev/null
echo "$P/$V suite: $SUITE | demo with change: exit $WITH | without: exit $WITHOUT"
case "$SUITE" in *"294 passed, 2 skipped"*"10 errors"*) ;; *) echo "REJECT: suite"; exit 1;; esac
[ $WITH -ne 0 ] && [ $WITHOUT -eq 0 ] || { echo "REJECT: demo"; exit 1; }
D=/verif/seeded/$P-$V
mkdir -p $D
cp $SD/$V.diff $D/patch.diff
cp $SD/${V}_demo.py $D/demo.py
echo "$SUITE" > $D/suite.txt
[ -f $SD/notes.md ] && cp $SD/notes.md $D/author_notes.md
echo CONFIRMED
