#!/bin/bash
# tools/confirm_seed.sh <PROP> <a|b> : confirm a seeded change in its scratch worktree, then store it under /verif/seeded/
# (patch applies; suite still 294 passed; demo fails with the change and passes without)
P=$1; V=$2
WT=/tmp/wt/$P; SD=/tmp/seed/$P
set -u
git -C $WT checkout -q -- . || exit 2
git -C $WT apply $SD/$V.diff || { echo "APPLY FAILED"; exit 2; }
( cd $WT && /venv/bin/python -m pytest -q -p no:cacheprovider --timeout=900 --continue-on-collection-errors 2>&1 | tail -1 ) > /tmp/seed/$P/$V.suite.txt
SUITE=$(cat /tmp/seed/$P/$V.suite.txt)
( cd $WT && PYTHONPATH=$WT /venv/bin/python $SD/${V}_demo.py >/tmp/seed/$P/$V.with.txt 2>&1 ); WITH=$?
git -C $WT checkout -q -- .
( cd $WT && PYTHONPATH=$WT /venv/bin/python $SD/${V}_demo.py >/tmp/seed/$P/$V.without.txt 2>&1 ); WITHOUT=$?
echo "$P/$V suite: $SUITE | demo with change: exit $WITH | without: exit $WITHOUT"
case "$SUITE" in *"294 passed"*) ;; *) echo "REJECT: suite"; exit 1;; esac
[ $WITH -ne 0 ] && [ $WITHOUT -eq 0 ] || { echo "REJECT: demo"; exit 1; }
D=/verif/seeded/$P-$V
mkdir -p $D
cp $SD/$V.diff $D/patch.diff
cp $SD/${V}_demo.py $D/demo.py
echo "$SUITE" > $D/suite.txt
echo CONFIRMED
