"""Definite assignment of local variables (a structured dataflow over the syntax tree): a read of a local name on a path on which
no binding of it was executed raises UnboundLocalError -- which is neither ValueError (C15) nor absent (C07)."""
import ast

from .index import norm
from .callgraph import CallGraph, local_names, norm_locals

ALL = None     # marker: "control does not get here"


def _bound_by(node):
    """names bound by an expression/statement node itself (not its nested blocks)"""
    out = set()
    for n in ast.walk(node):
        if isinstance(n, ast.Name) and isinstance(n.ctx, ast.Store):
            out.add(n.id)
        elif isinstance(n, (ast.FunctionDef, ast.AsyncFunctionDef, ast.ClassDef)):
            out.add(n.name)
        elif isinstance(n, (ast.Import, ast.ImportFrom)):
            for a in n.names:
                out.add((a.asname or a.name).split('.')[0])
    return out


class DefiniteAssignment(object):
    def __init__(self, fi):
        self.fi = fi
        self.locals = local_names(fi.node)
        self.problems = []       # (Name node, name)
        a = fi.node.args
        self.params = set(x.arg for x in a.posonlyargs + a.args + a.kwonlyargs + [y for y in (a.vararg, a.kwarg) if y])
        self.exits = []          # per enclosing loop: the sets at its continue / break statements

    def run(self):
        self.block(self.fi.node.body, set(self.params))
        return self.problems

    # -- expressions: every Name load of a local must be in `defined` ----------
    def uses(self, node, defined):
        if node is None:
            return
        for n in self._own(node):
            if isinstance(n, ast.Name) and isinstance(n.ctx, ast.Load) and n.id in self.locals and n.id not in defined:
                self.problems.append((n, n.id))

    def _own(self, node):
        """nodes of an expression, not entering nested scopes (lambda / comprehension bodies see their own targets)"""
        stack = [node]
        while stack:
            n = stack.pop()
            yield n
            if isinstance(n, (ast.Lambda, ast.FunctionDef, ast.AsyncFunctionDef, ast.ClassDef)):
                continue
            if isinstance(n, (ast.ListComp, ast.SetComp, ast.DictComp, ast.GeneratorExp)):
                # only the first iterable is evaluated in this scope
                stack.append(n.generators[0].iter)
                continue
            stack.extend(ast.iter_child_nodes(n))

    # -- statements -----------------------------------------------------------------
    def block(self, stmts, defined):
        """-> set of names defined after the block, or ALL when control cannot fall out of it"""
        cur = set(defined)
        for s in stmts:
            cur = self.stmt(s, cur)
            if cur is ALL:
                return ALL
        return cur

    def stmt(self, s, d):
        out = self._stmt(s, d)
        if out is ALL or isinstance(s, ast.Assert):
            return out
        rebound = _bound_by(s) if not isinstance(s, (ast.If, ast.For, ast.AsyncFor, ast.While, ast.With, ast.AsyncWith, ast.Try)) else _bound_by(s)
        if rebound:
            out = set(x for x in out if not (isinstance(x, tuple) and x[1] in rebound))
        return out

    def _stmt(self, s, d):
        if isinstance(s, (ast.Return, ast.Raise)):
            self.uses(getattr(s, 'value', None), d)
            self.uses(getattr(s, 'exc', None), d)
            self.uses(getattr(s, 'cause', None), d)
            return ALL
        if isinstance(s, (ast.Continue, ast.Break)):
            if self.exits:
                self.exits[-1].append(set(d))
            return ALL
        if isinstance(s, ast.If):
            self.uses(s.test, d)
            d = d | self._walrus(s.test)
            a = self.block(s.body, d)
            b = self.block(s.orelse, d)
            return self._join(a, b)
        if isinstance(s, (ast.For, ast.AsyncFor)):
            self.uses(s.iter, d)
            inner = d | _bound_by(s.target)
            once = isinstance(s.iter, ast.Name) and ('?truthy', s.iter.id) in d
            after = self._loop(s, inner, d, once)
            # the body may not run at all (unless the iterable was asserted non-empty); `else` runs when the loop was not broken out of
            e = self.block(s.orelse, after)
            if e is ALL and not self._has_break(s):
                return ALL
            return after
        if isinstance(s, ast.While):
            self.uses(s.test, d)
            once = (isinstance(s.test, ast.Name) and ('?truthy', s.test.id) in d) or (isinstance(s.test, ast.Constant) and bool(s.test.value))
            after = self._loop(s, d | self._walrus(s.test), d, once)
            if isinstance(s.test, ast.Constant) and s.test.value and not self._has_break(s):
                return ALL
            self.block(s.orelse, after)
            return after
        if isinstance(s, (ast.With, ast.AsyncWith)):
            cur = set(d)
            for item in s.items:
                self.uses(item.context_expr, cur)
                if item.optional_vars is not None:
                    cur |= _bound_by(item.optional_vars)
            return self.block(s.body, cur)
        if isinstance(s, ast.Try):
            body = self.block(s.body, d)
            outs = []
            if body is not ALL:
                e = self.block(s.orelse, body)
                outs.append(e)
            else:
                outs.append(ALL)
            for h in s.handlers:
                hd = set(d)          # nothing the body bound is certain in a handler
                if h.name:
                    hd.add(h.name)
                self.uses(h.type, d)
                outs.append(self.block(h.body, hd))
            res = ALL
            for o in outs:
                res = self._join(res, o)
            if s.finalbody:
                f = self.block(s.finalbody, set(d))
                if f is ALL:
                    return ALL
                if res is not ALL:
                    res = res | (f - d)
            return res
        if isinstance(s, (ast.FunctionDef, ast.AsyncFunctionDef, ast.ClassDef)):
            for dec in s.decorator_list:
                self.uses(dec, d)
            return d | set([s.name])
        if isinstance(s, ast.Assign):
            self.uses(s.value, d)
            for t in s.targets:
                self._target_uses(t, d)
            return d | _bound_by(ast.Module(body=[ast.Expr(value=t) for t in s.targets], type_ignores=[])) | self._walrus(s.value)
        if isinstance(s, ast.AugAssign):
            self.uses(s.value, d)
            if isinstance(s.target, ast.Name):
                if s.target.id in self.locals and s.target.id not in d:
                    self.problems.append((s.target, s.target.id))
                return d | set([s.target.id])
            self._target_uses(s.target, d)
            return d
        if isinstance(s, ast.AnnAssign):
            self.uses(s.value, d)
            if s.value is not None and isinstance(s.target, ast.Name):
                return d | set([s.target.id])
            return d
        if isinstance(s, ast.Delete):
            out = set(d)
            for t in s.targets:
                if isinstance(t, ast.Name):
                    out.discard(t.id)
                else:
                    self._target_uses(t, d)
            return out
        if isinstance(s, (ast.Import, ast.ImportFrom)):
            return d | _bound_by(s)
        if isinstance(s, (ast.Global, ast.Nonlocal, ast.Pass)):
            return d
        if isinstance(s, ast.Expr):
            self.uses(s.value, d)
            return d | self._walrus(s.value)
        if isinstance(s, ast.Assert):
            self.uses(s.test, d)
            self.uses(s.msg, d)
            if isinstance(s.test, ast.Name):
                return d | set([('?truthy', s.test.id)])      # a fact: dropped again when the name is rebound
            return d
        if hasattr(ast, 'Match') and isinstance(s, ast.Match):
            self.uses(s.subject, d)
            outs = []
            for c in s.cases:
                cd = d | _bound_by(c.pattern)
                self.uses(c.guard, cd)
                outs.append(self.block(c.body, cd))
            outs.append(d)
            res = ALL
            for o in outs:
                res = self._join(res, o)
            return res
        # anything else: look at the loads, bind the stores
        self.uses(s, d)
        return d | _bound_by(s)

    def _loop(self, s, inner, d, once):
        """analyse the body; -> the set after the loop: `d`, plus -- when the body certainly runs at least once -- what every way of
        ending an iteration (falling off the end, continue, break) has bound"""
        self.exits.append([])
        end = self.block(s.body, inner)
        ex = self.exits.pop()
        if not once:
            return set(x for x in d)
        outs = list(ex) + ([end] if end is not ALL else [])
        if not outs:
            return set(d)
        common = set(outs[0])
        for o in outs[1:]:
            common &= o
        return set(d) | set(x for x in common if not (isinstance(x, tuple)))

    def _target_uses(self, t, d):
        """a subscript/attribute target reads its base"""
        if isinstance(t, (ast.Subscript, ast.Attribute)):
            self.uses(t.value, d)
            if isinstance(t, ast.Subscript):
                self.uses(t.slice, d)
        elif isinstance(t, (ast.Tuple, ast.List)):
            for e in t.elts:
                self._target_uses(e, d)
        elif isinstance(t, ast.Starred):
            self._target_uses(t.value, d)

    def _walrus(self, node):
        return set(n.target.id for n in ast.walk(node) if isinstance(n, ast.NamedExpr)) if node is not None else set()

    def _join(self, a, b):
        if a is ALL:
            return b
        if b is ALL:
            return a
        return a & b

    def _has_break(self, loop):
        stack = list(loop.body)
        while stack:
            n = stack.pop()
            if isinstance(n, ast.Break):
                return True
            if isinstance(n, (ast.For, ast.AsyncFor, ast.While, ast.FunctionDef, ast.AsyncFunctionDef, ast.Lambda, ast.ClassDef)):
                continue
            stack.extend(ast.iter_child_nodes(n))
        return False


def undefined_names(repo, fi):
    """Name loads in fi that are neither local, nor bound in an enclosing function or class body, nor module-level names of fi's
    module, nor builtins: a NameError waiting for the path to be taken"""
    import builtins
    loc = local_names(fi.node)
    outer = set()
    par = fi.parent
    while par is not None:
        outer |= local_names(par.node)
        par = par.parent
    m = fi.module
    modnames = set(m.funcs) | set(m.classes) | set(m.assigns) | set(m.imports)
    for n in ast.walk(m.tree):
        if isinstance(n, (ast.Global,)):
            modnames |= set(n.names)
    # names bound at module level by other statements (for/with/try targets, conditional defs, del ...)
    for st_ in m.tree.body:
        for x in ast.walk(st_):
            if isinstance(x, (ast.FunctionDef, ast.AsyncFunctionDef, ast.ClassDef)):
                modnames.add(x.name)
                continue
        for x in ast.iter_child_nodes(st_) if not isinstance(st_, (ast.FunctionDef, ast.AsyncFunctionDef, ast.ClassDef)) else []:
            for y in ast.walk(x):
                if isinstance(y, ast.Name) and isinstance(y.ctx, ast.Store):
                    modnames.add(y.id)
                elif isinstance(y, ast.ExceptHandler) and y.name:
                    modnames.add(y.name)
    clsnames = set()
    if fi.cls is not None:
        clsnames = set()       # class-body names are not visible from methods
    out = []
    stack = list(ast.iter_child_nodes(fi.node))
    comp_targets = set()
    for n in ast.walk(fi.node):
        if isinstance(n, ast.comprehension):
            for y in ast.walk(n.target):
                if isinstance(y, ast.Name):
                    comp_targets.add(y.id)
        elif isinstance(n, ast.Lambda):
            a = n.args
            for y in a.posonlyargs + a.args + a.kwonlyargs + [z for z in (a.vararg, a.kwarg) if z]:
                comp_targets.add(y.arg)
        elif isinstance(n, (ast.FunctionDef, ast.AsyncFunctionDef)) and n is not fi.node:
            a = n.args
            for y in a.posonlyargs + a.args + a.kwonlyargs + [z for z in (a.vararg, a.kwarg) if z]:
                comp_targets.add(y.arg)
            for y in ast.walk(n):
                if isinstance(y, ast.Name) and isinstance(y.ctx, ast.Store):
                    comp_targets.add(y.id)
        elif isinstance(n, ast.NamedExpr):
            comp_targets.add(n.target.id)
    for n in ast.walk(fi.node):
        if isinstance(n, ast.Name) and isinstance(n.ctx, ast.Load):
            if n.id in loc or n.id in outer or n.id in modnames or n.id in comp_targets or hasattr(builtins, n.id) or n.id in ('__class__', '__file__', '__name__'):
                continue
            out.append((n, n.id))
    return out


def rule_definite_assignment(check, rule, roots, what):
    """every read of a local variable in the functions reachable from `roots` is preceded, on every path, by a binding of it.
    (`for`/`while` bodies may run zero times; a `try` body gives its handlers nothing; names bound only inside such a region are
    not definitely bound after it.)"""
    repo = check.repo
    cg = CallGraph(repo)
    keys = []
    for r in roots:
        if r.startswith('*'):
            for fi_ in repo.all_funcs():
                if fi_.module.name == r[1:] and fi_.key not in keys:
                    keys.append(fi_.key)
            continue
        if repo.func(r, required=False) is None:
            check.inconclusive(rule, '-', 'anchor %s vanished' % r, key='defassign|root|%s' % r)
            continue
        for k in cg.closure([r]):
            if k not in keys:
                keys.append(k)
    n = 0
    bad = 0
    for k in keys:
        fi = repo.func(k, required=False)
        if fi is None or not isinstance(fi.node, (ast.FunctionDef, ast.AsyncFunctionDef)):
            continue
        n += 1
        check.analysed(fi)
        for node, name in undefined_names(repo, fi):
            bad += 1
            check.violation(rule, '%s %s' % (fi.loc(node), fi.key), 'the name %r is read here but is bound nowhere -- not in this function, not in an '
                            'enclosing one, not at module level, not a builtin: NameError %s' % (name, what), key='undefined|%s|%s' % (fi.key, name),
                            witness='the path through this statement')
        for node, name in DefiniteAssignment(fi).run():
            bad += 1
            check.violation(rule, '%s %s' % (fi.loc(node), fi.key), 'the local variable %r is read here although a path reaches this point without binding '
                            'it (a loop that may run zero times, a branch or a handler that skips the assignment): UnboundLocalError %s'
                            % (name, what), key='defassign|%s|%s' % (fi.key, name),
                            witness='the path on which the assignment is skipped')
    if not bad:
        check.holds(rule, '-', 'every read of a local variable is preceded by a binding on every path (%d functions)' % n, key='defassign|none|%s' % roots[0],
                    nontrivial=False)
    check.floor(rule, 'functions checked for definite assignment', n, 5)


# ---------------------------------------------------------------------------
# constant-index access on a sequence that may be empty

REVIEWED_INDEX = {
    # (locals are written `$`: the keys survive a renaming)
    ('_autoforwards:autoforwards_hint', '$'): 'the hint protocol: a triple (function, ast, signature) or None, and None is tested first',
    ('_util:get_ast', '$.body'): 'the parsed source of a function object: at least its def statement',
}


def _nonempty_dominates(fi, node, base_txt):
    """is the access dominated by a test that `base_txt` is non-empty?  Recognised: an enclosing `if <base>` / `while <base>` / `<base> and ...`
    (also negated with the access in the else branch), an earlier `assert <base>` or `if not <base>: raise/return/continue/break` in an
    enclosing block."""
    def says_nonempty(test, pol):
        # test under polarity pol establishes base non-empty?
        if isinstance(test, ast.UnaryOp) and isinstance(test.op, ast.Not):
            return says_nonempty(test.operand, not pol)
        if isinstance(test, ast.BoolOp) and isinstance(test.op, ast.And) and pol:
            return any(says_nonempty(v, True) for v in test.values)
        if isinstance(test, ast.BoolOp) and isinstance(test.op, ast.Or) and not pol:
            return any(says_nonempty(v, False) for v in test.values)
        txt = norm(test)
        if pol and txt in (base_txt, 'len(%s)' % base_txt, 'len(%s) > 0' % base_txt, 'len(%s) >= 1' % base_txt):
            return True
        if not pol and txt in ('len(%s) == 0' % base_txt, 'not %s' % base_txt):
            return True
        return False
    t = node
    while getattr(t, '_parent', None) is not None and t is not fi.node:
        par = t._parent
        if isinstance(par, (ast.If, ast.While)):
            if t in par.body and says_nonempty(par.test, True):
                return True
            if isinstance(par, ast.If) and t in par.orelse and says_nonempty(par.test, False):
                return True
        if isinstance(par, ast.IfExp):
            if t is par.body and says_nonempty(par.test, True):
                return True
            if t is par.orelse and says_nonempty(par.test, False):
                return True
        if isinstance(par, ast.BoolOp) and isinstance(par.op, ast.And):
            i = par.values.index(t) if t in par.values else -1
            if i > 0 and any(says_nonempty(v, True) for v in par.values[:i]):
                return True
        # earlier statements of an enclosing block
        for field in ('body', 'orelse', 'finalbody'):
            blk = getattr(par, field, None)
            if isinstance(blk, list) and t in blk:
                for s_ in blk[:blk.index(t)]:
                    if isinstance(s_, ast.Assert) and says_nonempty(s_.test, True):
                        return True
                    if isinstance(s_, ast.If) and not s_.orelse and isinstance(s_.body[-1], (ast.Raise, ast.Return, ast.Continue, ast.Break)) \
                            and says_nonempty(s_.test, False):
                        return True
        t = par
    return False


def rule_index_guarded(check, rule, keys, what):
    """`xs[0]` / `xs.pop(0)` raises IndexError on an empty sequence.  Every constant-index access in the given functions is on a literal
    display, dominated by a test that the sequence is non-empty, or in the reviewed table (a protocol fixes the length)."""
    repo = check.repo
    n = 0
    for k in keys:
        fi = repo.func(k, required=False)
        if fi is None or not isinstance(fi.node, (ast.FunctionDef, ast.AsyncFunctionDef)):
            continue
        for x in _own_nodes_(fi.node):
            base = None
            if isinstance(x, ast.Call) and isinstance(x.func, ast.Attribute) and x.func.attr == 'pop' and len(x.args) == 1 \
                    and isinstance(x.args[0], ast.Constant) and isinstance(x.args[0].value, int):
                base = x.func.value
            elif isinstance(x, ast.Subscript) and isinstance(x.ctx, ast.Load) and isinstance(x.slice, ast.Constant) and isinstance(x.slice.value, int) \
                    and not isinstance(x.slice.value, bool):
                base = x.value
            if base is None or isinstance(base, (ast.Tuple, ast.List, ast.Constant)):
                continue
            # results of calls that return fixed-arity tuples (`str.rpartition`, a package function returning a tuple display) are not sequences
            # that can be empty; only names and attribute chains are judged
            if not isinstance(base, (ast.Name, ast.Attribute)):
                continue
            if isinstance(base, ast.Name):
                a_ = fi.node.args
                plain_params = set(x_.arg for x_ in a_.posonlyargs + a_.args + a_.kwonlyargs)
                if base.id in plain_params and not any(isinstance(s_, ast.Name) and s_.id == base.id and isinstance(s_.ctx, ast.Store)
                                                       for s_ in ast.walk(fi.node)):
                    continue      # a plain parameter: what it holds (a fixed-arity tuple of the protocol, say) is the caller's business
            n += 1
            check.analysed(fi)
            bt = norm(base)
            key = 'index|%s|%s' % (fi.key, norm_locals(fi.node, base, method=fi.cls is not None))
            st = '%s %s' % (fi.loc(x), fi.key)
            # a list built element by element from another one (`[f(v) for v in A]`, possibly extended afterwards) is at least as long
            derived_from = None
            if isinstance(base, ast.Name):
                for a_ in _own_nodes_(fi.node):
                    if isinstance(a_, ast.Assign) and len(a_.targets) == 1 and isinstance(a_.targets[0], ast.Name) and a_.targets[0].id == base.id \
                            and isinstance(a_.value, ast.ListComp) and len(a_.value.generators) == 1 and not a_.value.generators[0].ifs \
                            and isinstance(a_.value.generators[0].iter, ast.Name) and a_.lineno < x.lineno:
                        derived_from = a_.value.generators[0].iter.id
            if _nonempty_dominates(fi, x, bt):
                check.holds(rule, st, '%s is taken under a test that %s is not empty' % (norm(x)[:40], bt), key=key)
            elif derived_from is not None and _nonempty_dominates(fi, x, derived_from):
                check.holds(rule, st, '%s is taken under a test that %s, which %s has an element for each of, is not empty' % (norm(x)[:40], derived_from, bt),
                            key=key)
            elif (fi.key, norm_locals(fi.node, base, method=fi.cls is not None)) in REVIEWED_INDEX:
                check.holds(rule, st, '%s: reviewed (%s)' % (norm(x)[:40], REVIEWED_INDEX[(fi.key, norm_locals(fi.node, base, method=fi.cls is not None))]),
                            key=key)
            else:
                check.violation(rule, st, '%s is taken although nothing on the way establishes that %s is not empty: IndexError %s'
                                % (norm(x)[:40], bt, what), key=key, witness='the input for which %s is empty' % bt)
    check.floor(rule, 'constant-index accesses', n, 3)


def _own_nodes_(fnode):
    stack = list(ast.iter_child_nodes(fnode))
    while stack:
        n = stack.pop()
        yield n
        if isinstance(n, (ast.FunctionDef, ast.AsyncFunctionDef, ast.Lambda, ast.ClassDef)):
            continue
        stack.extend(ast.iter_child_nodes(n))


def _is_sentinel(node):
    """`<x>.empty` (inspect's marker for "no default / no annotation") or the package's own `_util.UNSET`"""
    return isinstance(node, ast.Attribute) and node.attr in ('empty', 'UNSET')


def rule_sentinel_identity(check, rule, modules, what, floor=1):
    """"has a default" / "has an annotation" is a question about the marker object, not about what the default compares equal to.
    Every comparison against `<x>.empty` (or `_util.UNSET`) in the given modules is by identity: `==`/`!=` hands the decision to the
    __eq__ of a user-supplied default or annotation (mock.ANY answers True for everything, a numpy array answers with an array whose
    truth value raises), which then is taken for a missing one or the other way round."""
    repo = check.repo
    n = 0
    for mname in modules:
        m = repo.modules.get(mname)
        if m is None:
            continue
        for fi in m.funcs.values():
            for x in _own_nodes_(fi.node):
                if not isinstance(x, ast.Compare):
                    continue
                ops = [x.left] + list(x.comparators)
                for i, op in enumerate(x.ops):
                    a, b = ops[i], ops[i + 1]
                    if not (_is_sentinel(a) or _is_sentinel(b)):
                        continue
                    n += 1
                    check.analysed(fi)
                    other = b if _is_sentinel(a) else a
                    key = 'sentinel|%s|%s' % (fi.key, norm_locals(fi.node, other, method=fi.cls is not None))
                    st = '%s %s' % (fi.loc(x), fi.key)
                    if isinstance(op, (ast.Is, ast.IsNot)):
                        check.holds(rule, st, '%s: the marker is compared by identity' % norm(x)[:60], key=key)
                    elif isinstance(op, (ast.Eq, ast.NotEq)):
                        check.violation(rule, st, '%s decides "is there a value" with the __eq__ of the value: a default or annotation that compares equal to '
                                        'everything is taken for a missing one (and one whose comparison does not give a bool raises) %s' % (norm(x)[:60], what),
                                        key=key, witness='def f(a, b=unittest.mock.ANY): ... / a numpy array as default')
                    else:
                        check.holds(rule, st, '%s: not an equality test' % norm(x)[:60], key=key, nontrivial=False)
    check.floor(rule, 'comparisons against the empty marker', n, floor)
