"""Rules over the canonical decision table of `_Merger` (C01, C08, C09, C10).

The oracle is DESIGN.md appendix B (tables B1-B7): for every context and every
valuation of the guards it gives the *exact* effect and the set of *sound*
effects, each justified from CPython's argument binding.  A path that does not
test a guard covers both of its values and must therefore be right for both.
A path with a guard the canonicaliser does not understand can only be HOLDS or
INCONCLUSIVE, never a VIOLATION.
"""
import ast
import itertools

from .index import Inconclusive, norm
from .interp import show, show_lit
from .merge_model import MergeModel

OTHER = {'L': 'R', 'R': 'L'}


def func_of(node):
    n = node
    while n is not None:
        fi = getattr(n, '_funcinfo', None)
        if fi is not None:
            return fi
        n = getattr(n, '_parent', None)
    return None


def site(model, node):
    fi = func_of(node)
    if fi is None:
        return '%s:%d' % ('sigtools/_signatures.py', getattr(node, 'lineno', 0))
    return '%s %s' % (fi.loc(node), fi.key)


def fkey(node):
    fi = func_of(node)
    return fi.key if fi else '?'


def lits_text(lits):
    return ' & '.join(show_lit(l) for l in lits) or 'true'


class PathRec(object):
    """canonical record of one per-parameter path"""

    def __init__(self, model, sp, cur, outer_lits=(), toplevel=False):
        self.model = model
        self.sp = sp
        self.cur = cur
        self.guards = {}
        self.unknown_lits = []
        # two different source-level tests can canonicalise to the same fact (`x` and `x is not None` on a star slot that
        # is None-or-Parameter); a path on which they disagree cannot be taken
        self.infeasible = False
        for atom, pol in list(outer_lits) + list(sp.lits):
            c = model.canon_lit(atom, pol, cur)
            if c is None:
                self.unknown_lits.append((atom, pol))
            else:
                if c[0] in self.guards and self.guards[c[0]] != c[1]:
                    self.infeasible = True
                self.guards[c[0]] = c[1]
        self.ces = model.canon_effects(sp.effects, toplevel=toplevel)
        self.raises = [c for c in self.ces if c[0] == 'raise']
        self.puts = [c for c in self.ces if c[0] == 'put']
        self.srcs = [c for c in self.ces if c[0] == 'src']
        self.clears = [c for c in self.ces if c[0] == 'clear']
        self.excludes = [c for c in self.ces if c[0] == 'exclude']
        self.limbo_pops = [c for c in self.ces if c[0] == 'limbo_pop']
        self.others = [c for c in self.ces if c[0] in ('other', 'input_mut', 'remove', 'star_list_mut', 'src_del', 'src_all')]

    def g(self, name):
        return self.guards.get(name)

    def text(self):
        return lits_text(self.sp.lits)

    def node(self):
        for c in self.ces:
            e = c[-1] if hasattr(c[-1], 'node') else None
            for x in c:
                if hasattr(x, 'node') and x.node is not None:
                    return x.node
        return None


def cur_puts(rec, elems):
    """puts whose value is (derived from) one of the current elements"""
    out = []
    for c in rec.puts:
        v = c[2]
        if v is None or v.unknown:
            out.append(c)
            continue
        if v.base in elems or (v.base is not None and v.base[0] == 'N'):
            out.append(c)
    return out


def prev_puts(rec):
    """bulk puts of previously merged parameters (value drawn from an output bucket)"""
    out = []
    for c in rec.puts:
        v = c[2]
        if v is not None and not v.unknown and v.side == 'OUT':
            out.append(c)
    return out


def completions(rec, names):
    """all valuations of the named guards consistent with the path"""
    opts = []
    for n in names:
        v = rec.g(n)
        opts.append([v] if v is not None else [True, False])
    for combo in itertools.product(*opts):
        yield dict(zip(names, combo))


def fmt_val(d):
    return ', '.join('%s=%s' % (_gname(k), v) for k, v in d.items())


def _gname(k):
    return '.'.join(str(x) for x in k if not isinstance(x, (tuple, frozenset)))


# ---------------------------------------------------------------------------
# C01.R1 / C09.R4 / C10.R3 : bucket/kind closure

def rule_kind_closure(check, model, rule):
    n = 0
    proto = model.proto
    for kind, info, loop, outer in model.loops():
        for sp in loop.sub:
            rec = PathRec(model, sp, info.get('cur', {}))
            if rec.infeasible:
                continue
            n += _closure_of(check, model, rule, rec)
    for p, _ in model.ret_paths:
        rec = PathRec(model, p, {}, toplevel=True)
        if rec.infeasible:
            continue
        n += _closure_of(check, model, rule, rec, toplevel=True)
    check.floor(rule, 'puts into output buckets', n, 10)


def _closure_of(check, model, rule, rec, toplevel=False):
    n = 0
    seen = set()
    for c in rec.puts:
        idx, v, e = c[1], c[2], c[3]
        if toplevel and c[4]:
            continue    # nested in a loop region: handled with that region
        want = model.proto.kind_at(idx)
        key = '%s|put:%s' % (fkey(e.node), norm(e.node))
        if key in seen:
            continue
        seen.add(key)
        n += 1
        if v is None or v.unknown or v.kind is None:
            check.inconclusive(rule, site(model, e.node), 'cannot determine the kind of the value stored into bucket %d: %s'
                               % (idx, v.descr() if v else 'no value'), key=key)
        elif v.kind in ('EMPTY',):
            check.holds(rule, site(model, e.node), 'bucket %d emptied' % idx, key=key, guards=rec.text())
        elif v.kind != want:
            check.violation(
                rule, site(model, e.node),
                'a value of kind %s is stored into the %s bucket (position %d of the bucket protocol); '
                'merge() feeds these buckets unclassified into the next fold step, which treats it as %s'
                % (v.kind, want, idx, want),
                key=key, guards=rec.text(), effect=repr(e),
                witness="merge(s('b=1, c=1'), s('a, c, *args'), s('**kwargs')) != merge(merge(first two), third)")
        else:
            check.holds(rule, site(model, e.node), 'value of kind %s stored into the %s bucket' % (v.kind, want),
                        key=key, guards=rec.text(), effect=v.descr())
    return n


# ---------------------------------------------------------------------------
# decision tables

class Verdicts(object):
    def __init__(self):
        self.sound_viol = []    # (message)
        self.exact_viol = []
        self.src_viol = []


def _is_conc_with(v, term_pred):
    return any(term_pred(c) for c in v.conc)


def eval_zip_path(model, zkind, rec, cur):
    """evaluate one path of a zip loop against tables B2-B4.
    returns list of (category, message) with category in sound/exact/src"""
    out = []
    l, r = cur['L'], cur['R']
    hl, hr = rec.g(('has', 'L')), rec.g(('has', 'R'))
    scen = []
    for a, b in ((True, True), (True, False), (False, True)):
        if (hl is None or hl == a) and (hr is None or hr == b):
            scen.append((a, b))
    # zip_longest never yields two missing elements
    for a, b in scen:
        if a and b:
            out.extend(_eval_both(model, zkind, rec, l, r))
        else:
            own = 'L' if a else 'R'
            out.extend(_eval_own(model, zkind, rec, own, cur[own], cur[OTHER[own]]))
    return out


def _raise_ok(rec, out):
    """a raise must be a ValueError (C15 discipline is checked elsewhere; here
    only that a raising path puts nothing)"""
    return bool(rec.raises)


def _eval_both(model, zkind, rec, l, r):
    out = []
    proto = model.proto
    eqk = ('eqname', frozenset([l, r]))
    puts = cur_puts(rec, (l, r))
    prev = prev_puts(rec)
    for val in completions(rec, [eqk]):
        n = val[eqk]
        where = 'both present, names %s' % ('equal' if n else 'differ')
        if rec.raises:
            out.append(('exact', '%s: raises although a conciled parameter is always possible' % where))
            continue
        if not puts:
            dl, dr = rec.g(('has_default', l)), rec.g(('has_default', r))
            if not (dl and dr):
                out.append(('sound', '%s: both parameters are dropped without both being known to have defaults' % where))
            out.append(('exact', '%s: parameters dropped instead of conciled' % where))
            continue
        if len(puts) > 1:
            out.append(('exact', '%s: the pair is stored %d times' % (where, len(puts))))
        for c in puts:
            idx, v = c[1], c[2]
            if v is None or v.unknown:
                out.append(('unknown', 'value stored not understood: %s' % (v.descr() if v else None)))
                continue
            other = r if v.base == l else l
            if v.base not in (l, r):
                out.append(('unknown', 'stored value is neither zipped parameter: %s' % v.descr()))
                continue
            if other not in v.conc:
                out.append(('sound', '%s: parameter stored without conciliation with its counterpart '
                                     '(its default would survive although the counterpart may be required)' % where))
                out.append(('conc', '%s: parameter stored without conciliation with its counterpart '
                                    '(default/annotation rules are bypassed)' % where))
            if v.default == 'set':
                out.append(('unknown', 'default overridden'))
            if zkind == 'PO':
                if v.kind != 'PO':
                    out.append(('sound', '%s: positional-only pair stored with kind %s' % (where, v.kind)))
            else:
                if n:
                    if v.kind not in ('POK', 'PO', 'KWO'):
                        out.append(('sound', '%s: stored with kind %s' % (where, v.kind)))
                    if v.kind != 'POK':
                        out.append(('exact', '%s: stored as %s instead of positional-or-keyword' % (where, v.kind)))
                else:
                    if v.kind != 'PO':
                        out.append(('sound', '%s: parameters passed at the same position under different names must '
                                             'become positional-only, stored as %s' % (where, v.kind)))
                    conv = [p for p in prev if p[2].origin == ('OUT', proto.index_of_kind('POK')) and p[2].kind == 'PO']
                    if conv and not [c_ for c_ in rec.clears if c_[1] == proto.index_of_kind('POK')] and \
                            any(p[1] != proto.index_of_kind('POK') for p in conv):
                        out.append(('exact', '%s: the earlier positional-or-keyword parameters are copied to the positional-only bucket but '
                                             'also stay in the positional-or-keyword bucket (every name twice: invalid signature)' % where))
                    if conv and puts:
                        i_conv = min(rec.puts.index(p_) for p_ in conv)
                        i_cur = min(rec.puts.index(p_) for p_ in puts)
                        if i_cur < i_conv and any(p_[1] == proto.index_of_kind('PO') for p_ in conv):
                            out.append(('exact', '%s: the parameter is appended to the positional-only bucket before the earlier parameters are '
                                                 'converted into it: it ends up in front of parameters that precede it' % where))
                            out.append(('order', '%s: the parameter is appended to the positional-only bucket before the earlier parameters are '
                                                 'converted into it: it ends up in front of parameters that precede it' % where))
                    if not conv:
                        out.append(('exact', '%s: earlier positional-or-keyword parameters are not converted to '
                                             'positional-only (invalid parameter order)' % where))
            if v.base != l:
                out.append(('leftwins', '%s: name/kind taken from the right operand' % where))
            # provenance
            need = set(['L', 'R']) if n else set([v.side])
            got = set()
            for s in rec.srcs:
                if _src_names(model, s, v):
                    got |= s[2]
            if not [s for s in rec.srcs if _src_names(model, s, v)]:
                out.append(('src', '%s: parameter stored without registering its provenance' % where))
            elif not need <= got:
                out.append(('src', '%s: provenance registered from %s, needs %s' % (where, sorted(got), sorted(need))))
    return out


def _src_names(model, s, v):
    """does provenance record s name the parameter of value v?"""
    key = s[1]
    if key[0] == 'A' and key[2] == 'name':
        kv = model.val(key[1])
        if kv.unknown:
            return False
        return kv.base == v.base
    return False


def _eval_own(model, zkind, rec, own, existing, missing):
    out = []
    oth = OTHER[own]
    proto = model.proto
    puts = cur_puts(rec, (existing,))
    prev = prev_puts(rec)
    d_k = ('has_default', existing)
    if zkind == 'PO':
        e_k = ('exhausted', oth, 'POK')
        v_k = ('star', oth, 'VP')
        names = [e_k, v_k, d_k]
    else:
        m_k = ('in_limbo', oth, existing)
        v_k = ('star', oth, 'VP')
        w_k = ('star', oth, 'VK')
        names = [m_k, v_k, w_k, d_k]
    # a guard about the *own* side's stars where the other side's is needed is
    # the classic wiring slip: it shows up as an untested other-side guard
    for val in completions(rec, names):
        d = val[d_k]
        where = 'only %s has this parameter; %s' % (own, fmt_val(val))
        if zkind == 'PO':
            e, v = val[e_k], val[v_k]
            if not e:
                exact = ('put', 'PO', 'conc')
            elif v:
                exact = ('put', 'PO', 'plain')
            elif d:
                exact = ('drop',)
            else:
                exact = ('raise',)
        else:
            m, v, w = val[m_k], val[v_k], val[w_k]
            if m:
                exact = ('put', 'KWO', 'limbo')
            elif v and w:
                exact = ('put', 'POK', 'plain')
            elif w:
                exact = ('put', 'KWO', 'plain')
            elif v:
                exact = ('put', 'PO', 'plain')
            elif d:
                exact = ('drop',)
            else:
                exact = ('raise',)
        # the other side's same-named keyword-only parameter stored as it is (no conciliation with `existing`)
        if zkind == 'POK' and not puts:
            alien = [c for c in rec.puts if c[2] is not None and not c[2].unknown and c[2].base is not None and c[2].base[0] == 'M'
                     and c[2].base[2] == 'pop' and c[2].side == oth]
            if alien and val.get(m_k) is not False:
                out.append(('sound', '%s: the %s input\'s keyword-only parameter is stored as it is, without conciliation with this parameter '
                                     '(its default survives although this input may require the parameter)' % (where, oth)))
                out.append(('conc', '%s: the %s input\'s keyword-only parameter is stored without conciliation '
                                    '(default/annotation rules are bypassed)' % (where, oth)))
                out.append(('exact', '%s: stored without conciliation' % where))
                continue
        if rec.raises:
            if puts:
                out.append(('unknown', 'path both stores and raises'))
            if exact != ('raise',):
                out.append(('exact', '%s: raises although %s is possible' % (where, _exact_text(exact))))
            continue
        if not puts:
            if zkind == 'PO' and not val[e_k]:
                out.append(('sound', '%s: parameter dropped after the other side\'s next positional-or-keyword '
                                     'parameter was consumed for it (that parameter vanishes from the result)' % where))
            elif not d:
                out.append(('sound', '%s: a parameter without default is dropped, so the result accepts calls '
                                     'the %s input rejects' % (where, own)))
            if exact != ('drop',):
                out.append(('exact', '%s: parameter dropped although %s is possible' % (where, _exact_text(exact))))
            if [s for s in rec.srcs]:
                for s in rec.srcs:
                    key = s[1]
                    if key[0] == 'A' and key[2] == 'name' and model.val(key[1]).base == existing:
                        out.append(('src', '%s: provenance registered for a parameter that is dropped' % where))
            continue
        if len(puts) > 1:
            out.append(('exact', '%s: parameter stored %d times' % (where, len(puts))))
        for c in puts:
            idx, pv = c[1], c[2]
            if pv is None or pv.unknown:
                out.append(('unknown', 'value stored not understood: %s' % (pv.descr() if pv else None)))
                continue
            if pv.base != existing:
                out.append(('unknown', 'stored value is not the unmatched parameter: %s' % pv.descr()))
                continue
            K = pv.kind
            if zkind == 'PO':
                if K != 'PO':
                    out.append(('sound', '%s: positional-only parameter stored with kind %s' % (where, K)))
                if not e:
                    if not any(c2[0] == 'N' for c2 in pv.conc):
                        out.append(('sound', '%s: the consumed parameter of the other side is not conciled '
                                             '(the result may be optional where that side requires it)' % where))
                        out.append(('conc', '%s: the consumed parameter of the other side is not conciled '
                                            '(default/annotation rules are bypassed)' % where))
                        out.append(('exact', '%s: the other side still has a positional-or-keyword parameter at this position; the exact outcome is '
                                             'this parameter conciled with it (it stays unconsumed and meets the next parameter instead)' % where))
                else:
                    if not v:
                        out.append(('sound', '%s: stored although the %s input accepts no positional argument here' % (where, oth)))
                    if pv.conc:
                        out.append(('unknown', 'conciled with %s' % show(pv.conc[0])))
            else:
                if m:
                    ok = K == 'KWO' or (K in ('POK', 'PO') and v)
                    if not ok:
                        out.append(('sound', '%s: stored with kind %s but the %s input only takes it by keyword' % (where, K, oth)))
                    if not any(c2[0] == 'M' and c2[2] in ('pop', 'get') for c2 in pv.conc) and not any(c2[0] == 'S' for c2 in pv.conc):
                        out.append(('sound', '%s: not conciled with the %s input\'s keyword-only parameter of the same name' % (where, oth)))
                        out.append(('conc', '%s: not conciled with the %s input\'s keyword-only parameter of the same name '
                                            '(default/annotation rules are bypassed)' % (where, oth)))
                    if not [p for p in rec.limbo_pops if p[1] == oth]:
                        out.append(('sound', '%s: the matched keyword-only parameter stays in the unmatched set '
                                             '(it would be stored a second time or raise)' % where))
                else:
                    ok = (K == 'POK' and v and w) or (K == 'KWO' and w) or (K == 'PO' and v)
                    if not ok:
                        out.append(('sound', '%s: stored with kind %s, which lets the result accept a %s the %s input rejects'
                                    % (where, K, 'positional argument' if K in ('POK', 'PO') and not v else 'keyword argument', oth)))
                    if pv.conc:
                        out.append(('unknown', 'conciled with %s' % show(pv.conc[0])))
            if pv.default != 'kept':
                out.append(('exact', '%s: default %s' % (where, pv.default)))
            # exactness
            want = exact
            if want[0] != 'put':
                out.append(('exact', '%s: stored although the exact outcome is %s' % (where, _exact_text(want))))
            elif K != want[1]:
                out.append(('exact', '%s: stored as %s, exact outcome is %s' % (where, K, _exact_text(want))))
            else:
                if want[1] == 'PO' and zkind == 'POK':
                    conv = [p for p in prev if p[2].origin == ('OUT', proto.index_of_kind('POK')) and p[2].kind == 'PO']
                    if conv and not [c_ for c_ in rec.clears if c_[1] == proto.index_of_kind('POK')] and \
                            any(p[1] != proto.index_of_kind('POK') for p in conv):
                        out.append(('exact', '%s: the earlier positional-or-keyword parameters are copied to the positional-only bucket but '
                                             'also stay in the positional-or-keyword bucket (every name twice: invalid signature)' % where))
                    if conv and puts:
                        i_conv = min(rec.puts.index(p_) for p_ in conv)
                        i_cur = min(rec.puts.index(p_) for p_ in puts)
                        if i_cur < i_conv and any(p_[1] == proto.index_of_kind('PO') for p_ in conv):
                            out.append(('exact', '%s: the parameter is appended to the positional-only bucket before the earlier parameters are '
                                                 'converted into it: it ends up in front of parameters that precede it' % where))
                            out.append(('order', '%s: the parameter is appended to the positional-only bucket before the earlier parameters are '
                                                 'converted into it: it ends up in front of parameters that precede it' % where))
                    if not conv:
                        out.append(('exact', '%s: earlier positional-or-keyword parameters are not converted to '
                                             'positional-only (invalid parameter order)' % where))
                if want == ('put', 'PO', 'plain') and zkind == 'PO':
                    if not [x for x in rec.excludes if x[1] == 'VP' and x[2] is not None and x[2][0] == oth]:
                        out.append(('starname', '%s: the absorbing *args of %s still names the result\'s *args' % (where, oth)))
            # provenance
            recs = [s for s in rec.srcs if _src_names(model, s, pv)]
            got = set()
            for s in recs:
                got |= s[2]
            need = set([own])
            if zkind == 'POK' and m:
                need = set([own, oth])
            if not recs:
                out.append(('src', '%s: parameter stored without registering its provenance' % where))
            elif not need <= got:
                out.append(('src', '%s: provenance registered from %s, needs %s' % (where, sorted(got), sorted(need))))
            if zkind == 'PO' and not e and oth not in got:
                out.append(('src_conc', '%s: conciled with the %s input\'s parameter but %s\'s provenance for that '
                                        'name is never consulted' % (where, oth, oth)))
    return out


def _exact_text(x):
    if x[0] == 'put':
        return 'keeping it as %s%s' % (x[1], ' (conciled)' if x[2] != 'plain' else '')
    if x[0] == 'drop':
        return 'dropping it'
    return 'raising'


def table_paths(model):
    for kind, info, loop, outer in model.loops():
        if kind != 'zip':
            continue
        for sp in loop.sub:
            rec = PathRec(model, sp, info['cur'])
            if not rec.infeasible:
                yield info, loop, rec


def rule_tables(check, model, rule, categories, title, witness=None):
    """categories: which verdict categories are violations for this rule"""
    n = 0
    loops = model.loops()
    kinds = set(info.get('kind') for k, info, l, o in loops if k == 'zip')
    if not set(['PO', 'POK']) <= kinds:
        raise Inconclusive('the positional-only / positional-or-keyword zip loops of _merge were not recognised')
    for info, loop, rec in table_paths(model):
        n += 1
        res = eval_zip_path(model, info['kind'], rec, info['cur'])
        node = rec.node() or loop.node
        key = '%s|%s|%s' % (fkey(node), info['kind'], _canon_guard_key(rec))
        mine = [m for c, m in res if c in categories]
        unknown = [m for c, m in res if c == 'unknown']
        if mine and not rec.unknown_lits and not unknown:
            for m in sorted(set(mine))[:3]:
                check.violation(rule, site(model, node), '%s zip: %s' % (info['kind'], m), key=key,
                                guards=rec.text(), effect=_effects_text(rec), witness=witness)
        elif mine or ((rec.unknown_lits or unknown) and not _trivially_ok(res)):
            why = '; '.join(unknown) or 'guard not understood: ' + lits_text(rec.unknown_lits)
            check.inconclusive(rule, site(model, node), '%s zip path not decidable (%s)' % (info['kind'], why), key=key)
        else:
            check.holds(rule, site(model, node), '%s zip: %s' % (info['kind'], title), key=key,
                        guards=rec.text(), effect=_effects_text(rec))
    check.floor(rule, 'per-parameter decision paths', n, 20)


def _trivially_ok(res):
    return not res


def _canon_guard_key(rec):
    parts = []
    for k, v in sorted(rec.guards.items(), key=lambda kv: _gname(kv[0])):
        parts.append(('' if v else '!') + _gname(k))
    return ','.join(parts)


def _effects_text(rec):
    parts = []
    for c in rec.ces:
        if c[0] == 'put':
            parts.append('put[%d] %s' % (c[1], c[2].descr() if c[2] else None))
        elif c[0] == 'src':
            parts.append('src[%s] from %s' % (show(c[1]), sorted(c[2])))
        elif c[0] == 'raise':
            parts.append('raise %s' % c[1])
        elif c[0] == 'exclude':
            parts.append('exclude %s of %s' % (c[1], c[2][0] if c[2] else '?'))
        elif c[0] == 'clear':
            parts.append('clear[%d]' % c[1])
        elif c[0] == 'limbo_pop':
            parts.append('pop unmatched-KWO of %s' % c[1])
    return '; '.join(parts) or 'nothing (dropped)'


# ---------------------------------------------------------------------------
# keyword-only handling (B1, B5) and stars (B6): top-level paths of _merge

def rule_kwo_and_stars(check, model, rule, categories):
    proto = model.proto
    kwo = proto.index_of_kind('KWO')
    n = 0
    # B1: matching loops
    found_single = set()
    matched_seen = matched_put = False
    for kind, info, loop, outer in model.loops():
        if kind != 'single' or info.get('kind') != 'KWO':
            continue
        side = info['side']
        found_single.add(side)
        el = info['cur'][side]
        for sp in loop.sub:
            rec = PathRec(model, sp, info['cur'])
            if rec.infeasible:
                continue
            n += 1
            node = rec.node() or loop.node
            k = rec.g(('in_kwo', OTHER[side], el))
            key = '%s|KWO-%s|%s' % (fkey(node), side, _canon_guard_key(rec))
            msgs = []
            if rec.unknown_lits:
                check.inconclusive(rule, site(model, node), 'keyword-only matching: guard not understood: ' + lits_text(rec.unknown_lits), key=key)
                continue
            for kk in ([k] if k is not None else [True, False]):
                puts = [c for c in rec.puts if c[1] == kwo]
                limbo_adds = [c for c in rec.ces if c[0] == 'limbo_add' and c[1] == side]
                if kk:
                    matched_seen = True
                    if puts:
                        matched_put = True
                    # matched by name: conciled into the output, or left to the other side's loop
                    for c in puts:
                        v = c[2]
                        if v is None or v.unknown:
                            msgs.append(('unknown', 'value not understood'))
                            continue
                        if v.kind != 'KWO':
                            msgs.append(('sound', 'matched keyword-only parameter stored with kind %s' % v.kind))
                        if not v.conc:
                            msgs.append(('sound', 'matched keyword-only parameter stored without conciliation'))
                        elif v.side == 'R':
                            msgs.append(('exact', 'matched keyword-only parameter: the right operand\'s parameter is the base of the '
                                                  'conciliation (the left operand must win)'))
                        recs = [s for s in rec.srcs if s[1] == ('A', el, 'name') or s[1] == c[5] if len(c) > 5]
                        got = set()
                        for s in rec.srcs:
                            got |= s[2]
                        if not rec.srcs:
                            msgs.append(('src', 'matched keyword-only parameter stored without provenance'))
                        elif not set(['L', 'R']) <= got:
                            msgs.append(('src', 'matched keyword-only parameter: provenance from %s only' % sorted(got)))
                    if limbo_adds:
                        msgs.append(('exact', 'a keyword-only parameter present on both sides is also put in the unmatched set'))
                else:
                    if puts:
                        msgs.append(('sound', 'a keyword-only parameter the other side lacks is stored without checking for **kwargs'))
                    if not limbo_adds:
                        msgs.append(('sound', 'a keyword-only parameter the other side lacks is neither stored nor remembered as unmatched'))
            mine = [m for c, m in msgs if c in categories]
            if [m for c, m in msgs if c == 'unknown']:
                check.inconclusive(rule, site(model, node), 'keyword-only matching path not decidable', key=key)
            elif mine:
                for m in sorted(set(mine)):
                    check.violation(rule, site(model, node), 'keyword-only matching (%s side): %s' % (side, m), key=key,
                                    guards=rec.text(), effect=_effects_text(rec))
            else:
                check.holds(rule, site(model, node), 'keyword-only matching (%s side) conforms to table B1' % side, key=key,
                            guards=rec.text(), effect=_effects_text(rec))
    # a keyword-only parameter both sides have must be stored (conciled) by one of the two matching loops
    if 'sound' in categories or 'exact' in categories:
        key = 'KWO-matched-stored'
        if matched_seen and not matched_put:
            check.violation(rule, site(model, model.f_iter.node), 'keyword-only matching: a parameter that both inputs declare keyword-only is stored '
                            'by neither matching loop: it vanishes from the result, which then accepts calls without it although both inputs '
                            'may require it', key=key, witness="merge(s('*, k'), s('*, k')) must be (*, k)")
        elif matched_seen:
            check.holds(rule, site(model, model.f_iter.node), 'a keyword-only parameter of both inputs is stored by a matching loop', key=key)
    if found_single != set(['L', 'R']):
        # the right-hand loop may legitimately be folded into the left one; fail closed
        if 'L' not in found_single:
            raise Inconclusive('keyword-only matching loop over the left operand not recognised')
    # B5 + B6 on top-level paths
    seen = set()
    for p, items in list(model.ret_paths) + [(p, None) for p in model.raise_paths]:
        rec = PathRec(model, p, {}, toplevel=True)
        if rec.infeasible:
            continue
        if rec.unknown_lits:
            key = 'toplevel|' + lits_text(rec.unknown_lits)
            if key not in seen:
                seen.add(key)
                check.inconclusive(rule, site(model, model.f_iter.node), 'top-level guard of _merge not understood: '
                                   + lits_text(rec.unknown_lits), key=key)
            continue
        n += 1
        msgs = []
        top_ces = [c for c in rec.ces if not (c[0] in ('put', 'src') and c[4])]
        for side in ('L', 'R'):
            oth = OTHER[side]
            ne = rec.g(('limbo_nonempty', side))
            w = rec.g(('star', oth, 'VK'))
            some_req = rec.g(('some_required', side))
            bulk = [c for c in rec.puts if not c[4] and c[1] == kwo and c[2] is not None and c[2].side == side and c[2].each]
            if rec.raises:
                culprit = [s_ for s_ in ('L', 'R') if rec.g(('some_required', s_)) is True]
                if culprit and side not in culprit:
                    continue     # the raise belongs to the other side's handling
                if not culprit and ne is None and w is None:
                    continue     # this side's handling was not reached
            if ne is False:
                if bulk:
                    msgs.append(('unknown', 'unmatched keyword-only parameters stored on the empty branch'))
                continue
            if ne is None:
                # not tested: acceptable only if the handling is itself
                # conditional on the other side's **kwargs
                pass
            for ww in ([w] if w is not None else [True, False]):
                if ww:
                    if rec.raises:
                        msgs.append(('exact', 'raises for unmatched keyword-only parameters of %s although %s has **kwargs' % (side, oth)))
                    elif not bulk:
                        msgs.append(('exact', 'unmatched keyword-only parameters of %s are dropped although %s has **kwargs' % (side, oth)))
                        msgs.append(('sound_if_required', 'unmatched keyword-only parameters of %s dropped without a has-default test' % side))
                    else:
                        srcall = [c for c in rec.ces if c[0] == 'src_all' and side in c[2]]
                        if not srcall:
                            msgs.append(('src', 'unmatched keyword-only parameters of %s stored without provenance from %s' % (side, side)))
                        if not [x for x in rec.excludes if x[1] == 'VK' and x[2] is not None and x[2][0] == oth]:
                            msgs.append(('starname', 'the absorbing **kwargs of %s still names the result\'s **kwargs' % oth))
                else:
                    if bulk:
                        msgs.append(('sound', 'unmatched keyword-only parameters of %s are kept although %s has no **kwargs to absorb them' % (side, oth)))
                    elif some_req is True and not rec.raises:
                        msgs.append(('sound', 'required unmatched keyword-only parameters of %s are dropped' % side))
                    elif some_req is None and not rec.raises and ne is not False:
                        msgs.append(('sound', 'unmatched keyword-only parameters of %s are dropped without testing whether one is required' % side))
                    elif some_req is False and rec.raises and not _other_reason_to_raise(rec, side):
                        msgs.append(('exact', 'raises although every unmatched keyword-only parameter of %s has a default' % side))
        # B6 stars
        for kind, idx in (('VP', proto.index_of_kind('VP')), ('VK', proto.index_of_kind('VK'))):
            if rec.raises or items is None:
                continue
            val = items[idx]
            l = rec.g(('star', 'L', kind))
            r = rec.g(('star', 'R', kind))
            v = model.val(val)
            is_none = (val == ('K', None))
            for ll in ([l] if l is not None else [True, False]):
                for rr in ([r] if r is not None else [True, False]):
                    if not (ll and rr):
                        if not is_none:
                            msgs.append(('sound', 'result keeps a %s parameter although the %s input has none'
                                         % ('*args' if kind == 'VP' else '**kwargs', 'left' if not ll else 'right')))
                    else:
                        if is_none:
                            msgs.append(('exact', 'result loses the %s parameter both inputs have' % ('*args' if kind == 'VP' else '**kwargs')))
                        elif v.unknown or v.kind != kind:
                            msgs.append(('unknown' if v.unknown else 'sound', 'result %s parameter has kind %s (%s)'
                                         % (kind, v.kind, v.descr())))
                        else:
                            a_all = rec.g(('all', kind))
                            w0 = rec.g(('which', kind, 0))
                            # a guard on the *other* family's bookkeeping list decides nothing about this star
                            okind = 'VK' if kind == 'VP' else 'VP'
                            if a_all is None and w0 is None and (rec.g(('all', okind)) is not None or rec.g(('which', okind, 0)) is not None) \
                                    and _star_guard_family(model, rec, val) == okind:
                                msgs.append(('exact', 'the surviving %s parameter is chosen by the bookkeeping list of the other star family'
                                             % ('*args' if kind == 'VP' else '**kwargs')))
                                msgs.append(('src', 'the surviving %s parameter is chosen by the bookkeeping list of the other star family'
                                             % ('*args' if kind == 'VP' else '**kwargs')))
                            if a_all is True:
                                if not v.conc or v.side != 'L':
                                    msgs.append(('exact', 'both inputs still offer their %s: the result must be the left one conciled with the '
                                                          'right one, found %s' % (kind, v.descr())))
                                if not v.conc:
                                    msgs.append(('conc', 'both inputs still offer their %s, and the result\'s is %s: a star parameter standing for '
                                                         'both is not conciled (its annotation is one side\'s although they may disagree)'
                                                 % (kind, v.descr())))
                            elif a_all is False and w0 is not None:
                                want = 'L' if w0 else 'R'
                                if v.side != want or v.conc:
                                    msgs.append(('exact', 'only the %s input\'s %s is left to name the result\'s, found %s'
                                                 % ('left' if w0 else 'right', kind, v.descr())))
                                    msgs.append(('src', 'only the %s input\'s %s is left to name the result\'s, found %s'
                                                 % ('left' if w0 else 'right', kind, v.descr())))
                            recs = [s for s in rec.srcs if not s[5] and _src_names(model, s, v)]
                            got = set()
                            for s in recs:
                                got |= s[2]
                            if not recs:
                                msgs.append(('src', 'result %s parameter without provenance' % kind))
                            elif v.side not in got:
                                msgs.append(('src', 'result %s parameter named after the %s input but sourced from %s' % (kind, v.side, sorted(got))))
        key = 'toplevel|%s' % _canon_guard_key(rec)
        mine = sorted(set(m for c, m in msgs if c in categories))
        unk = [m for c, m in msgs if c == 'unknown']
        node = model.f_iter.node
        for c in rec.ces:
            if c[0] in ('raise',):
                node = c[2].node
        if unk:
            check.inconclusive(rule, site(model, node), 'top-level path of _merge not decidable: ' + '; '.join(unk), key=key)
        elif mine:
            for m in mine[:3]:
                check.violation(rule, site(model, node), 'after the zips: %s' % m, key=key + '|' + m[:60], guards=rec.text(),
                                effect=_effects_text(PathRecTop(rec)))
        else:
            check.holds(rule, site(model, node), 'unmatched keyword-only handling and star retention conform to tables B5/B6',
                        key=key, guards=rec.text(), effect=_effects_text(PathRecTop(rec)))
    check.floor(rule, 'keyword-only and star paths', n, 20)


def _star_guard_family(model, rec, val):
    """family (VP/VK) of the bookkeeping list whose guards decide this path"""
    for (k, pol) in rec.guards.items():
        if k[0] in ('all', 'which'):
            return k[1]
    return None


def _other_reason_to_raise(rec, side):
    oth = OTHER[side]
    return rec.g(('some_required', oth)) is True


class PathRecTop(object):
    def __init__(self, rec):
        self.ces = [c for c in rec.ces if not (c[0] in ('put', 'src') and c[4])]


# ---------------------------------------------------------------------------
# B7: _concile_meta

def concile_table(check, repo, rules):
    """rules: dict category -> rule id (default / annotation / leftwins)"""
    from .interp import Interp, Policy
    fi = repo.func('_signatures:_Merger._concile_meta')
    check.analysed(fi)
    it = Interp(repo, Policy())
    paths = it.run(fi)
    check.absorb(it)
    pos = fi.params()[0]
    if len(pos) < 3:
        raise Inconclusive('_concile_meta no longer takes (self, left, right)')
    L, R = ('P', pos[1]), ('P', pos[2])
    n = 0
    first_rule = rules.get('default') or rules.get('sound') or sorted(rules.values())[0]
    for p in paths:
        if p.status != 'return':
            if p.status == 'raise':
                check.violation(first_rule, site(None, p.effects[-1].node), '_concile_meta raises', key='_concile_meta|raise')
            continue
        n += 1
        lits = dict(p.lits)
        v = p.value
        key = '_signatures:_Merger._concile_meta|%s' % lits_text(p.lits)
        node = [e for e in p.effects if e.kind == 'return'][-1].node
        st = site(None, node)
        if not (v[0] == 'M' and v[2] == 'replace'):
            check.inconclusive(first_rule, st, 'return value is not `<operand>.replace(...)`: %s' % show(v), key=key)
            continue
        base = v[1]
        kws = dict(v[4])
        # left operand wins
        if base == L and 'name' not in kws and 'kind' not in kws:
            check.holds(rules.get('leftwins'), st, 'result keeps name and kind of the left operand', key=key, guards=lits_text(p.lits))
        elif base == R or 'name' in kws or 'kind' in kws:
            check.violation(rules.get('leftwins'), st, 'conciled parameter does not keep name/kind of the left operand (%s)' % show(v)[:120],
                            key=key, guards=lits_text(p.lits), witness="merge(s('a, /'), s('b, /')) must be (a, /)")
        else:
            check.inconclusive(rules.get('leftwins'), st, 'base of replace() not understood', key=key)
        other = R if base == L else L
        # default column
        dl, dr = lits.get(('has_default', L)), lits.get(('has_default', R))
        d = kws.get('default')
        def _between(atom, attr):
            return set([atom[1], atom[2]]) == set([('A', L, attr), ('A', R, attr)])
        def _upgraded_emptiness(atom):
            # `X.upgraded_annotation is EmptyAnnotation`: a test on the evaluation wrapper, not on whether X is annotated -- the
            # wrapper is also empty for annotated parameters of plain inspect.Signature inputs and of callables without code.
            # Such a test is *not* the table's guard: it is set aside and the annotation column is judged without it.
            return atom[0] == 'is' and any(isinstance(x, tuple) and x[0] == 'A' and x[2] == 'upgraded_annotation' for x in atom[1:]) and \
                any(isinstance(x, tuple) and show(x).endswith('EmptyAnnotation') for x in atom[1:])
        unknown = [l for l in p.lits if l[0][0] not in ('has_default', 'has_annotation', 'eq')
                   and not (l[0][0] == 'is' and (_between(l[0], 'default') or _between(l[0], 'annotation')))
                   and not _upgraded_emptiness(l[0])]
        if d is None:
            # default not overridden: keeps base's default
            dclass = 'base'
        elif d[0] == 'A' and d[2] in ('empty', '_empty'):
            dclass = 'empty'
        elif d == ('K', None):
            dclass = 'none'
        elif d == ('A', L, 'default'):
            dclass = 'left'
        elif d == ('A', R, 'default'):
            dclass = 'right'
        else:
            dclass = 'other'
        eqdef = None
        for atom, pol in p.lits:
            if atom[0] == 'eq' and set([atom[1], atom[2]]) == set([('A', L, 'default'), ('A', R, 'default')]):
                eqdef = pol
        msgs = []
        # identity instead of equality between the two user-supplied values: identical implies equal, but the
        # not-identical branch still contains equal values (two equal floats, tuples, strings built at run time)
        for atom, pol in p.lits:
            if atom[0] == 'is' and _between(atom, 'default'):
                if pol:
                    eqdef = True
                elif dclass == 'none':
                    msgs.append(('value', 'the defaults are compared by identity (is): equal defaults that are distinct objects '
                                          '(1.5 and 1.5, two equal tuples) are treated as different and replaced by None'))
        # `empty` is a sentinel: equal defaults are both set or both missing
        if eqdef is True:
            if dl is not None and dr is None:
                dr = dl
            elif dr is not None and dl is None:
                dl = dr
        for a in ([dl] if dl is not None else [True, False]):
            for b in ([dr] if dr is not None else [True, False]):
                if eqdef is True and a != b:
                    continue
                if a and b:
                    if dclass == 'empty':
                        msgs.append(('exact', 'both operands have a default but the result is required'))
                    elif dclass in ('left', 'right', 'base'):
                        if eqdef is not True:
                            msgs.append(('value', 'a default of one operand is kept without the defaults being known equal'))
                    elif dclass == 'none':
                        if eqdef is True:
                            msgs.append(('value', 'equal defaults replaced by None'))
                        elif eqdef is None:
                            msgs.append(('value', 'both operands have a default and the result gets None without the two being compared: '
                                                  'equal defaults are lost (merge(s, s) differs from s)'))
                    else:
                        msgs.append(('unknown', 'default expression %s' % show(d)))
                else:
                    if dclass == 'base':
                        # keeps base default: unsound when the other is required
                        base_has = a if base == L else b
                        if base_has or (base_has is None):
                            msgs.append(('sound', 'the result keeps a default although one operand requires the parameter'))
                    elif dclass != 'empty':
                        msgs.append(('sound', 'the result gets a default (%s) although one operand requires the parameter' % dclass))
        # annotation column
        al, ar = lits.get(('has_annotation', L)), lits.get(('has_annotation', R))
        an = kws.get('annotation')
        ua = kws.get('upgraded_annotation')
        eqann = None
        for atom, pol in p.lits:
            if atom[0] == 'eq' and set([atom[1], atom[2]]) == set([('A', L, 'annotation'), ('A', R, 'annotation')]):
                eqann = pol

        for atom, pol in p.lits:
            if atom[0] == 'is' and _between(atom, 'annotation'):
                if pol:
                    eqann = True
                else:
                    eqann = False
                    msgs.append(('annot', 'the annotations are compared by identity (is): equal annotations that are distinct objects '
                                          '(two equal strings / typing constructs) are treated as different'))

        def aclass(t, attr):
            if t is None:
                return 'base'
            if t[0] == 'A' and t[2] in ('empty', '_empty'):
                return 'empty'
            if t[0] in ('GLOB', 'A', 'EXT') and show(t).endswith('EmptyAnnotation'):
                return 'empty'
            if t == ('A', L, attr):
                return 'left'
            if t == ('A', R, attr):
                return 'right'
            return 'other'
        ac = aclass(an, 'annotation')
        uc = aclass(ua, 'upgraded_annotation')
        if ac == 'base':
            ac = 'left' if base == L else 'right'
        if uc == 'base':
            uc = 'left' if base == L else 'right'
        if ac != uc:
            msgs.append(('pair', 'annotation taken from %s but upgraded_annotation from %s' % (ac, uc)))
        for a in ([al] if al is not None else [True, False]):
            for b in ([ar] if ar is not None else [True, False]):
                if a and b:
                    if eqann is True and ac not in ('left', 'right'):
                        msgs.append(('annot', 'both annotated alike but the result has annotation class %s' % ac))
                    if eqann is False and ac != 'empty':
                        msgs.append(('annot', 'annotations differ but the result keeps one (%s)' % ac))
                    if eqann is None and ac != 'empty':
                        msgs.append(('annot', 'an annotation is kept without comparing the two'))
                    if eqann is None and ac == 'empty':
                        msgs.append(('annot', 'both operands are annotated and the result drops the annotation without the two being compared: '
                                              'equal annotations are lost (merge(s, s) differs from s)'))
                elif a and not b:
                    if ac != 'left':
                        msgs.append(('annot', 'only the left operand is annotated but the result has annotation class %s' % ac))
                elif b and not a:
                    if ac != 'right':
                        msgs.append(('annot', 'only the right operand is annotated but the result has annotation class %s' % ac))
                else:
                    if ac not in ('empty',) and not (ac == 'left' and a is False) and not (ac == 'right' and b is False):
                        msgs.append(('annot', 'neither operand is annotated but the result has annotation class %s' % ac))
        for cat, rid in rules.items():
            if cat == 'leftwins':
                continue
            cats = {'default': ('sound', 'exact', 'value'), 'annotation': ('annot',), 'pair': ('pair',), 'sound': ('sound',),
                    'exact': ('exact',)}[cat]
            mine = sorted(set(m for c, m in msgs if c in cats))
            unk = [m for c, m in msgs if c == 'unknown']
            if unk or unknown:
                check.inconclusive(rid, st, '_concile_meta path not decidable: %s' % ('; '.join(unk) or lits_text(unknown)), key=key)
            elif mine:
                for m in mine:
                    check.violation(rid, st, '_concile_meta: %s' % m, key=key + '|' + m[:50], guards=lits_text(p.lits),
                                    effect='default=%s annotation=%s upgraded_annotation=%s' % (dclass, ac, uc),
                                    witness="merge(s('a=1'), s('a')) must require a")
            else:
                check.holds(rid, st, '_concile_meta %s column conforms to table B7' % cat, key=key, guards=lits_text(p.lits),
                            effect='default=%s annotation=%s upgraded_annotation=%s' % (dclass, ac, uc))
    check.floor(first_rule, '_concile_meta paths', n, 6)
