"""Verdict plumbing: obligations, known findings, evidence, replay files."""
import hashlib
import json
import os
import sys
import time

from .index import Inconclusive, py_version

HOLDS = 'HOLDS'
VIOLATION = 'VIOLATION'
INCONCLUSIVE = 'INCONCLUSIVE'

VERIF = os.path.dirname(os.path.dirname(os.path.abspath(__file__)))


class Obligation(object):
    def __init__(self, rule, site, verdict, detail, key=None, guards=None, effect=None,
                 witness=None, nontrivial=True):
        self.rule = rule
        self.site = site          # 'sigtools/x.py:123 module:qualname'
        self.verdict = verdict
        self.detail = detail
        self.key = key or ''      # construct key, line-number free
        self.guards = guards
        self.effect = effect
        self.witness = witness
        self.nontrivial = nontrivial

    def as_dict(self):
        d = {'rule': self.rule, 'site': self.site, 'verdict': self.verdict, 'detail': self.detail}
        if self.key:
            d['key'] = self.key
        if self.guards is not None:
            d['guards'] = self.guards
        if self.effect is not None:
            d['effect'] = self.effect
        if self.witness:
            d['witness'] = self.witness
        return d


class Check(object):
    """one run of the rules of one property"""

    def __init__(self, prop_id, repo, tier='quick', explanation='', assumptions=None):
        self.prop_id = prop_id
        self.repo = repo
        self.tier = tier
        self.obligations = []
        self.explanation = explanation
        self.assumptions = list(assumptions or [])
        self.stats = {'functions_analysed': set(), 'paths_enumerated': 0,
                      'call_sites_resolved': 0, 'call_sites_unresolved': 0}
        self.floors = {}
        self.rules_run = []
        self.t0 = time.time()
        self.notes = []

    # -- recording ---------------------------------------------------------
    def ob(self, rule, site, verdict, detail, **kw):
        if rule is None:
            return None      # clause not claimed under this property
        o = Obligation(rule, site, verdict, detail, **kw)
        self.obligations.append(o)
        return o

    def holds(self, rule, site, detail, **kw):
        return self.ob(rule, site, HOLDS, detail, **kw)

    def violation(self, rule, site, detail, **kw):
        return self.ob(rule, site, VIOLATION, detail, **kw)

    def inconclusive(self, rule, site, detail, **kw):
        return self.ob(rule, site, INCONCLUSIVE, detail, **kw)

    def floor(self, rule, name, found, minimum):
        """a rule that matches fewer instances than were confirmed by hand
        must not pass vacuously"""
        self.floors['%s:%s' % (rule, name)] = {'found': found, 'floor': minimum}
        if found < minimum:
            self.inconclusive(rule, '-', 'instance count for %s fell below the confirmed floor: found %d < %d'
                              % (name, found, minimum), key='floor:' + name)

    def analysed(self, fi):
        self.stats['functions_analysed'].add(fi.key)

    def absorb(self, interp):
        self.stats['paths_enumerated'] += interp.n_paths
        self.stats['call_sites_resolved'] += interp.resolved
        self.stats['call_sites_unresolved'] += len(interp.unresolved)

    def run_rule(self, rule_id, fn, *args):
        """run one rule; a vanished anchor or unknown idiom makes this rule
        INCONCLUSIVE (never a silent pass); an internal error likewise."""
        self.rules_run.append(rule_id)
        try:
            fn(self, *args)
        except Inconclusive as e:
            self.inconclusive(rule_id, '-', e.reason, key='inconclusive')
        except RecursionError as e:  # pragma: no cover
            self.inconclusive(rule_id, '-', 'internal error: recursion', key='internal')
        except Exception as e:  # pragma: no cover
            import traceback
            tb = traceback.format_exc()
            self.inconclusive(rule_id, '-', 'internal error: %s: %s\n%s' % (type(e).__name__, e, tb), key='internal')


def load_known():
    path = os.path.join(VERIF, 'known_findings.json')
    if not os.path.exists(path):
        return []
    with open(path) as f:
        return json.load(f).get('findings', [])


def finish(check, out=sys.stdout, write_evidence=True, only=None):
    """apply known findings, print the report, write evidence; return exit code"""
    known = [k for k in load_known() if k.get('property') == check.prop_id and k.get('status') == 'known']
    viol, incon, held, knownhit = [], [], [], []
    for o in check.obligations:
        if only is not None and not only(o):
            continue
        if o.verdict == VIOLATION:
            hit = None
            for k in known:
                if k.get('rule') == o.rule and k.get('construct_key') == o.key:
                    hit = k
                    break
            if hit is not None:
                knownhit.append((o, hit))
            else:
                viol.append(o)
        elif o.verdict == INCONCLUSIVE:
            incon.append(o)
        else:
            held.append(o)
    pid = check.prop_id
    w = out.write
    w('== %s  tier=%s  repo=%s  python=%s\n' % (pid, check.tier, check.repo.root, py_version()))
    w('   rules run: %s\n' % ', '.join(check.rules_run))
    w('   obligations: %d  held: %d  violations: %d  known findings: %d  inconclusive: %d\n'
      % (len(check.obligations), len(held), len(viol), len(knownhit), len(incon)))
    seen_known = set()
    for o, k in knownhit:
        ident = (o.rule, o.key)
        if ident in seen_known:
            continue
        seen_known.add(ident)
        w('KNOWN-FINDING: property=%s %s %s -- %s\n' % (pid, o.rule, o.key, k.get('witness', o.detail)))
    replay_dir = os.path.join(VERIF, 'evidence', 'replay')
    seen = set()
    seen_msg = set()
    for o in viol:
        ident = (o.rule, o.key)
        if (o.rule, o.key, o.detail) in seen_msg:
            continue
        seen_msg.add((o.rule, o.key, o.detail))
        w('%s %s [%s] %s\n' % (o.site, o.rule, VIOLATION, o.detail))
        if o.guards is not None:
            w('      guards: %s\n' % o.guards)
        if o.effect is not None:
            w('      effect: %s\n' % o.effect)
        if o.witness:
            w('      witness: %s\n' % o.witness)
        if ident in seen:
            continue
        seen.add(ident)
        digest = hashlib.sha1(('%s|%s' % ident).encode()).hexdigest()[:10]
        path = os.path.join(replay_dir, '%s-%s-%s.json' % (pid, o.rule.replace('.', '_'), digest))
        try:
            os.makedirs(replay_dir, exist_ok=True)
            with open(path, 'w') as f:
                json.dump({'property': pid, 'rule': o.rule, 'key': o.key, 'site': o.site, 'detail': o.detail,
                           'guards': o.guards, 'effect': o.effect, 'witness': o.witness,
                           'repo': check.repo.root}, f, indent=1, default=str)
        except OSError:
            pass
        w('VIOLATION property=%s replay=%s\n' % (pid, path))
    seen_inc = set()
    for o in incon:
        if (o.rule, o.key, o.detail) in seen_inc:
            continue
        seen_inc.add((o.rule, o.key, o.detail))
        w('ANALYSIS-ERROR property=%s rule=%s reason=%s\n' % (pid, o.rule, o.detail.replace('\n', ' | ')[:1500]))
    wall = time.time() - check.t0
    if write_evidence:
        write_evidence_file(check, held, viol, knownhit, incon, wall)
    if viol:
        code = 1
    elif incon:
        code = 2
    else:
        code = 0
    w('== %s: %s (%.2fs)\n' % (pid, {0: 'HOLDS', 1: 'VIOLATION', 2: 'INCONCLUSIVE'}[code], wall))
    return code


def write_evidence_file(check, held, viol, knownhit, incon, wall):
    pid = check.prop_id
    obs = check.obligations
    distinct = set()
    for o in obs:
        if o.nontrivial and o.verdict != INCONCLUSIVE:
            distinct.add((o.rule, o.key or o.site, o.guards if isinstance(o.guards, str) else json.dumps(o.guards, default=str)))
    samples = []
    per_rule = {}
    for o in obs:
        per_rule.setdefault(o.rule, []).append(o)
    for rule in sorted(per_rule):
        for o in per_rule[rule][:2]:
            samples.append(o.as_dict())
    samples = samples[:40]
    try:
        seed = int(os.environ.get('VERIF_SEED', '0'))
    except ValueError:
        seed = 0
    ev = {
        'property_id': pid,
        'tier': check.tier,
        'seed': seed,
        'level': 'other',
        'coverage': {
            'explanation': check.explanation,
            'rule': 'every rule instance (rule x matched site/path of the anchored functions) is one obligation; '
                    'non-trivial = the instance matched a real site and examined a guard set or an effect; '
                    'distinct = distinct (rule, construct key, guards) triples',
            'evaluations': len(obs),
            'distinct_nontrivial': len(distinct),
            'obligations': len(obs),
            'discharged': len(held),
            'violations_reported': len(viol),
            'known_findings_reported': sorted(set('%s %s' % (o.rule, o.key) for o, _ in knownhit)),
            'inconclusive': len(incon),
            'rules': sorted(per_rule),
            'obligations_per_rule': dict((r, len(v)) for r, v in sorted(per_rule.items())),
            'functions_analysed': len(check.stats['functions_analysed']),
            'functions': sorted(check.stats['functions_analysed']),
            'paths_enumerated': check.stats['paths_enumerated'],
            'call_sites_resolved': check.stats['call_sites_resolved'],
            'call_sites_unresolved': check.stats['call_sites_unresolved'],
            'floors': check.floors,
            'samples': samples,
            'exhaustive': False,
            'interpreter': py_version(),
            'repo': check.repo.root,
            'notes': check.notes,
        },
        'assumptions': check.assumptions,
        'wall_s': round(wall, 3),
        'violations': len(viol),
    }
    evdir = os.path.join(VERIF, 'evidence')
    os.makedirs(evdir, exist_ok=True)
    target = os.environ.get('VERIF_EVIDENCE_DIR')
    if target:
        os.makedirs(target, exist_ok=True)
        evdir = target
    with open(os.path.join(evdir, pid + '.json'), 'w') as f:
        json.dump(ev, f, indent=1, default=str, sort_keys=False)
        f.write('\n')
