"""E7 -- temporary-mutation windows and shared state (C16.R3, C16.R4, C17)."""
import ast

from .index import Inconclusive, norm
from .interp import Interp, Policy, show, show_lit, walk_effects, K, NONE, subterms, mentions
from .callgraph import CallGraph, _own_nodes, local_names

RETRIEVAL_ROOTS = ['_specifiers:forged_signature', '_signatures:signature']
MUT_METHODS = frozenset(['append', 'extend', 'insert', 'pop', 'remove', 'update', 'setdefault', 'clear', 'discard', 'add',
                         'popitem', 'sort', 'reverse', '__setitem__', '__delitem__'])
INVERSE = {'add': ('discard', 'remove'), 'append': ('pop', 'remove'), 'setdefault': ('pop',), 'update': ('pop', 'clear'),
           'insert': ('pop', 'remove')}


def site_of(fi, node):
    return '%s %s' % (fi.loc(node), fi.key)


def retrieval_closure(check, cg):
    """functions reachable from retrieval, including __enter__/__exit__ of package
    context managers used in `with` and descriptor __get__ of package singletons"""
    repo = check.repo
    keys = cg.closure(RETRIEVAL_ROOTS)
    more = True
    while more:
        more = False
        for k in list(keys):
            fi = repo.func(k, required=False)
            if fi is None:
                continue
            for n in _own_nodes(fi.node):
                if isinstance(n, ast.With):
                    for item in n.items:
                        ce = item.context_expr
                        if isinstance(ce, ast.Call):
                            r = repo.resolve_attr_chain(fi.module, ce.func) if isinstance(ce.func, (ast.Name, ast.Attribute)) else None
                            if r and r[0] == 'class':
                                for mn in ('__init__', '__enter__', '__exit__'):
                                    m = repo.lookup_method(r[1], mn)
                                    if m is not None and m.key not in keys:
                                        keys.append(m.key)
                                        more = True
        for k2 in cg.closure(keys):
            if k2 not in keys:
                keys.append(k2)
                more = True
    # module-level instances of package classes used by these functions: their methods run too (`x(...)`, `key in x`, `with x(...)`)
    singles = {}
    for m in repo.modules.values():
        for nm, vals in m.assigns.items():
            v = vals[-1]
            if isinstance(v, ast.Call) and isinstance(v.func, (ast.Name, ast.Attribute)):
                r_ = repo.resolve_attr_chain(m, v.func)
                if r_ and r_[0] == 'class':
                    singles[(m.name, nm)] = r_[1]
    for k in list(keys):
        fi = repo.func(k, required=False)
        if fi is None:
            continue
        used = set(n.id for n in _own_nodes(fi.node) if isinstance(n, ast.Name) and isinstance(n.ctx, ast.Load))
        for (mn, nm), ci_ in singles.items():
            if mn == fi.module.name and nm in used and nm not in local_names(fi.node):
                for meth in ci_.methods.values():
                    if meth.key not in keys:
                        keys.append(meth.key)
    # the as_forged descriptor is entered from inspect.signature(obj) (emulate=True)
    for k in ['specifiers:_AsForged.__get__']:
        if repo.func(k, required=False) is not None and k not in keys:
            keys.append(k)
    return keys


def receiver_root(node):
    """root Name of an attribute/subscript/call chain"""
    n = node
    while True:
        if isinstance(n, ast.Attribute):
            n = n.value
        elif isinstance(n, ast.Subscript):
            n = n.value
        elif isinstance(n, ast.Call):
            n = n.func
        else:
            break
    return n.id if isinstance(n, ast.Name) else None


def foreign_attr_writes(fi):
    """(node, receiver expr, attr text, kind) for setattr/delattr/attribute stores and deletes"""
    out = []
    for n in _own_nodes(fi.node):
        if isinstance(n, ast.Call) and isinstance(n.func, ast.Name) and n.func.id in ('setattr', 'delattr') and len(n.args) >= 2:
            out.append((n, n.args[0], norm(n.args[1]), n.func.id))
        elif isinstance(n, ast.Attribute) and isinstance(n.ctx, (ast.Store, ast.Del)):
            out.append((n, n.value, n.attr, 'store' if isinstance(n.ctx, ast.Store) else 'del'))
    return out


class Window(object):
    def __init__(self):
        self.cls = None
        self.enter = None
        self.exit = None
        self.recv_attr = None     # attribute of self holding the foreign receiver
        self.recv_param = None    # constructor parameter it comes from


def find_cm_window(repo):
    """the context-manager class that deletes attributes on enter and restores them on exit"""
    for m in repo.modules.values():
        for ci in m.classes.values():
            en, ex = ci.methods.get('__enter__'), ci.methods.get('__exit__')
            if en is None or ex is None:
                continue
            dels = [w for w in foreign_attr_writes(en) if w[3] in ('delattr', 'del')]
            sets = [w for w in foreign_attr_writes(ex) if w[3] in ('setattr', 'store')]
            if dels and sets:
                w = Window()
                w.cls, w.enter, w.exit = ci, en, ex
                return w
    return None


def rule_cm_window(check, rules):
    """rules: restore (C16.R3 restore on every exit), typestate (C16.R3 saved->deleted->restored),
    usage (every use is a `with`), confined (C17.R1)"""
    repo = check.repo
    w = find_cm_window(repo)
    if w is None:
        # no delete/restore window at all: nothing is temporarily removed any more
        for r in set(x for x in rules.values() if x):
            check.holds(r, '-', 'no delete-on-enter / restore-on-exit context manager in the package', key='cm-window|none')
        return None
    ci, en, ex = w.cls, w.enter, w.exit
    check.analysed(en)
    check.analysed(ex)
    selfname = en.params()[0][0]
    # ---- typestate per key, from the paths of one iteration
    it = Interp(repo, Policy(try_forks=True))
    paths = it.run(en)
    check.absorb(it)
    selft = ('P', selfname)
    n = 0
    seen = set()
    bad_ts = False
    for p in paths:
        for e in p.effects:
            if e.kind != 'loop':
                continue
            for sp in e.sub:
                n += 1
                saves = [x for x in sp.effects if x.kind == 'mut' and x.op == 'setitem' and (x.target[0] in ('D',) or mentions(x.target, selft))]
                dels = [x for x in sp.effects if x.kind == 'del_attr']
                unsaves = [x for x in sp.effects if x.kind == 'mut' and x.op in ('pop', 'delitem')]
                key = '%s|typestate|%s' % (en.key, 'saved' if saves else 'unsaved') + ('+deleted' if dels else '')
                if key in seen:
                    continue
                seen.add(key)
                gtext = ' & '.join(show_lit(l) for l in sp.lits)
                if saves and not dels and not unsaves and sp.status != 'raise':
                    bad_ts = True
                    check.violation(rules['typestate'], site_of(en, saves[0].node),
                                    'an attribute is recorded as saved on a path where its deletion did not happen (the delete raised '
                                    'AttributeError): __exit__ then "restores" it, creating an attribute the object never had', key=key,
                                    guards=gtext, witness='an object whose class defines __signature__: after sigtools.signature(obj) the instance '
                                                          'has its own __signature__ attribute')
                elif dels and not saves and sp.status != 'raise':
                    bad_ts = True
                    check.violation(rules['typestate'], site_of(en, dels[0].node), 'an attribute is deleted without being recorded for restoration',
                                    key=key, guards=gtext, witness='f.__wrapped__ is lost after sigtools.signature(f)')
                else:
                    check.holds(rules['typestate'], site_of(en, e.node), 'per-key typestate respected on this path (%s)'
                                % ('saved and deleted' if saves and dels else 'untouched'), key=key, guards=gtext)
    check.floor(rules['typestate'], 'paths of one enter iteration', n, 2)
    # ---- restore on every exit of __enter__ once something was deleted
    loops = [x for x in _own_nodes(en.node) if isinstance(x, (ast.For, ast.While))
             and any(wr[0] for wr in foreign_attr_writes(en) if _inside(wr[0], x))]
    key = '%s|enter-exception-edge' % en.key
    multi = True
    if loops:
        lp = loops[0]
        protected = False
        t = lp
        while t is not None and t is not en.node:
            par = getattr(t, '_parent', None)
            if isinstance(par, ast.Try) and t in par.body:
                for h in par.handlers:
                    names = [norm(x) for x in (h.type.elts if isinstance(h.type, ast.Tuple) else [h.type])] if h.type is not None else ['BaseException']
                    broad = any(x in ('BaseException', 'Exception') for x in names)
                    restores = any(isinstance(s, ast.Call) and ((isinstance(s.func, ast.Attribute) and s.func.attr == '__exit__')
                                                                 or (isinstance(s.func, ast.Name) and s.func.id == 'setattr'))
                                   for s in ast.walk(h))
                    reraises = any(isinstance(s, ast.Raise) and s.exc is None for s in ast.walk(h))
                    if broad and restores and reraises:
                        protected = True
                if par.finalbody and any(isinstance(s, ast.Call) and isinstance(s.func, ast.Attribute) and s.func.attr == '__exit__'
                                         for x in par.finalbody for s in ast.walk(x)):
                    protected = True
            t = par
        # handlers inside the loop that only catch AttributeError do not cover other exception types
        if protected:
            check.holds(rules['restore'], site_of(en, lp), 'an exception raised by a later probe inside __enter__ restores what was already deleted',
                        key=key)
        else:
            check.violation(rules['restore'], site_of(en, lp),
                            '__enter__ deletes attributes one by one and probes the foreign object in between; a probe raising anything but '
                            'AttributeError leaves __enter__ after a deletion, and __exit__ is not invoked for a failed __enter__: the deleted '
                            'attribute is lost', key=key,
                            witness='a __signature__ descriptor raising RuntimeError on read: f.__wrapped__ is gone after sigtools.signature(f) raises')
    # ---- the restoring call on the exception edge of __enter__ must be a call __exit__ can accept
    pos_x, var_x, kwo_x, kw_x = ex.params()
    ndef = len(ex.node.args.defaults)
    required = len(pos_x) - 1 - ndef
    for node in _own_nodes(en.node):
        if isinstance(node, ast.Call) and isinstance(node.func, ast.Attribute) and node.func.attr == '__exit__' \
                and isinstance(node.func.value, ast.Name) and node.func.value.id == selfname:
            key = '%s|exit-call-binds|%s' % (en.key, norm(node))
            if any(isinstance(a, ast.Starred) for a in node.args) or any(k.arg is None for k in node.keywords):
                check.holds(rules['restore'], site_of(en, node), 'restoring call passes star arguments', key=key, nontrivial=False)
                continue
            given = len(node.args) + len([k for k in node.keywords if k.arg in pos_x])
            if given < required or (len(node.args) > len(pos_x) - 1 and not var_x):
                check.violation(rules['restore'], site_of(en, node), '__enter__ restores through %s, but __exit__ takes %d required argument(s) '
                                'besides self: the call raises TypeError and nothing that was already deleted is put back'
                                % (norm(node), required), key=key,
                                witness='a __signature__ descriptor raising on read inside __enter__: f.__wrapped__ is lost')
            else:
                check.holds(rules['restore'], site_of(en, node), 'the restoring call %s binds to __exit__%s' % (norm(node), norm(ex.node.args)), key=key)
    # ---- probes of the receiver are EAFP (C17.R4): the package itself removes these attributes temporarily in other
    # threads, so a hasattr()/getattr() pair is a check-then-act race; the read and the delete must sit under a handler
    # that absorbs AttributeError
    if rules.get('probe'):
        from .callgraph import resolve_once
        recvs = set(norm(resolve_once(en.node, wr[1])) for wr in foreign_attr_writes(en) if wr[3] in ('delattr', 'del'))
        nprobe = 0
        for node in _own_nodes(en.node):
            if not (isinstance(node, ast.Call) and isinstance(node.func, ast.Name) and node.func.id in ('getattr', 'delattr') and node.args
                    and norm(resolve_once(en.node, node.args[0])) in recvs):
                continue
            if node.func.id == 'getattr' and len(node.args) + len(node.keywords) >= 3:
                continue        # defaulted form cannot raise AttributeError
            nprobe += 1
            absorbed = False
            t = node
            while t is not None and t is not en.node:
                par = getattr(t, '_parent', None)
                if isinstance(par, ast.Try) and t in par.body:
                    for h in par.handlers:
                        names = [norm(x) for x in (h.type.elts if isinstance(h.type, ast.Tuple) else [h.type])] if h.type is not None else ['BaseException']
                        if any(x in ('AttributeError', 'Exception', 'BaseException') for x in names) and \
                                not any(isinstance(s_, ast.Raise) for s_ in ast.walk(h)):
                            absorbed = True
                t = par
            key = '%s|probe|%s' % (en.key, norm(node))
            if absorbed:
                check.holds(rules['probe'], site_of(en, node), '%s sits under a handler that absorbs AttributeError' % norm(node), key=key)
            else:
                check.violation(rules['probe'], site_of(en, node), '%s on the inspected callable is not under a handler that absorbs AttributeError: '
                                'another thread inside its own window may have removed the attribute after any earlier hasattr()/getattr() '
                                'check, and the AttributeError escapes retrieval' % norm(node), key=key,
                                witness='two threads in sigtools.signature(f), f decorated with functools.wraps: one is preempted between '
                                        'hasattr and getattr')
        check.floor(rules['probe'], 'attribute probes of the window receiver in __enter__', nprobe, 2)
    # ---- __exit__ restores every saved key
    it2 = Interp(repo, Policy(try_forks=False))
    ps2 = it2.run(ex)
    check.absorb(it2)
    ok_exit = False
    skipping = None
    deleting = None
    for p in ps2:
        for e in p.effects:
            if e.kind == 'loop':
                for sp in e.sub:
                    sets_ = [x for x in sp.effects if x.kind == 'store_attr' and x.extra == 'dynamic']
                    if sets_ and sp.status == 'continue':
                        ok_exit = True
                    if not sets_ and sp.status in ('continue', 'fall'):
                        skipping = sp
                    if any(x.kind == 'del_attr' for x in sp.effects):
                        deleting = sp
    key = '%s|restores' % ex.key
    if ok_exit and skipping is not None:
        gl = ' & '.join(show_lit(l) for l in skipping.lits)[:160]
        check.violation(rules['restore'], site_of(ex, ex.node), '__exit__ skips the restoration of a saved attribute under %s: what __enter__ '
                        'removed from the object itself is not put back (ordinary lookup may still find a class-level attribute of that name)'
                        % (gl or 'some condition'), key=key, guards=gl,
                        witness='an instance whose class also defines __wrapped__/__signature__: its own attribute is gone after retrieval')
    elif ok_exit:
        check.holds(rules['restore'], site_of(ex, ex.node), '__exit__ re-sets every saved attribute', key=key)
    else:
        check.violation(rules['restore'], site_of(ex, ex.node), '__exit__ does not restore every saved attribute', key=key,
                        witness='f.__wrapped__ is lost after sigtools.signature(f)')
    # ---- __exit__ only ever puts attributes back (C17.R5): a deletion there removes, for good, an attribute that another
    # thread's window restored in the meantime
    if rules.get('exit_no_delete'):
        key = '%s|no-delete' % ex.key
        dels_ = [w_ for w_ in foreign_attr_writes(ex) if w_[3] in ('delattr', 'del')]
        if dels_:
            check.violation(rules['exit_no_delete'], site_of(ex, dels_[0][0]), '__exit__ deletes an attribute of the inspected object (%s): when two '
                            'windows on the same function overlap, the one that found the attribute already set aside deletes what the other '
                            'one has restored -- the function permanently loses it' % norm(dels_[0][0])[:50], key=key,
                            witness='thread B enters while A has __wrapped__ set aside and leaves after A restored it')
        else:
            check.holds(rules['exit_no_delete'], site_of(ex, ex.node), '__exit__ never deletes an attribute of the inspected object', key=key)
    # ---- every use is a `with`
    for m in repo.modules.values():
        for node in ast.walk(m.tree):
            if isinstance(node, ast.Call) and isinstance(node.func, (ast.Name, ast.Attribute)) and norm(node.func).split('.')[-1] == ci.name:
                par = getattr(node, '_parent', None)
                key = '%s|usage|%s' % (ci.key, norm(node)[:60])
                if isinstance(par, ast.withitem):
                    wnode = getattr(par, '_parent', None)
                    check.holds(rules['usage'], '%s:%d' % (m.relpath, node.lineno), 'the window is opened by a with statement: __exit__ runs on every '
                                'exit of the block, exception edges included', key=key)
                else:
                    check.violation(rules['usage'], '%s:%d' % (m.relpath, node.lineno), '%s is used outside a with statement: an exception between '
                                    'enter and exit skips the restoration' % ci.name, key=key,
                                    witness='inspect.signature raising inside the window loses __wrapped__')
    # ---- receiver provenance (C17.R1)
    init = ci.methods.get('__init__')
    recv = None
    from .callgraph import resolve_once as _ro
    for wr in foreign_attr_writes(en):
        if wr[3] in ('delattr', 'del'):
            recv = norm(_ro(en.node, wr[1]))      # (a local bound once to self.<attr> stands for it)
    key = '%s|receiver' % ci.key
    if rules.get('confined'):
        prov = None
        if init is not None and recv and recv.startswith(selfname + '.'):
            attr = recv.split('.', 1)[1]
            for n_ in ast.walk(init.node):
                if isinstance(n_, ast.Assign) and any(isinstance(t_, ast.Attribute) and t_.attr == attr for t_ in n_.targets):
                    if isinstance(n_.value, ast.Name) and n_.value.id in init.params()[0]:
                        prov = 'INPUT'
        if prov == 'INPUT':
            check.violation(rules['confined'], site_of(en, en.node),
                            'temporary-mutation window on a caller-owned object: %s deletes attributes of the inspected callable and restores them '
                            'later; any other thread reading the same callable in between (including inspect.signature itself) sees it without '
                            '__wrapped__/__signature__, and two overlapping windows can restore a stale value' % ci.name, key=key,
                            witness='two threads calling sigtools.signature(f) on one functools.wraps-decorated f')
        else:
            check.inconclusive(rules['confined'], site_of(en, en.node), 'provenance of the window receiver %s not determined' % recv, key=key)
    return w


def _inside(node, anc):
    n = node
    while n is not None:
        if n is anc:
            return True
        n = getattr(n, '_parent', None)
    return False


def rule_foreign_write_inventory(check, rule, cg=None):
    """C16.R3 inventory: in the retrieval closure every attribute write/delete on an object
    that is not `self` (or created in the activation) belongs to the verified window"""
    repo = check.repo
    cg = cg or CallGraph(repo)
    keys = retrieval_closure(check, cg)
    w = find_cm_window(repo)
    allowed = set()
    if w is not None:
        allowed = set([w.enter.key, w.exit.key])
    n = 0
    for k in keys:
        fi = repo.func(k, required=False)
        if fi is None:
            continue
        check.analysed(fi)
        locs = local_names(fi.node)
        selfname = fi.params()[0][0] if (fi.cls is not None and fi.params()[0] and not fi.is_static()) else None
        fresh = set()
        for node in _own_nodes(fi.node):
            # x = <call>() / literal : created in the activation
            if isinstance(node, ast.Assign) and isinstance(node.value, (ast.Call, ast.List, ast.Dict, ast.Set, ast.ListComp, ast.DictComp)):
                for t in node.targets:
                    if isinstance(t, ast.Name):
                        v = node.value
                        if isinstance(v, ast.Call):
                            fn = norm(v.func)
                            if fn.split('.')[-1] in ('replace', 'copy', 'dict', 'list', 'set', 'OrderedDict', 'copy_sources') or fn.startswith('super().') \
                                    or fn.split('.')[-1] in ('cls',) or fn.split('.')[-1][:1].isupper():
                                # (`X._upgrade(obj, ...)` is *not* in this list: it hands an already upgraded object back unchanged)
                                fresh.add(t.id)
                        else:
                            fresh.add(t.id)
        # local aliases of the object's own elements: `m = self.table[k]` / `m = self.table.lookup(k)`; then `m.x = ...`
        # writes the object's own state (constants such as None among the assigned values are ignored)
        own_alias = set()
        if selfname is not None:
            assigned = {}
            for node in _own_nodes(fi.node):
                if isinstance(node, ast.Assign) and len(node.targets) == 1 and isinstance(node.targets[0], ast.Name):
                    assigned.setdefault(node.targets[0].id, []).append(node.value)
            for nm, vals in assigned.items():
                vals = [v for v in vals if not isinstance(v, ast.Constant)]
                if vals and all(_own_container(v, selfname) or (isinstance(v, ast.Call) and receiver_root(v) == selfname
                                                                   and isinstance(v.func, ast.Attribute) and isinstance(v.func.value, ast.Attribute))
                                for v in vals):
                    own_alias.add(nm)
        for node, recv, attr, kind in foreign_attr_writes(fi):
            root = receiver_root(recv)
            if isinstance(recv, ast.Name) and recv.id in own_alias and kind in ('store', 'del'):
                continue
            if root == selfname and selfname is not None:
                # own state, unless it goes through an attribute holding a foreign object (self.func.x = ...)
                depth = 0
                x = recv
                while isinstance(x, (ast.Attribute, ast.Subscript)):
                    depth += 1
                    x = x.value
                if isinstance(recv, ast.Name) or kind in ('store', 'del') and isinstance(recv, ast.Name):
                    continue
                if kind in ('store', 'del') and isinstance(recv, ast.Name):
                    continue
                if not (kind in ('setattr', 'delattr') or depth >= 1 and kind in ('store', 'del') and not _own_container(recv, selfname)):
                    continue
                if _own_container(recv, selfname) and kind in ('store', 'del'):
                    continue
            elif root in fresh:
                continue
            n += 1
            key = '%s|attr-write|%s.%s' % (fi.key, norm(recv), attr)
            if fi.key in allowed:
                check.holds(rule, site_of(fi, node), 'attribute %s on %s: inside the verified delete/restore window' % (kind, norm(recv)), key=key)
            else:
                check.violation(rule, site_of(fi, node), 'retrieval %ss the attribute %s of %s, an object it does not own, outside any '
                                'delete/restore window' % ('write' if kind in ('setattr', 'store') else 'delete', attr, norm(recv)), key=key,
                                witness='after sigtools.signature(f) the inspected objects must have exactly the attributes they had before')
    check.floor(rule, 'foreign attribute writes in the retrieval closure', n, 2)
    return keys


def _own_container(recv, selfname):
    """self.x[...] / self.x : element of the object's own containers"""
    x = recv
    seen_sub = False
    while isinstance(x, (ast.Attribute, ast.Subscript)):
        if isinstance(x, ast.Subscript):
            seen_sub = True
        x = x.value
    return isinstance(x, ast.Name) and x.id == selfname and seen_sub


def rule_recursion_guard_emptied(check, rule, rule_conf=None):
    """C16.R4: the add on the recursion guard is paired with a discard of the same key in a finally;
    C17.R1 (W2): the guard set is not shared between threads"""
    repo = check.repo
    fi = repo.func('specifiers:_AsForged.__get__')
    check.analysed(fi)
    adds = []
    for n in _own_nodes(fi.node):
        if isinstance(n, ast.Call) and isinstance(n.func, ast.Attribute) and n.func.attr in ('add', 'append'):
            adds.append(n)
    if not adds:
        check.violation(rule, site_of(fi, fi.node), 'the descriptor no longer records the object being computed (no recursion guard)',
                        key='%s|guard' % fi.key, witness='inspect.signature(obj) with __signature__ = as_forged recurses forever')
        return
    for a in adds:
        recv = norm(a.func.value)
        keyexpr = norm(a.args[0]) if a.args else None
        # the enclosing try (or the try that immediately follows) must discard the same key in finally
        tr = None
        t = a
        while t is not None and t is not fi.node:
            par = getattr(t, '_parent', None)
            if isinstance(par, ast.Try) and (t in par.body) and par.finalbody:
                tr = par
                break
            t = par
        if tr is None:
            # add just before a try/finally
            stmt = a
            while not isinstance(stmt, ast.stmt):
                stmt = stmt._parent
            body = getattr(stmt._parent, 'body', [])
            if stmt in body:
                i = body.index(stmt)
                if i + 1 < len(body) and isinstance(body[i + 1], ast.Try) and body[i + 1].finalbody:
                    tr = body[i + 1]
        key = '%s|guard-paired' % fi.key
        if tr is None:
            check.violation(rule, site_of(fi, a), 'the guard entry is not removed in a finally clause: a failing retrieval leaves the object marked '
                            'as being computed', key=key, witness='a forger raising ValueError: later inspect.signature(obj) sees AttributeError')
            continue
        dis = [n for x in tr.finalbody for n in ast.walk(x) if isinstance(n, ast.Call) and isinstance(n.func, ast.Attribute)
               and n.func.attr in ('discard', 'remove', 'pop') and norm(n.func.value) == recv]
        if not dis:
            check.violation(rule, site_of(fi, tr), 'the finally clause does not remove the guard entry from %s' % recv, key=key,
                            witness='the recursion guard behind as_forged must be empty after retrieval')
        elif norm(dis[0].args[0]) != keyexpr:
            check.violation(rule, site_of(fi, dis[0]), 'the guard adds %s but the finally clause removes %s' % (keyexpr, norm(dis[0].args[0])), key=key,
                            witness='sigtools.signature(Cls) through the class: the guard keeps Cls forever')
        else:
            check.holds(rule, site_of(fi, a), 'guard entry %s added and removed (finally) on %s' % (keyexpr, recv), key=key)
        # the membership test uses the same key
        tests = [n for n in _own_nodes(fi.node) if isinstance(n, ast.Compare) and any(isinstance(o, ast.In) for o in n.ops)
                 and norm(n.comparators[0]) == recv]
        key2 = '%s|guard-test' % fi.key
        if tests and norm(tests[0].left) == keyexpr:
            check.holds(rule, site_of(fi, tests[0]), 're-entry for the same object raises AttributeError', key=key2)
        elif tests:
            check.violation(rule, site_of(fi, tests[0]), 'the re-entry test looks up %s but the guard records %s' % (norm(tests[0].left), keyexpr), key=key2)
        else:
            check.violation(rule, site_of(fi, fi.node), 'no re-entry test on the recursion guard', key=key2)
        # thread confinement of the guard container (C17.R1, window W2)
        if rule_conf:
            ci = fi.cls
            confined = False
            # self.<attr> resolves to threading.local storage?
            attr = recv.split('.', 1)[1] if '.' in recv else recv
            for m in ci.methods.values():
                for n in ast.walk(m.node):
                    if isinstance(n, ast.Call) and norm(n.func).endswith('local') and 'threading' in norm(n.func) or \
                            (isinstance(n, ast.Call) and norm(n.func) == 'local'):
                        confined = True
            key3 = '%s|guard-confined' % fi.key
            if confined:
                check.holds(rule_conf, site_of(fi, a), 'the recursion guard lives in threading.local storage', key=key3)
            else:
                check.violation(rule_conf, site_of(fi, a),
                                'temporary-mutation window on shared state: %s belongs to the module-level descriptor instance and is shared by '
                                'all threads; while one thread computes the signature of obj, another thread\'s inspect.signature(obj) finds obj '
                                'in the set and gets AttributeError (falls back to the un-forged signature)' % recv, key=key3,
                                witness='two threads calling inspect.signature(obj) on one object using as_forged')


REVIEWED_SHARED = {
    ('specifiers', 'as_forged'): 'descriptor singleton; its recursion guard is checked by the guard rules',
    ('_signatures', 'EmptyAnnotation'): 'immutable marker instance',
    ('_util', 'UNSET'): 'immutable marker instance',
    ('_util', 'funcsigs'): 'module alias',
    ('specifiers', '_kwowr'): 'decorator factory result, not mutated after import',
    ('_signatures', 'SortedParameters'): 'namedtuple class',
    ('_autoforwards', 'Call'): 'namedtuple class',
    ('support', 're_paramname'): 'compiled regular expression',
    ('support', 're_posoarg'): 'compiled regular expression',
    ('sphinxext', 'instancemethod'): 'type object',
}
REVIEWED_CLASS_ATTRS = {
    ('_autoforwards', 'cleanup_functools_wrapper', 'attrs'): 'read-only list of attribute names',
    ('sphinxext', 'SignatureDocumenter', 'option_spec'): 'Sphinx option table, read by Sphinx only',
}


def rule_shared_state_inventory(check, rule):
    """C17.R2 (fails closed): shared mutable state of the package equals the reviewed list"""
    repo = check.repo
    n = 0
    for m in repo.modules.values():
        for name, vals in m.assigns.items():
            v = vals[-1]
            mutable = isinstance(v, (ast.List, ast.Dict, ast.Set, ast.ListComp, ast.DictComp, ast.SetComp))
            if isinstance(v, ast.Call):
                fn = norm(v.func)
                if fn.split('.')[-1] in ('dict', 'list', 'set', 'OrderedDict', 'WeakKeyDictionary', 'WeakValueDictionary', 'defaultdict',
                                         'deque', 'local', 'Lock', 'RLock'):
                    mutable = True
                r = repo.resolve_attr_chain(m, v.func) if isinstance(v.func, (ast.Name, ast.Attribute)) else None
                if r and r[0] == 'class':
                    mutable = True
                if fn.split('.')[-1] in ('namedtuple', 'compile', 'type'):
                    mutable = True     # listed so that the table stays complete
            if name.startswith('__') and name.endswith('__'):
                continue
            if not mutable:
                continue
            n += 1
            key = 'shared|%s.%s' % (m.name, name)
            if (m.name, name) in REVIEWED_SHARED:
                check.holds(rule, '%s:%d' % (m.relpath, v.lineno), 'module-level object %s.%s: reviewed (%s)' % (m.name, name, REVIEWED_SHARED[(m.name, name)]),
                            key=key)
            else:
                # is it mutated anywhere in the package?
                muts = _mutations_of_global(repo, m, name)
                if muts:
                    fi, node, how = muts[0]
                    check.inconclusive(rule, site_of(fi, node), 'new shared mutable state %s.%s is modified here (%s) and is not in the reviewed list: '
                                       'classify it (thread-confined / locked / benign) before this rule can pass' % (m.name, name, how), key=key)
                else:
                    check.holds(rule, '%s:%d' % (m.relpath, v.lineno), 'module-level object %s.%s is never modified inside the package' % (m.name, name), key=key)
        for ci in m.classes.values():
            for aname, v in ci.assigns.items():
                if isinstance(v, (ast.List, ast.Dict, ast.Set)) or (isinstance(v, ast.Call) and norm(v.func).split('.')[-1] in
                                                                    ('dict', 'list', 'set', 'OrderedDict', 'WeakKeyDictionary')):
                    n += 1
                    key = 'shared|%s.%s.%s' % (m.name, ci.name, aname)
                    if aname == '__slots__':
                        continue
                    if (m.name, ci.name, aname) in REVIEWED_CLASS_ATTRS:
                        # read-only claim: no mutation through cls.<attr> / self.<attr>
                        bad = None
                        for mfi in ci.methods.values():
                            for node in _own_nodes(mfi.node):
                                if isinstance(node, ast.Call) and isinstance(node.func, ast.Attribute) and node.func.attr in MUT_METHODS \
                                        and norm(node.func.value).endswith('.' + aname):
                                    bad = (mfi, node)
                        if bad:
                            check.violation(rule, site_of(bad[0], bad[1]), 'the class attribute %s.%s, shared by all instances and threads, is modified'
                                            % (ci.name, aname), key=key)
                        else:
                            check.holds(rule, '%s:%d' % (m.relpath, v.lineno), 'class attribute %s.%s: reviewed (%s), not modified'
                                        % (ci.name, aname, REVIEWED_CLASS_ATTRS[(m.name, ci.name, aname)]), key=key)
                    else:
                        check.inconclusive(rule, '%s:%d' % (m.relpath, v.lineno), 'new mutable class attribute %s.%s.%s is not in the reviewed list'
                                           % (m.name, ci.name, aname), key=key)
    check.floor(rule, 'shared objects inventoried', n, 6)
    # per-descriptor weak cache: check-then-set of an idempotent value, no window
    fi = repo.func('_util:OverrideableDataDesc.__get__', required=False)
    if fi is not None:
        check.analysed(fi)
        dels = [n_ for n_ in _own_nodes(fi.node) if isinstance(n_, ast.Call) and isinstance(n_.func, ast.Attribute)
                and n_.func.attr in ('pop', 'clear', 'popitem') and 'insts' in norm(n_.func.value)]
        key = 'shared|_util.OverrideableDataDesc.insts'
        if dels:
            check.violation(rule, site_of(fi, dels[0]), 'the descriptor cache is emptied/popped during lookup: a concurrent lookup can miss and rebuild, '
                            'returning different wrapper objects', key=key)
        else:
            check.holds(rule, site_of(fi, fi.node), 'descriptor cache insts: lookup, else build and store (idempotent value, no removal: benign race)', key=key)


def _mutations_of_global(repo, mod, name):
    out = []
    for fi in repo.all_funcs():
        if fi.module is not mod:
            # imported under the same name?
            imp = fi.module.imports.get(name)
            if not imp or not imp[0].endswith(mod.name):
                continue
        if name in local_names(fi.node):
            continue
        for node in _own_nodes(fi.node):
            if isinstance(node, ast.Call) and isinstance(node.func, ast.Attribute) and node.func.attr in MUT_METHODS \
                    and receiver_root(node.func.value) == name:
                out.append((fi, node, '%s()' % node.func.attr))
            elif isinstance(node, (ast.Subscript, ast.Attribute)) and isinstance(node.ctx, (ast.Store, ast.Del)) and receiver_root(node.value) == name:
                out.append((fi, node, 'item/attribute assignment'))
            elif isinstance(node, ast.AugAssign) and receiver_root(node.target) == name:
                out.append((fi, node, 'augmented assignment'))
            elif isinstance(node, ast.Global) and name in node.names:
                out.append((fi, node, 'global rebinding'))
    return out


def rule_shared_windows(check, rule, cg=None):
    """C17.R1: no add/remove (mutate/restore) window on module-level or class-level state
    inside the retrieval closure, other than the reviewed ones"""
    repo = check.repo
    cg = cg or CallGraph(repo)
    keys = retrieval_closure(check, cg)
    n = 0
    for k in keys:
        fi = repo.func(k, required=False)
        if fi is None:
            continue
        locs = local_names(fi.node)
        calls = [n_ for n_ in _own_nodes(fi.node) if isinstance(n_, ast.Call) and isinstance(n_.func, ast.Attribute)]
        for a in calls:
            if a.func.attr not in INVERSE:
                continue
            root = receiver_root(a.func.value)
            if root is None or root in locs and not (fi.cls is not None and root == (fi.params()[0] or [None])[0]):
                continue
            # shared receiver: a module-level name, or self.<attr> of a module-level singleton / class attribute
            recv = norm(a.func.value)
            shared = False
            if root not in locs and (root in fi.module.assigns or root in fi.module.imports):
                shared = True
            if fi.cls is not None and fi.params()[0] and root == fi.params()[0][0]:
                # instance of a class that has a module-level singleton
                for m in repo.modules.values():
                    for nm, vals in m.assigns.items():
                        v = vals[-1]
                        if isinstance(v, ast.Call) and isinstance(v.func, (ast.Name, ast.Attribute)):
                            r_ = repo.resolve_attr_chain(m, v.func)
                            if r_ and r_[0] == 'class' and r_[1] is fi.cls:
                                shared = True
                attr = recv.split('.', 1)[1] if '.' in recv else None
                if attr and attr.split('.')[0].split('[')[0] in fi.cls.assigns:
                    shared = True
            if not shared:
                continue
            inv = [b for b in calls if b.func.attr in INVERSE[a.func.attr] and norm(b.func.value) == recv]
            if not inv:
                continue
            n += 1
            key = '%s|shared-window|%s' % (fi.key, recv)
            if fi.key == 'specifiers:_AsForged.__get__':
                continue      # judged by the guard rules (thread confinement)
            check.violation(rule, site_of(fi, a), 'temporary-mutation window on shared state: %s.%s(...) is undone later by %s(...) in the same '
                            'function, and other threads running retrieval observe the intermediate state' % (recv, a.func.attr, inv[0].func.attr),
                            key=key, witness='two threads retrieving signatures concurrently')
    # placeholder-then-fill: the same key of a shared container is assigned twice in one activation;
    # between the two stores other threads observe the placeholder
    for k in keys:
        fi = repo.func(k, required=False)
        if fi is None:
            continue
        locs = local_names(fi.node)
        stores = {}
        for n_ in _own_nodes(fi.node):
            if isinstance(n_, ast.Subscript) and isinstance(n_.ctx, ast.Store):
                root = receiver_root(n_.value)
                if root is None or root in locs:
                    continue
                if root in fi.module.assigns or root in fi.module.imports:
                    stores.setdefault((norm(n_.value), norm(n_.slice)), []).append(n_)
        for (recv, keytxt), nodes in stores.items():
            if len(nodes) < 2:
                continue
            vals = set()
            for n_ in nodes:
                par = getattr(n_, '_parent', None)
                if isinstance(par, ast.Assign):
                    vals.add(norm(par.value))
            if len(vals) >= 2:
                n += 1
                check.violation(rule, site_of(fi, nodes[0]), 'temporary state on a shared container: %s[%s] is first set to one value and later in the '
                                'same activation to another (%s); a thread looking the key up in between takes the placeholder for the answer'
                                % (recv, keytxt, ' / '.join(sorted(vals))[:80]), key='%s|placeholder|%s' % (fi.key, recv),
                                witness='two threads retrieving the signature of the same function for the first time')
    check.holds(rule, '-', 'no unreviewed add/remove window on shared state in the retrieval closure (%d functions scanned)' % len(keys),
                key='shared-window|scan')


def rule_thread_local_access(check, rule):
    """C17.R1d / C13.R6c: an attribute of a `threading.local()` object exists only in the thread that assigned it.  Assigning it
    once in the owner's __init__ (executed in the importing thread for module-level singletons) leaves every other thread
    without it; each read must therefore tolerate its absence (AttributeError handler or getattr default) and create it
    per thread."""
    repo = check.repo
    n = 0
    for m in repo.modules.values():
        for ci in m.classes.values():
            locals_ = set()
            for meth in ci.methods.values():
                for node in ast.walk(meth.node):
                    if isinstance(node, ast.Assign) and isinstance(node.value, ast.Call) and norm(node.value.func).endswith('threading.local'):
                        for t in node.targets:
                            if isinstance(t, ast.Attribute):
                                locals_.add(t.attr)
            if not locals_:
                continue
            for meth in ci.methods.values():
                for node in ast.walk(meth.node):
                    if isinstance(node, ast.Call) and isinstance(node.func, ast.Name) and node.func.id == 'getattr' and len(node.args) == 3 \
                            and isinstance(node.args[0], ast.Attribute) and node.args[0].attr in locals_:
                        n += 1
                        check.holds(rule, site_of(meth, node), '%s is read with a default (created per thread on first use)' % norm(node)[:50],
                                    key='%s|thread-local-read|getattr' % meth.key)
                    if isinstance(node, ast.Attribute) and isinstance(node.ctx, ast.Load) and isinstance(node.value, ast.Attribute) \
                            and node.value.attr in locals_ and isinstance(node.value.value, ast.Name):
                        n += 1
                        t = node
                        tolerant = False
                        while t is not None and t is not meth.node:
                            par = getattr(t, '_parent', None)
                            if isinstance(par, ast.Try) and t in par.body and any(
                                    h.type is None or any(x in norm(h.type) for x in ('AttributeError', 'Exception')) for h in par.handlers):
                                tolerant = True
                            t = par
                        key = '%s|thread-local-read|%s.%s' % (meth.key, node.value.attr, node.attr)
                        if tolerant:
                            check.holds(rule, site_of(meth, node), 'self.%s.%s is read under an AttributeError handler (created per thread on first use)'
                                        % (node.value.attr, node.attr), key=key)
                        else:
                            check.violation(rule, site_of(meth, node), 'self.%s is a threading.local(): its attribute %r exists only in the thread that '
                                            'assigned it, and this read does not tolerate its absence -- in any other thread it raises '
                                            'AttributeError (swallowed by inspect as "no __signature__": the undecorated signature is reported)'
                                            % (node.value.attr, node.attr), key=key,
                                            witness='inspect.signature(decorated) called from a worker thread')
    check.floor(rule, 'reads of thread-local attributes', n, 1)


def rule_flag_published_last(check, rule):
    """C17.R6: a one-time transformation guarded by a flag (`if not self.<flag>: ...; self.<flag> = True`) must set the
    flag after the state it announces: with the flag set first, a second thread arriving in between skips the block and
    uses the untransformed state."""
    repo = check.repo
    n = 0
    for m in repo.modules.values():
        for ci in m.classes.values():
            for meth in ci.methods.values():
                selfn = meth.params()[0][0] if meth.params()[0] else None
                for node in ast.walk(meth.node):
                    if not isinstance(node, ast.If):
                        continue
                    t = node.test
                    region = None
                    if isinstance(t, ast.UnaryOp) and isinstance(t.op, ast.Not) and isinstance(t.operand, ast.Attribute) \
                            and isinstance(t.operand.value, ast.Name) and t.operand.value.id == selfn:
                        flag = t.operand.attr
                        region = node.body
                    elif isinstance(t, ast.Attribute) and isinstance(t.value, ast.Name) and t.value.id == selfn and node.body \
                            and isinstance(node.body[-1], (ast.Return, ast.Raise)) and not node.orelse:
                        # the guard-clause form: `if self.<flag>: return` followed by the one-time work
                        flag = t.attr
                        par = getattr(node, '_parent', None)
                        for f_ in ('body', 'orelse', 'finalbody'):
                            b_ = getattr(par, f_, None)
                            if isinstance(b_, list) and node in b_:
                                region = b_[b_.index(node) + 1:]
                    if region is None:
                        continue
                    stores = []
                    for i, st_ in enumerate(region):
                        for x in ast.walk(st_):
                            if isinstance(x, ast.Attribute) and isinstance(x.ctx, ast.Store) and isinstance(x.value, ast.Name) and x.value.id == selfn:
                                stores.append((i, x.attr, st_))
                    fl = [s_ for s_ in stores if s_[1] == flag and isinstance(s_[2], ast.Assign) and isinstance(s_[2].value, ast.Constant)
                          and s_[2].value.value is True]
                    others = [s_ for s_ in stores if s_[1] != flag]
                    if not fl or not others:
                        continue
                    n += 1
                    key = '%s|flag-last|%s' % (meth.key, flag)
                    if fl[0][0] < max(o[0] for o in others):
                        check.violation(rule, site_of(meth, fl[0][2]), 'self.%s is set to True before self.%s is updated: a thread that arrives in '
                                        'between sees the flag, skips the block and works with the untransformed value'
                                        % (flag, others[-1][1]), key=key,
                                        witness='first look-ups of an emulating forger wrapper on __init_subclass__ racing')
                    else:
                        check.holds(rule, site_of(meth, fl[0][2]), 'self.%s is set after the state it announces' % flag, key=key)
    check.floor(rule, 'flag-guarded one-time transformations', n, 1)


# stdlib calls that read <function>.__wrapped__ / .__signature__ without the attribute being spelled at the call site
IMPLICIT_FOLLOWERS = {
    'signature': 'inspect.signature follows __wrapped__ and reads __signature__',
    'from_callable': 'Signature.from_callable follows __wrapped__ and reads __signature__',
    'unwrap': 'inspect.unwrap follows __wrapped__',
    'getsource': 'inspect.getsource unwraps a function before locating its source',
    'getsourcelines': 'inspect.getsourcelines unwraps a function before locating its source',
    'getclosurevars': None,     # works on __code__/__closure__ only
}
# the followers the retrieval design is built on (one reason each); their exposure to the delete/restore window is finding D6,
# reported under C17.R1 at the window itself
REVIEWED_FOLLOWERS = {
    'signature': "the plain retrieval itself: sigtools.signature() *is* inspect.signature plus upgrading; the window exists to control "
                 "what this call follows",
}


def _is_code_object(fi, expr):
    """expr is <x>.__code__, or a local name only ever bound to that"""
    if isinstance(expr, ast.Attribute) and expr.attr == '__code__':
        return True
    if isinstance(expr, ast.Name):
        binds = []
        for n in _own_nodes(fi.node):
            if isinstance(n, ast.Assign):
                for t in n.targets:
                    if isinstance(t, ast.Name) and t.id == expr.id:
                        binds.append(n.value)
            elif isinstance(n, (ast.AugAssign, ast.AnnAssign)) and isinstance(n.target, ast.Name) and n.target.id == expr.id:
                binds.append(getattr(n, 'value', None))
            elif isinstance(n, ast.NamedExpr) and n.target.id == expr.id:
                binds.append(n.value)
        if expr.id in [a for a in fi.params()[0]]:
            return False
        return bool(binds) and all(isinstance(b, ast.Attribute) and b.attr == '__code__' for b in binds)
    return False


def rule_implicit_followers(check, rule, cg=None):
    """C17.R7: while retrieval takes __wrapped__/__signature__ away from the inspected function for the time of a window, every
    other read of those attributes on that function runs against the window of another thread.  The reads spelled out in the code
    are under C17.R1/R4; this rule takes the inventory of the *implicit* ones -- standard-library calls that follow the attributes
    on the object they are handed -- in the retrieval closure: only the reviewed ones may exist."""
    repo = check.repo
    w = find_cm_window(repo)
    if w is None:
        check.holds(rule, '-', 'no delete-on-enter / restore-on-exit context manager in the package: nothing to race with', key='followers|none')
        return
    cg = cg or CallGraph(repo)
    keys = retrieval_closure(check, cg)
    n = 0
    for k in keys:
        fi = repo.func(k, required=False)
        if fi is None:
            continue
        for c in _own_nodes(fi.node):
            if not isinstance(c, ast.Call) or not isinstance(c.func, ast.Attribute):
                continue
            last = c.func.attr
            if IMPLICIT_FOLLOWERS.get(last) is None:
                continue
            base = norm(c.func.value)
            if base.split('.')[-1] not in ('inspect', 'funcsigs', 'Signature', '_inspect'):
                continue
            if not c.args:
                continue
            arg = c.args[0]
            if _is_code_object(fi, arg) or isinstance(arg, ast.Constant):
                check.holds(rule, site_of(fi, c), '%s.%s on a code object: no attribute is followed' % (base, last), key='followers|code|%s' % last)
                continue
            n += 1
            key = 'followers|%s' % last
            if last in REVIEWED_FOLLOWERS:
                check.holds(rule, site_of(fi, c), 'reviewed follower %s.%s(%s): %s' % (base, last, norm(arg)[:40], REVIEWED_FOLLOWERS[last]), key=key)
            else:
                check.violation(rule, site_of(fi, c), '%s.%s(%s) inside retrieval: %s, so its answer depends on whether another thread is '
                                'inside %s at that moment' % (base, last, norm(arg)[:40], IMPLICIT_FOLLOWERS[last], w.cls.name), key=key,
                                witness='thread A inside the window (f.__wrapped__ set aside), thread B between its own window and this call: '
                                        'B sees another function than when run alone')
    check.floor(rule, 'implicit followers of __wrapped__/__signature__ in the retrieval closure', n, 1)


def rule_cm_saves_raw_entry(check, rule):
    """C16.R3r (D42): what the window sets aside and later puts back must be the object's *own entry*.  For a class, `getattr(cls, attr)`
    is what a descriptor stored under that name evaluates to (`__signature__ = specifiers.as_forged` gives a signature); deleting the
    entry and restoring that value with setattr replaces the descriptor for good.  Every value the enter method records for restoration
    comes from the object's own namespace (`vars(obj)[attr]` / `obj.__dict__[attr]`); attribute lookup is accepted only as the fallback
    for objects without a namespace (the handler of the TypeError that vars() raises for them)."""
    repo = check.repo
    w = find_cm_window(repo)
    if w is None:
        check.holds(rule, '-', 'no delete-on-enter / restore-on-exit context manager in the package', key='cm-window|none')
        return
    en = w.enter
    check.analysed(en)
    key = '%s|raw-entry' % en.key
    # names whose value is stored into a container for restoration
    saved_names = set()
    for x in ast.walk(en.node):
        if isinstance(x, ast.Assign) and any(isinstance(t, ast.Subscript) for t in x.targets) and isinstance(x.value, ast.Name):
            saved_names.add(x.value.id)
        if isinstance(x, ast.Call) and isinstance(x.func, ast.Attribute) and x.func.attr in ('append', 'setdefault', '__setitem__'):
            for a in x.args:
                for n_ in ast.walk(a):
                    if isinstance(n_, ast.Name):
                        saved_names.add(n_.id)
    sources = []
    for x in ast.walk(en.node):
        if isinstance(x, ast.Assign) and any(isinstance(t, ast.Name) and t.id in saved_names for t in x.targets):
            sources.append(x)
    direct = [x for x in ast.walk(en.node) if isinstance(x, ast.Assign) and any(isinstance(t, ast.Subscript) for t in x.targets)
              and isinstance(x.value, (ast.Call, ast.Subscript))]
    sources += direct

    def is_raw(v):
        return isinstance(v, ast.Subscript) and (
            (isinstance(v.value, ast.Call) and norm(v.value.func) == 'vars') or
            (isinstance(v.value, ast.Attribute) and v.value.attr == '__dict__'))

    def is_lookup(v):
        return isinstance(v, ast.Call) and norm(v.func) == 'getattr' and len(v.args) == 2

    raw = [s for s in sources if is_raw(s.value)]
    lookups = [s for s in sources if is_lookup(s.value)]
    if not raw and not lookups:
        check.inconclusive(rule, site_of(en, en.node), 'where the saved value comes from is not understood', key=key)
        return
    bad = []
    for s in lookups:
        ok = False
        t = s
        while getattr(t, '_parent', None) is not None and t is not en.node:
            par = t._parent
            if isinstance(par, ast.ExceptHandler) and par.type is not None and norm(par.type) == 'TypeError':
                tr = getattr(par, '_parent', None)
                if isinstance(tr, ast.Try) and any(is_raw(y.value) for b_ in tr.body for y in ast.walk(b_) if isinstance(y, ast.Assign)):
                    ok = True
            t = par
        if not ok:
            bad.append(s)
    if bad:
        check.violation(rule, site_of(en, bad[0]), 'the value set aside is `%s`: what attribute lookup evaluates to, not the object\'s own entry -- for a '
                        'class whose %s is a descriptor (the documented `__signature__ = specifiers.as_forged`) the entry is deleted and the '
                        'evaluated value is put back in its place, for good' % (norm(bad[0].value), '/'.join(a for a in ('__wrapped__', '__signature__'))),
                        key=key, witness='class C: __signature__ = specifiers.as_forged; ... sigtools.signature(C); vars(C)["__signature__"] is now a Signature')
    else:
        check.holds(rule, site_of(en, (raw or lookups)[0]), 'the value set aside is the object\'s own entry (vars()/__dict__); attribute lookup only as the '
                    'fallback for objects without a namespace', key=key)
