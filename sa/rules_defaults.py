"""Argument-flow rule "omitted flags mean plain forwarding" (E9).

The public operations take switches whose *neutral* value is what every caller that omits them relies on: nothing is
hidden (`hide_* = False`), both stars are forwarded (`use_* = True`), no argument is consumed (`num_args = 0`), the
callee is not a partial (`partial = False`), a pairwise embedding is one level deep (`depth = 1`).  For every call
site inside the package that leaves such a parameter to the callee's default -- including sites that forward `*args` /
`**kwargs` of their own caller, where the parameter may or may not be supplied -- the callee's default must be the
neutral value.  A default that nobody inside the package relies on is not constrained (changing it changes the
external API only, which no property here talks about).
"""
import ast

from .index import norm

NEUTRAL = {
    'use_varargs': True, 'use_varkwargs': True,
    'hide_args': False, 'hide_kwargs': False, 'hide_varargs': False, 'hide_varkwargs': False,
    'num_args': 0, 'partial': False, 'depth': 1,
}
CALLEES = {
    '_signatures:embed': 'embed', '_signatures:_embed': 'embed', '_signatures:mask': 'mask',
    '_signatures:forwards': 'forwards', 'specifiers:forwards': 'forwards',
}


def _resolve(repo, fi, call):
    f = call.func
    if isinstance(f, ast.Name):
        r = repo.resolve_global(fi.module, f.id)
        if r is not None and r[0] == 'func':
            return r[1]
    elif isinstance(f, ast.Attribute):
        r = repo.resolve_attr_chain(fi.module, f)
        if r is not None and r[0] == 'func':
            return r[1]
    return None


def _default_of(fi, name):
    a = fi.node.args
    allpos = a.posonlyargs + a.args
    names = [x.arg for x in allpos]
    if name in names:
        j = names.index(name) - (len(allpos) - len(a.defaults))
        return a.defaults[j] if j >= 0 else None
    kn = [x.arg for x in a.kwonlyargs]
    if name in kn:
        return a.kw_defaults[kn.index(name)]
    return None


def rule_neutral_defaults(check, rule, family):
    """family: 'embed' | 'mask' | 'forwards' -- which callees this property is about"""
    repo = check.repo
    n = 0
    seen = set()
    for fi in repo.all_funcs():
        for call in [x for x in ast.walk(fi.node) if isinstance(x, ast.Call)]:
            callee = _resolve(repo, fi, call)
            if callee is None or CALLEES.get(callee.key) != family:
                continue
            pos, vararg, kwonly, kwarg = callee.params()
            star = any(isinstance(a, ast.Starred) for a in call.args)
            dstar = any(k.arg is None for k in call.keywords)
            npos = len([a for a in call.args if not isinstance(a, ast.Starred)])
            given = set(pos[:npos]) | set(k.arg for k in call.keywords if k.arg)
            for pname in pos + kwonly:
                if pname not in NEUTRAL or pname in given:
                    continue
                if pname in pos and star and pos.index(pname) >= npos:
                    pass        # may or may not be supplied by the caller's own *args
                d = _default_of(callee, pname)
                if d is None:
                    continue    # required parameter: the call would not bind without it
                n += 1
                key = '%s|default|%s' % (callee.key, pname)
                if key in seen:
                    continue
                seen.add(key)
                want = NEUTRAL[pname]
                site = '%s %s' % (callee.loc(callee.node), callee.key)
                if isinstance(d, ast.Constant) and d.value == want and type(d.value) is type(want):
                    check.holds(rule, site, '%s(%s=%r): the value callers that omit it rely on (e.g. %s in %s)'
                                % (callee.name, pname, want, norm(call)[:40], fi.key), key=key)
                else:
                    check.violation(rule, site, '%s() defaults %s to %s, but %s (%s) omits it and relies on the neutral value %r'
                                    % (callee.name, pname, norm(d), fi.key, norm(call)[:50], want), key=key,
                                    witness='%s(...) without %s must behave as with %s=%r' % (callee.name, pname, pname, want))
    check.floor(rule, 'omitted switch parameters at internal call sites', n, 1)


def rule_public_switch_defaults(check, rule, func_key, what):
    """The statement of the property is about the operation *called without switches* (`embed(a, b)`: "as if a function with the outer
    signature called the inner one with just f(*args, **kwargs)"; `mask(sig, n, *names)`: nothing hidden): the defaults of the public
    function's switches are their neutral values, whether or not a caller inside the package relies on them."""
    repo = check.repo
    fi = repo.func(func_key)
    check.analysed(fi)
    pos, vararg, kwonly, kwarg = fi.params()
    n = 0
    for pname in pos + kwonly:
        if pname not in NEUTRAL or pname in ('num_args', 'depth'):
            continue
        d = _default_of(fi, pname)
        if d is None:
            continue
        n += 1
        want = NEUTRAL[pname]
        key = '%s|public-default|%s' % (fi.key, pname)
        site = '%s %s' % (fi.loc(), fi.key)
        if isinstance(d, ast.Constant) and d.value == want and type(d.value) is type(want):
            check.holds(rule, site, '%s(%s=%r) by default: %s' % (fi.name, pname, want, what), key=key)
        else:
            check.violation(rule, site, '%s() defaults %s to %s: called without switches it no longer is %s' % (fi.name, pname, norm(d), what), key=key,
                            witness='%s(...) without %s' % (fi.name, pname))
    check.floor(rule, 'switches of %s' % fi.name, n, 2)
