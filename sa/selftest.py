"""Validation of the checker itself on scratch copies (DESIGN 5.4).

Corpus: /verif/selftest/*.json -- lists of variants
  {"id": ..., "file": "sigtools/_signatures.py", "edits": [[old, new], ...],
   "expect": {"C01": "VIOLATION" | "HOLDS" | "ANY" }, "rules": ["C01.R3"], "why": ...}
An edit replaces exactly one occurrence of `old`.  A variant whose anchor text
is no longer in the tree under test is skipped and counted.  Every variant is
applied to a copy of the non-test modules in a mktemp directory outside /repo
and /verif, which is removed right after the run.
"""
import glob
import io
import json
import os
import shutil
import sys
import tempfile
import time

VERIF = os.path.dirname(os.path.dirname(os.path.abspath(__file__)))


def load_corpus():
    out = []
    for path in sorted(glob.glob(os.path.join(VERIF, 'selftest', '*.json'))):
        with open(path) as f:
            data = json.load(f)
        for v in data.get('variants', []):
            v['_corpus'] = os.path.basename(path)
            out.append(v)
    return out


def make_copy(repo_path):
    d = tempfile.mkdtemp(prefix='sa-selftest-')
    dst = os.path.join(d, 'sigtools')
    os.makedirs(dst)
    src = os.path.join(repo_path, 'sigtools')
    for name in os.listdir(src):
        if name.endswith('.py'):
            shutil.copy(os.path.join(src, name), os.path.join(dst, name))
    return d


def apply_variant(v, root):
    """returns None if applied, else the reason it could not be"""
    edits = v.get('edits') or []
    files = {}
    for ed in edits:
        every = False
        if len(ed) == 4:
            fn, old, new, flag = ed
            every = flag == 'all'
        elif len(ed) == 3:
            fn, old, new = ed
        else:
            fn = v['file']
            old, new = ed
        path = os.path.join(root, fn)
        if not os.path.exists(path):
            return 'file %s missing' % fn
        if path not in files:
            with open(path) as f:
                files[path] = f.read()
        s = files[path]
        if s.count(old) != 1 and not (every and s.count(old) > 0):
            return 'anchor text occurs %d times in %s' % (s.count(old), fn)
        files[path] = s.replace(old, new)
    for path, s in files.items():
        try:
            compile(s, path, 'exec')
        except SyntaxError as e:
            return 'variant does not compile: %s' % e
        with open(path, 'w') as f:
            f.write(s)
    return None


def run_variant(args):
    v, repo_path = args
    sys.path.insert(0, VERIF)
    from sa.main import run_property
    d = make_copy(repo_path)
    res = {'id': v['id'], 'results': {}, 'skipped': None}
    try:
        why = apply_variant(v, d)
        if why is not None:
            res['skipped'] = why
            return res
        for pid, want in v['expect'].items():
            buf = io.StringIO()
            code = run_property(pid, d, 'quick', write_evidence=False, out=buf)
            text = buf.getvalue()
            got = {0: 'HOLDS', 1: 'VIOLATION', 2: 'INCONCLUSIVE'}[code]
            rules_hit = sorted(set(line.split(' [VIOLATION]')[0].split()[-1] for line in text.splitlines() if '[VIOLATION]' in line))
            ok = (want == 'ANY') or (got == want) or (want == 'SILENT' and got in ('HOLDS',)) or \
                 (want == 'NOVIOLATION' and got in ('HOLDS', 'INCONCLUSIVE'))
            if ok and want == 'VIOLATION' and v.get('rules'):
                ok = any(r in rules_hit for r in v['rules'])
            res['results'][pid] = {'want': want, 'got': got, 'ok': ok, 'rules_hit': rules_hit,
                                   'text': '' if ok else text[-3000:]}
    finally:
        shutil.rmtree(d, ignore_errors=True)
    return res


def run(repo_path, props=None, jobs=16, verbose=False, ids=None):
    corpus = load_corpus()
    work = []
    for v in corpus:
        if ids and v['id'] not in ids:
            continue
        exp = dict((p, w) for p, w in v['expect'].items() if props is None or p in props)
        if not exp:
            continue
        v2 = dict(v)
        v2['expect'] = exp
        work.append((v2, repo_path))
    t0 = time.time()
    if jobs > 1 and len(work) > 1:
        import multiprocessing
        with multiprocessing.Pool(min(jobs, len(work))) as pool:
            results = pool.map(run_variant, work, chunksize=1)
    else:
        results = [run_variant(w) for w in work]
    bad = []
    skipped = 0
    n = 0
    for r in results:
        if r['skipped']:
            skipped += 1
            if verbose:
                print('  SKIP %s: %s' % (r['id'], r['skipped']))
            continue
        for pid, x in r['results'].items():
            n += 1
            if not x['ok']:
                bad.append((r['id'], pid, x))
            elif verbose:
                print('  ok   %s %s -> %s %s' % (r['id'], pid, x['got'], ','.join(x['rules_hit'])))
    return {'variants': len(work), 'evaluations': n, 'skipped': skipped, 'bad': bad, 'wall': time.time() - t0}


def _seed_job(args):
    sid, pid, repo_path, want_rules = args
    import subprocess
    sys.path.insert(0, VERIF)
    from sa.main import run_property
    d = make_copy(repo_path)
    try:
        r = subprocess.run(['patch', '-p1', '-s', '-f', '-d', d, '-i', os.path.join(VERIF, 'seeded', sid, 'patch.diff')],
                           capture_output=True, text=True)
        if r.returncode != 0:
            return sid, None, []
        buf = io.StringIO()
        code = run_property(pid, d, 'quick', write_evidence=False, out=buf)
        rules_hit = sorted(set(line.split(' [VIOLATION]')[0].split()[-1] for line in buf.getvalue().splitlines() if '[VIOLATION]' in line))
        return sid, code, rules_hit
    finally:
        shutil.rmtree(d, ignore_errors=True)


def run_seeds(pid, repo_path, jobs=16):
    """the stored independent seeds (seeded/*/meta.json) that this property's check is recorded to report: each is
    applied to a scratch copy and must still be reported (a seed whose patch no longer applies is skipped)"""
    work = []
    base = os.path.join(VERIF, 'seeded')
    for sid in sorted(os.listdir(base)) if os.path.isdir(base) else []:
        mp = os.path.join(base, sid, 'meta.json')
        if not os.path.exists(mp):
            continue
        with open(mp) as f:
            meta = json.load(f)
        if pid in (meta.get('detected_by') or {}):
            work.append((sid, pid, repo_path, meta['detected_by'][pid]))
    if not work:
        return {'seeds': 0, 'reported': 0, 'skipped': 0, 'bad': []}
    if jobs > 1 and len(work) > 1:
        import multiprocessing
        with multiprocessing.Pool(min(jobs, len(work))) as pool:
            res = pool.map(_seed_job, work, chunksize=1)
    else:
        res = [_seed_job(w) for w in work]
    bad, skipped, rep = [], 0, 0
    for sid, code, rules_hit in res:
        if code is None:
            skipped += 1
        elif code == 1:
            rep += 1
        else:
            bad.append((sid, code))
    return {'seeds': len(work), 'reported': rep, 'skipped': skipped, 'bad': bad}


def run_for_property(pid, repo_path, modules=None):
    """thorough tier: the checker's own validation on scratch copies of the working tree -- the self-test corpora, the stored
    independent seeds and the behaviour-preserving variants of sa/equiv.py.  What it finds is about the *checker*, not about
    /repo: it is printed (SELF-VALIDATION lines) and recorded in the evidence, and it does not change the verdict on /repo
    (on a tree that has drifted from the pinned one a variant may legitimately stop applying or change its meaning)."""
    res = run(repo_path, props=[pid])
    print('== self-test %s: %d variants, %d evaluations, %d skipped (anchor absent), %d wrong, %.1fs'
          % (pid, res['variants'], res['evaluations'], res['skipped'], len(res['bad']), res['wall']))
    for vid, p, x in res['bad']:
        print('SELF-VALIDATION property=%s corpus variant %s: wanted %s got %s (rules %s)'
              % (pid, vid, x['want'], x['got'], ','.join(x['rules_hit'])))
    sr = run_seeds(pid, repo_path)
    print('== seeded changes %s: %d recorded as reported by this check, %d reported again, %d skipped (patch no longer applies), %d no longer reported'
          % (pid, sr['seeds'], sr['reported'], sr['skipped'], len(sr['bad'])))
    for sid, code in sr['bad']:
        print('SELF-VALIDATION property=%s seeded change %s is no longer reported (exit %s)' % (pid, sid, code))
    from . import equiv
    t0 = time.time()
    er = equiv.run_for_property(pid, repo_path, modules=modules)
    print('== behaviour-preserving variants %s: %d applicable, %d silent, %d not silent, %.1fs'
          % (pid, er['variants'], er['silent'], len(er['not_silent']), time.time() - t0))
    for b in er['not_silent']:
        print('SELF-VALIDATION property=%s behaviour-preserving variant %s of %s:%s is not silent: %s'
              % (pid, b['transformation'], b['module'], b['function'], str(b['detail'])[:200]))
    LAST.clear()
    LAST.update({'corpus_variants': res['variants'], 'corpus_evaluations': res['evaluations'], 'corpus_skipped': res['skipped'],
                 'corpus_wrong': len(res['bad']), 'seeds_recorded': sr['seeds'], 'seeds_reported': sr['reported'],
                 'seeds_skipped': sr['skipped'], 'seeds_not_reported': [b[0] for b in sr['bad']],
                 'equivalent_variants': er['variants'], 'equivalent_variants_silent': er['silent'],
                 'equivalent_variants_not_silent': er['not_silent'], 'equivalence_transformations': er['transformations']})
    return 2 if (res['bad'] or sr['bad'] or er['not_silent']) else 0


LAST = {}


if __name__ == '__main__':
    import argparse
    ap = argparse.ArgumentParser()
    ap.add_argument('--repo', default='/repo')
    ap.add_argument('--props', nargs='*')
    ap.add_argument('--ids', nargs='*')
    ap.add_argument('-v', action='store_true')
    ap.add_argument('-j', type=int, default=16)
    a = ap.parse_args()
    sys.path.insert(0, VERIF)
    res = run(a.repo, props=a.props, jobs=a.j, verbose=a.v, ids=a.ids)
    print('variants=%d evaluations=%d skipped=%d wrong=%d wall=%.1fs'
          % (res['variants'], res['evaluations'], res['skipped'], len(res['bad']), res['wall']))
    for vid, p, x in res['bad']:
        print('WRONG %s %s: wanted %s got %s rules=%s' % (vid, p, x['want'], x['got'], x['rules_hit']))
        if a.v:
            print(x['text'])
    sys.exit(1 if res['bad'] else 0)
