"""Def-use rule "a derived collection must follow its source" (DESIGN E3, C03.R2) at statement level.

A *positional index* is a mapping built from `enumerate(X)` over a local list X whose values are the positions
(`dict((p.name, i) for i, p in enumerate(X))`, `{p.name: i for i, p in enumerate(X)}`).  Positions are invalidated by
every removal from / insertion into X and by every rebinding of X to something other than an empty display.  The rule:
between the derivation and any later use of the index there must be no such change of X, unless the index is
re-derived after the change on the way to the use.  (An index of the *objects*, `dict((p.name, p) for p in X)`, used
through `X.index(D[name])`, is immune to removals and is not constrained by this rule.)

Pure syntax-tree analysis: statement order, loop back edges and if/else exclusivity; callee summaries "mutates its
k-th parameter / an element of its *args" are computed from the package source.
"""
import ast

from .index import norm

MUT = frozenset(['pop', 'insert', 'remove', 'clear', 'sort', 'reverse', 'append', 'extend', '__delitem__', '__setitem__'])


def _parents(root):
    for n in ast.walk(root):
        for c in ast.iter_child_nodes(n):
            c._dparent = n


def _chain(node, root):
    out = []
    while node is not None and node is not root:
        out.append(node)
        node = getattr(node, '_dparent', None)
    out.append(root)
    return out


def _stmt_of(node, root):
    """innermost statement containing node"""
    while node is not None and not isinstance(node, ast.stmt):
        node = getattr(node, '_dparent', None)
    return node


def _block_pos(stmt):
    """(parent, fieldname, index) of a statement in its block"""
    p = getattr(stmt, '_dparent', None)
    if p is None:
        return None
    for f in ('body', 'orelse', 'finalbody', 'handlers'):
        lst = getattr(p, f, None)
        if isinstance(lst, list) and stmt in lst:
            return p, f, lst.index(stmt)
    return None


def _order(a, b, root):
    """relation of statement-level nodes a and b: 'before' (a executes before b on some path without a loop),
    'after', 'exclusive' (different arms of one if/try), plus the innermost loop containing both (or None)"""
    ca, cb = _chain(a, root), _chain(b, root)
    sa_ = set(id(x) for x in ca)
    lca = next(x for x in cb if id(x) in sa_)
    loop = None
    for x in cb[cb.index(lca):]:
        if isinstance(x, (ast.For, ast.While, ast.AsyncFor)):
            loop = x
            break
    # children of the lca on each side
    def child(chain):
        i = chain.index(lca)
        return chain[i - 1] if i > 0 else None
    xa, xb = child(ca), child(cb)
    if xa is None or xb is None:
        return 'nested', loop
    fa = fb = None
    for f, v in ast.iter_fields(lca):
        if isinstance(v, list):
            if xa in v:
                fa = (f, v.index(xa))
            if xb in v:
                fb = (f, v.index(xb))
        else:
            if v is xa:
                fa = (f, -1)
            if v is xb:
                fb = (f, -1)
    if fa is None or fb is None:
        return 'unknown', loop
    if fa[0] != fb[0]:
        if isinstance(lca, ast.If) and set([fa[0], fb[0]]) == set(['body', 'orelse']):
            return 'exclusive', loop
        if isinstance(lca, ast.If) and fa[0] == 'test':
            return 'before', loop
        if isinstance(lca, (ast.For, ast.AsyncFor)) and fa[0] == 'iter':
            return 'before', loop
        if isinstance(lca, (ast.For, ast.AsyncFor, ast.While)) and fb[0] == 'orelse' and fa[0] == 'body':
            return 'before', loop
        return 'unknown', loop
    return ('before' if fa[1] < fb[1] else 'after' if fa[1] > fb[1] else 'same'), loop


def mutating_params(repo):
    """func key -> set of parameter positions (int) or '*' (an element of *args) the function mutates in place"""
    out = {}
    for fi in repo.all_funcs():
        pos, vararg, kwonly, kwarg = fi.params()
        elem_of = {}       # loop variable -> parameter it iterates
        for n in ast.walk(fi.node):
            if isinstance(n, (ast.For, ast.AsyncFor)) and isinstance(n.target, ast.Name) and isinstance(n.iter, ast.Name):
                elem_of[n.target.id] = n.iter.id
        hits = set()
        for n in ast.walk(fi.node):
            name = None
            if isinstance(n, ast.Call) and isinstance(n.func, ast.Attribute) and n.func.attr in MUT and isinstance(n.func.value, ast.Name):
                name = n.func.value.id
            elif isinstance(n, ast.Delete):
                for t in n.targets:
                    if isinstance(t, ast.Subscript) and isinstance(t.value, ast.Name):
                        name = t.value.id
            elif isinstance(n, (ast.Assign, ast.AugAssign)):
                for t in (n.targets if isinstance(n, ast.Assign) else [n.target]):
                    if isinstance(t, ast.Subscript) and isinstance(t.value, ast.Name):
                        name = t.value.id
            if name is None:
                continue
            # a parameter name that the function rebinds (`names = set(names)`) is its own object from there on
            if any(isinstance(a_, ast.Assign) and any(isinstance(t_, ast.Name) and t_.id == name for t_ in a_.targets) for a_ in ast.walk(fi.node)):
                continue
            if name in pos:
                hits.add(pos.index(name))
            elif name in elem_of and elem_of[name] == vararg:
                hits.add('*')
        if hits:
            out[fi.key] = hits
    return out


def _resolve_call(repo, fi, call):
    f = call.func
    if isinstance(f, ast.Name):
        r = repo.resolve_global(fi.module, f.id)
        if r is not None and r[0] == 'func':
            return r[1]
    return None


def positional_indexes(fnode):
    """[(assign stmt, index name, source list name)] for positional indexes derived in this function"""
    out = []
    for n in ast.walk(fnode):
        if not isinstance(n, ast.Assign) or len(n.targets) != 1 or not isinstance(n.targets[0], ast.Name):
            continue
        v = n.value
        comp = None
        if isinstance(v, ast.Call) and isinstance(v.func, ast.Name) and v.func.id in ('dict', 'OrderedDict') and len(v.args) == 1 \
                and isinstance(v.args[0], (ast.GeneratorExp, ast.ListComp)):
            comp = v.args[0]
            val = comp.elt.elts[1] if isinstance(comp.elt, ast.Tuple) and len(comp.elt.elts) == 2 else None
        elif isinstance(v, ast.DictComp):
            comp = v
            val = v.value
        if comp is None or val is None or len(comp.generators) != 1:
            continue
        g = comp.generators[0]
        it = g.iter
        if not (isinstance(it, ast.Call) and isinstance(it.func, ast.Name) and it.func.id == 'enumerate' and it.args
                and isinstance(it.args[0], ast.Name)):
            continue
        if not (isinstance(g.target, ast.Tuple) and len(g.target.elts) == 2 and isinstance(g.target.elts[0], ast.Name)):
            continue
        idxvar = g.target.elts[0].id
        if any(isinstance(x, ast.Name) and x.id == idxvar for x in ast.walk(val)):
            out.append((n, n.targets[0].id, it.args[0].id))
    return out


def _changes_of(repo, fi, X, mut_params):
    """nodes (statement level granularity is recovered later) that remove from / insert into / rebind list X"""
    out = []
    for n in ast.walk(fi.node):
        if isinstance(n, ast.Call):
            if isinstance(n.func, ast.Attribute) and isinstance(n.func.value, ast.Name) and n.func.value.id == X and n.func.attr in MUT:
                out.append((n, '%s.%s()' % (X, n.func.attr)))
                continue
            callee = _resolve_call(repo, fi, n)
            if callee is not None and callee.key in mut_params:
                hits = mut_params[callee.key]
                cpos = callee.params()[0]
                for i, a in enumerate(n.args):
                    if isinstance(a, ast.Name) and a.id == X and ((i in hits) or (i >= len(cpos) and '*' in hits)):
                        out.append((n, '%s(..., %s, ...) removes elements from its argument' % (callee.name, X)))
        elif isinstance(n, ast.Delete):
            for t in n.targets:
                if isinstance(t, ast.Subscript) and isinstance(t.value, ast.Name) and t.value.id == X:
                    out.append((n, 'del %s[...]' % X))
        elif isinstance(n, (ast.Assign, ast.AugAssign)):
            tg = n.targets if isinstance(n, ast.Assign) else [n.target]
            flat = []
            for t in tg:
                flat.extend(t.elts if isinstance(t, (ast.Tuple, ast.List)) else [t])
            for k, t in enumerate(flat):
                if isinstance(t, ast.Subscript) and isinstance(t.value, ast.Name) and t.value.id == X:
                    out.append((n, '%s[...] = ...' % X))
                if isinstance(t, ast.Name) and t.id == X:
                    val = n.value
                    if isinstance(val, ast.Tuple) and len(tg) == 1 and isinstance(tg[0], (ast.Tuple, ast.List)) and len(val.elts) == len(flat):
                        val = val.elts[k]
                    if isinstance(val, (ast.List, ast.Tuple)) and not val.elts:
                        continue        # emptied: no position of it can be looked up meaningfully afterwards
                    out.append((n, '%s = %s' % (X, norm(val)[:40])))
    return out


def rule_positional_index(check, rule, funckeys):
    """C03.R2 (statement-level form): positional indexes stay valid until used"""
    repo = check.repo
    mut_params = mutating_params(repo)
    n_idx = 0
    for key in funckeys:
        fi = repo.func(key, required=False)
        if fi is None:
            continue
        _parents(fi.node)
        for dstmt, D, X in positional_indexes(fi.node):
            n_idx += 1
            uses = [n for n in ast.walk(fi.node) if isinstance(n, ast.Name) and n.id == D and isinstance(n.ctx, ast.Load)]
            rederive = [s for s, d2, x2 in positional_indexes(fi.node) if d2 == D]
            changes = _changes_of(repo, fi, X, mut_params)
            st = '%s %s' % (fi.loc(dstmt), fi.key)
            bad = []
            for ch, what in changes:
                cs = _stmt_of(ch, fi.node)
                # the change must come after some derivation (or share a loop with it)
                for u in uses:
                    us = _stmt_of(u, fi.node)
                    rel, loop = _order(cs, us, fi.node)
                    reaches = rel == 'before' or (loop is not None and rel in ('after', 'same', 'before'))
                    if rel == 'exclusive' and loop is None:
                        reaches = False
                    if not reaches:
                        continue
                    # a re-derivation after the change and before the use (same block as the change or an enclosing one)
                    fixed = False
                    for r in rederive:
                        r1, l1 = _order(cs, r, fi.node)
                        r2, l2 = _order(r, us, fi.node)
                        if r1 in ('before',) and (r2 == 'before' or (l2 is not None and r2 in ('after', 'same'))):
                            # the re-derivation must not be conditional relative to the change
                            pb, pr = _block_pos(cs), _block_pos(r)
                            if pb is not None and pr is not None and pb[0] is pr[0] and pb[1] == pr[1]:
                                fixed = True
                            elif pr is not None and any(pr[0] is a for a in _chain(cs, fi.node)):
                                fixed = True
                    # derivation precedes the change?
                    d_rel, d_loop = _order(dstmt, cs, fi.node)
                    if d_rel not in ('before',) and d_loop is None:
                        continue
                    if not fixed:
                        bad.append((ch, what, u))
            k = '%s|posindex|%s<-%s' % (fi.key, D, X)
            if bad:
                seen = set()
                for ch, what, u in bad:
                    kk = k + '|' + what
                    if kk in seen:
                        continue
                    seen.add(kk)
                    check.violation(rule, '%s %s' % (fi.loc(ch), fi.key),
                                    'the positions recorded in %r (derived from enumerate(%s) at line %d) are stale when it is used at line %d: '
                                    '%s happens in between and the index is not re-derived' % (D, X, dstmt.lineno, u.lineno, what),
                                    key=kk, witness="mask(s('a, b, c, d=4, *, k=5, **kw'), 1, 'c') removes the wrong parameter")
            else:
                check.holds(rule, st, 'positional index %r of %s: no removal/insertion/rebinding of the list reaches a use without re-derivation'
                            % (D, X), key=k)
    return n_idx


LAZY_BUILTINS = ('map', 'filter', 'zip', 'iter', 'enumerate', 'reversed')


LAZY_ITERTOOLS = frozenset(['chain', 'from_iterable', 'islice', 'starmap', 'takewhile', 'dropwhile', 'zip_longest', 'izip', 'imap', 'ifilter',
                            'compress', 'filterfalse', 'accumulate', 'pairwise'])


def _is_generator_function_call(repo, fi, call):
    """the call is to a generator function of the package (module-level, or a method of the same class through self)"""
    target = None
    if isinstance(call.func, ast.Name):
        r = repo.resolve_global(fi.module, call.func.id)
        if r is not None and r[0] == 'func':
            target = r[1]
    elif isinstance(call.func, ast.Attribute) and isinstance(call.func.value, ast.Name) and fi.cls is not None \
            and fi.node.args.args and call.func.value.id == fi.node.args.args[0].arg:
        target = repo.lookup_method(fi.cls, call.func.attr)
    if target is None:
        return False
    for n in ast.walk(target.node):
        if isinstance(n, (ast.Yield, ast.YieldFrom)):
            return True
    return False


def rule_lazy_iterators(check, rule, module_names=('_signatures', '_autoforwards', 'modifiers', '_util', 'specifiers', 'wrappers')):
    """A generator expression (or map/filter/zip/... object) reads its source container when it is *consumed*, not where it
    is written.  If the container is emptied or edited between the two, the consumer sees the edited container: a
    "compute, clear, then store" sequence stores nothing.  Rule: no removal from / clearing of / rebinding-in-place of a
    container between the creation of a lazy iterator over it and the first use of that iterator.  Zero-expected on the
    pinned tree (lazy iterators are consumed in the statement that creates them); the self-test keeps a positive example."""
    repo = check.repo
    n = 0
    found = 0
    for fi in repo.all_funcs():
        if fi.module.name not in module_names:
            continue
        _parents(fi.node)
        for stmt in ast.walk(fi.node):
            if not (isinstance(stmt, ast.Assign) and len(stmt.targets) == 1 and isinstance(stmt.targets[0], ast.Name)):
                continue
            v = stmt.value
            lazy = isinstance(v, ast.GeneratorExp) or (isinstance(v, ast.Call) and isinstance(v.func, ast.Name) and v.func.id in LAZY_BUILTINS) \
                or (isinstance(v, ast.Call) and isinstance(v.func, ast.Attribute) and norm(v.func).split('.')[0] in ('itertools', 'chain')
                    and v.func.attr in LAZY_ITERTOOLS) \
                or (isinstance(v, ast.Call) and _is_generator_function_call(repo, fi, v))
            if not lazy:
                continue
            name = stmt.targets[0].id
            if isinstance(v, ast.GeneratorExp):
                srcs = [norm(g.iter) for g in v.generators]
            else:
                srcs = [norm(a) for a in v.args]
            srcs = [s for s in srcs if s and not s.startswith(('(', '['))]
            pos = _block_pos(stmt)
            if pos is None:
                continue
            parent, field, idx = pos
            later = getattr(parent, field)[idx + 1:]
            n += 1
            use_at = None
            for j, st_ in enumerate(later):
                if any(isinstance(x, ast.Name) and x.id == name and isinstance(x.ctx, ast.Load) for x in ast.walk(st_)):
                    use_at = j
                    break
            if use_at is None:
                continue
            for st_ in later[:use_at]:
                hit = None
                for x in ast.walk(st_):
                    if isinstance(x, (ast.Assign, ast.AugAssign)):
                        for t in (x.targets if isinstance(x, ast.Assign) else [x.target]):
                            if isinstance(t, ast.Subscript) and norm(t.value) in srcs:
                                hit = (x, '%s[...] = ...' % norm(t.value))
                    elif isinstance(x, ast.Delete):
                        for t in x.targets:
                            if isinstance(t, ast.Subscript) and norm(t.value) in srcs:
                                hit = (x, 'del %s[...]' % norm(t.value))
                    elif isinstance(x, ast.Call) and isinstance(x.func, ast.Attribute) and x.func.attr in MUT and norm(x.func.value) in srcs:
                        hit = (x, '%s.%s()' % (norm(x.func.value), x.func.attr))
                if hit is not None:
                    found += 1
                    check.violation(rule, '%s %s' % (fi.loc(hit[0]), fi.key), 'the lazy iterator %r over %s (line %d) is consumed at line %d, after %s: it '
                                    'yields what the container holds *then* -- what was meant to be carried over is lost'
                                    % (name, ', '.join(srcs), stmt.lineno, later[use_at].lineno, hit[1]), key='%s|lazy|%s' % (fi.key, name),
                                    witness="merge(s('a, b'), s('a, *args')) must be (a, b, /), not (b, /)")
    if not found:
        check.holds(rule, 'sigtools/_signatures.py:0 _signatures', 'no lazy iterator is consumed after its source container was edited (%d lazy iterators '
                    'bound to names)' % n, key='lazy|none', nontrivial=False)


MEMO_DECORATORS = ('lru_cache', 'cache', 'cached_property')


def rule_no_memoisation(check, rule, module_names, why):
    """No function of the named modules is wrapped in functools.lru_cache / cache / cached_property.  Such a memo is keyed by
    *equality and hash* of the arguments (`1 == True == 1.0`, equal-but-different signatures share an entry), raises for
    unhashable arguments, and hands the same mutable result object to every caller -- the outcome of a call then depends on
    the calls made before it.  Zero-expected on the pinned tree; the self-test keeps a positive example."""
    repo = check.repo
    n = 0
    hits = 0
    for fi in repo.all_funcs():
        if fi.module.name not in module_names:
            continue
        n += 1
        for d in fi.decorators:
            txt = norm(d.func if isinstance(d, ast.Call) else d)
            if txt.split('.')[-1] in MEMO_DECORATORS:
                hits += 1
                check.violation(rule, '%s %s' % (fi.loc(d), fi.key), '%s is memoised with %s: %s' % (fi.qualname, txt, why),
                                key='%s|memoised' % fi.key,
                                witness='func_from_sig(sig(a, b=1)) then func_from_sig(sig(a, b=True)) returns the first function')
    if not hits:
        check.holds(rule, 'sigtools/%s.py:0 %s' % (module_names[0], module_names[0]), 'none of the %d functions of %s is wrapped in a memoising decorator'
                    % (n, ', '.join(module_names)), key='memoised|none|%s' % module_names[0], nontrivial=False)


def rule_partial_targets_pure(check, rule, module_names):
    """A function handed to `functools.partial(F, <bound arguments>)` is called once per use of the partial object with the
    *same* bound arguments.  If F edits one of them in place (`exceptions.remove(...)`), the second use sees what the first
    one left: a decorator object applied to two functions treats the second differently.  F must work on a copy."""
    repo = check.repo
    mut = mutating_params(repo)
    n = 0
    for fi in repo.all_funcs():
        if fi.module.name not in module_names:
            continue
        for c in [x for x in ast.walk(fi.node) if isinstance(x, ast.Call) and norm(x.func).split('.')[-1] == 'partial' and x.args]:
            tgt = None
            if isinstance(c.args[0], ast.Name):
                r = repo.resolve_global(fi.module, c.args[0].id)
                if r is not None and r[0] == 'func':
                    tgt = r[1]
            if tgt is None:
                continue
            n += 1
            bound = len(c.args) - 1
            hits = sorted(i for i in mut.get(tgt.key, ()) if isinstance(i, int) and i < bound)
            key = '%s|partial-target|%s' % (fi.key, tgt.key)
            if hits:
                pname = tgt.params()[0][hits[0]]
                check.violation(rule, '%s %s' % (fi.loc(c), fi.key), '%s is bound into a reusable partial of %s, which edits its parameter %r in place: every use '
                                'of the same partial object after the first one finds it already consumed'
                                % (norm(c.args[hits[0] + 1])[:30], tgt.name, pname), key=key,
                                witness="deco = autokwoargs(exceptions=['c']); deco(f1); deco(f2): f2's exception is ignored")
            else:
                check.holds(rule, '%s %s' % (fi.loc(c), fi.key), 'partial(%s, ...): the target does not edit its bound arguments in place' % tgt.name, key=key)
    check.floor(rule, 'partial objects built from package functions', n, 2)


def rule_partial_function_explicit(check, rule):
    """C06.R11 (D51, known): for `functools.partial(f, ...)` discovery takes the wrapped function off the front of the list of positional
    values and tells forwards() that one explicit positional argument less was passed (`len(<explicit arguments>) - using_partial`).  The
    two agree only when the function was written out as the first explicit argument.  When the list it is popped from also holds the
    values of `*args` (it was extended with them) and nothing establishes that an explicit argument exists, `partial(*args, **kwargs)` with a
    known `*args` value pops the function out of the star value and the count becomes -1: mask(sig, -1) consumes every positional
    parameter of the callee and the result is neither the declared forwarding nor the plain signature."""
    import ast
    from .index import norm
    from .rules_classes import dominated_by
    repo = check.repo
    fi = repo.func('_autoforwards:forward_signatures')
    check.analysed(fi)
    pops = [x for x in ast.walk(fi.node) if isinstance(x, ast.Call) and isinstance(x.func, ast.Attribute) and x.func.attr == 'pop'
            and len(x.args) == 1 and isinstance(x.args[0], ast.Constant) and x.args[0].value == 0 and isinstance(x.func.value, ast.Name)]
    n = 0
    for pop in pops:
        lst = pop.func.value.id
        extended = [x for x in ast.walk(fi.node) if isinstance(x, ast.Call) and isinstance(x.func, ast.Attribute) and x.func.attr == 'extend'
                    and isinstance(x.func.value, ast.Name) and x.func.value.id == lst and x.lineno < pop.lineno]
        if not extended:
            continue
        # the count handed to forwards(): `len(A) - <flag>`
        for c in ast.walk(fi.node):
            if not (isinstance(c, ast.Call) and norm(c.func).endswith('forwards') and len(c.args) >= 3):
                continue
            cnt = c.args[2]
            if not (isinstance(cnt, ast.BinOp) and isinstance(cnt.op, ast.Sub) and isinstance(cnt.left, ast.Call) and norm(cnt.left.func) == 'len'
                    and cnt.left.args and isinstance(cnt.left.args[0], ast.Name)):
                continue
            n += 1
            explicit = cnt.left.args[0].id
            key = 'partial-func-from-star|%s' % fi.key
            st = '%s %s' % (fi.loc(pop), fi.key)
            guarded = explicit == lst or dominated_by(fi, pop, lambda t, p: p and norm(t) in (explicit, 'len(%s)' % explicit, 'len(%s) > 0' % explicit))
            if guarded:
                check.holds(rule, st, 'the function of partial() is taken from the explicit arguments (%s is known not to be empty)' % explicit, key=key)
            else:
                check.violation(rule, st, 'the function of partial() is popped from %s, which also holds the values of *args, while the count handed to '
                                'forwards() is %s: for partial(*args, **kwargs) with a known *args value the count is -1 and mask() consumes every '
                                'positional parameter of the callee' % (lst, norm(cnt)), key=key,
                                witness='def make(*args, **kwargs): return partial(*args, **kwargs)\ndef wrapper(p, *args, **kwargs): return make(callee, '
                                        '*args, **kwargs)  -- sigtools.signature(wrapper) is (p, *rest, z=None) for callee(x, y, *rest, z)')
    check.floor(rule, 'partial function/count pairs in forward_signatures', n, 1)


def rule_partial_binding_validated(check, rule):
    """C19.R6 (D59): what discovery returns narrows parameter kinds -- a regular parameter of a forwarding wrapper comes out positional-only
    when the callee has positional-only parameters -- and _mask lets a keyword named like a *positional-only* consumed parameter through to
    **kwargs (D58).  Masking the discovered signature with what a partial object binds therefore accepts bindings the real function
    rejects (partial(w, g, func=g) for w(func, *args, **kwargs)).  autoforwards_partial first lets plain retrieval of the partial object
    itself -- the real parameter kinds -- decide whether the binding is possible, and falls back when it is not."""
    import ast
    from .index import norm
    from .rules_escape import get_escape, _handler_covers
    repo = check.repo
    cg, es = get_escape(check)
    fi = repo.func('_autoforwards:autoforwards_partial')
    check.analysed(fi)
    par = fi.params()[0][0]
    from .callgraph import resolve_once
    plain = [c for c in ast.walk(fi.node) if isinstance(c, ast.Call) and norm(c.func).endswith('_signatures.signature') and c.args
             and norm(resolve_once(fi.node, c.args[0])) in (par, '%s.func' % par)]
    plain_names = set(t.id for a in ast.walk(fi.node) if isinstance(a, ast.Assign) and a.value in plain for t in a.targets if isinstance(t, ast.Name))
    all_masks = [c for c in ast.walk(fi.node) if isinstance(c, ast.Call) and norm(c.func).split('.')[-1] in ('_mask', 'mask')]
    # (the mask of the function's own signature *is* the validation; the masks judged are those of anything else)
    validating = [c for c in all_masks if c.args and ((isinstance(c.args[0], ast.Name) and c.args[0].id in plain_names) or
                                                       (isinstance(resolve_once(fi.node, c.args[0]), ast.Name) and resolve_once(fi.node, c.args[0]).id in plain_names))]
    masks = [c for c in all_masks if c not in validating]
    plain = [c for c in plain if norm(resolve_once(fi.node, c.args[0])) == par] + validating
    key = 'partial-binding-validated'
    st = '%s %s' % (fi.loc(), fi.key)
    if not masks:
        check.holds(rule, st, 'the discovered signature is not masked here', key=key, nontrivial=False)
        return
    ok = [c for c in plain if c.lineno < min(m.lineno for m in masks) and _handler_covers(es, fi, c, ['ValueError'])]
    if ok:
        check.holds(rule, '%s %s' % (fi.loc(ok[0]), fi.key), 'the binding is validated against the real parameters (plain retrieval of the partial object) '
                    'before the discovered signature is masked', key=key)
    else:
        check.violation(rule, '%s %s' % (fi.loc(masks[0]), fi.key), 'the discovered signature, whose parameter kinds are narrowed, is masked with what the '
                        'partial binds without the real parameters having had their say: a keyword naming a parameter that discovery made '
                        'positional-only is let through to **kwargs', key=key,
                        witness='def w(func, *args, **kwargs): return func(*args, **kwargs); def g(a, /, **kwargs): ...; '
                                'sigtools.signature(partial(w, g, func=g)) returns a signature although no call of it succeeds')


def rule_narrowed_kind_compared(check, rule):
    """C19.R6b (round 8): autoforwards_partial gives up when a bound keyword names a parameter whose kind *discovery changed* -- positional-only
    in the discovered signature, regular in the function's own def -- because masking would mistake it for one the keyword cannot reach.
    That is a comparison of two kinds.  Testing the discovered kind alone also gives up for a parameter that really is positional-only
    (where the keyword rightly goes to **kwargs), and the partial object falls back to a signature that accepts what it rejects."""
    import ast
    from .index import norm
    repo = check.repo
    fi = repo.func('_autoforwards:autoforwards_partial')
    check.analysed(fi)
    key = 'narrowed-kind-compared'
    tests = []
    class _T(object):
        pass
    for lp in ast.walk(fi.node):
        if isinstance(lp, ast.For) and 'keywords' in norm(lp.iter):
            for r in ast.walk(lp):
                if not isinstance(r, ast.Raise):
                    continue
                # every test on the way from the loop to the raise (an `and` may be written as nested ifs)
                chain = []
                t_ = r
                while getattr(t_, '_parent', None) is not None and t_ is not lp:
                    par_ = t_._parent
                    if isinstance(par_, ast.If) and t_ in par_.body:
                        chain.append(par_)
                    # guard clauses before it in the same block (`if not c: continue`) are tests on the way too
                    for field in ('body', 'orelse'):
                        blk = getattr(par_, field, None)
                        if isinstance(blk, list) and t_ in blk:
                            for s_ in blk[:blk.index(t_)]:
                                if isinstance(s_, ast.If) and not s_.orelse and isinstance(s_.body[-1], (ast.Continue, ast.Break, ast.Return)):
                                    chain.append(s_)
                    t_ = par_
                if chain:
                    x = _T()
                    x.test = ast.BoolOp(op=ast.And(), values=[c.test for c in chain]) if len(chain) > 1 else chain[0].test
                    x.lineno = chain[-1].lineno
                    tests.append(x)
    if not tests:
        masks_discovered = any(isinstance(c, ast.Call) and norm(c.func).split('.')[-1] in ('_mask', 'mask') for c in ast.walk(fi.node))
        if masks_discovered:
            check.violation(rule, '%s %s' % (fi.loc(), fi.key), 'the discovered signature is masked with the partial\'s keywords without an exit for a keyword '
                            'that names a parameter discovery narrowed to positional-only: it would be taken for one that goes to **kwargs', key=key,
                            witness='def w(x, *args, **kwargs): return inner(*args, **kwargs); def inner(a=1, /, **kwargs): ...; partial(w, x=0)')
        else:
            check.holds(rule, '%s %s' % (fi.loc(), fi.key), 'nothing is masked in autoforwards_partial', key=key, nontrivial=False)
        return
    for t in tests:
        kinds = [c for c in ast.walk(t.test) if isinstance(c, ast.Compare) and all(isinstance(o, ast.Attribute) and o.attr == 'kind'
                                                                                  for o in [c.left] + list(c.comparators))]
        two_sigs = [c for c in kinds if len(set(norm(o.value).split('.parameters')[0] for o in [c.left] + list(c.comparators))) >= 2]
        st = '%s:%d %s' % (fi.module.relpath, t.lineno, fi.key)
        if two_sigs:
            check.holds(rule, st, 'the per-keyword exit compares the discovered kind with the kind in the function\'s own def', key=key)
        else:
            check.violation(rule, st, 'the per-keyword exit (%s) does not compare the discovered kind with the real one: it is also taken for a parameter that '
                            'really is positional-only, and the partial object falls back to a signature that accepts what it rejects'
                            % norm(t.test)[:70], key=key,
                            witness='def w(f, *args, **kwargs): return f(*args, **kwargs); def g(key, /, **kwargs): ...; partial(w, g, key=1)')
