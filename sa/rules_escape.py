"""Exception discipline of the algebra and of retrieval (C07, C15, C06.R3)."""
import ast

from .index import Inconclusive, norm
from .interp import Interp, Policy, show, show_lit, walk_effects, K, NONE, subterms, mentions
from .callgraph import CallGraph, Escape, _own_nodes, local_names, norm_locals, raise_key, resolve_once

ALGEBRA_ENTRIES = ['_signatures:merge', '_signatures:embed', '_signatures:mask', '_signatures:_mask', '_signatures:forwards']
PUBLIC_OPS = ['_signatures:merge', '_signatures:embed', '_signatures:mask', '_signatures:forwards',
              '_signatures:sort_params', '_signatures:apply_params']

# "inspect raises the same type for the same object" (DESIGN C07.R1): reviewed, one reason each
REVIEWED_VIA = {
    # (two entries were removed in round 6: mask() inside autoforwards_method / autoforwards_partial is applied to the *discovered*
    # signature, which can lack the positional slot or the keyword although the object's own signature -- what inspect looks at --
    # has them: D33.  Only the plain retrieval below masks the object's own signature.)
    '_signatures:signature|call:_mask':
        "plain retrieval of a functools.partial with surplus/unknown bound arguments: inspect.signature raises ValueError too",
}

# explicit non-ValueError raises that may escape the public algebra (DESIGN C15.R2): reviewed, one reason each
REVIEWED_RAISES = {
    # (local variables and parameters are written `$`: the keys survive a renaming)
    '_signatures:merge|raise:$': 'precondition n >= 1 (assert)',
    '_signatures:embed|raise:$': 'precondition n >= 1 (assert)',
    '_signatures:sort_params|raise:isinstance($, UpgradedSignature)': 'post-upgrade type assertion, cannot fail',
    "_signatures:sort_params|raise:AssertionError('Unknown param kind {0}')": 'inspect has exactly five parameter kinds',
    '_signatures:UpgradedSignature.replace|raise:isinstance($, type(self))': 'inspect.Signature.replace constructs type(self)',
    '_signatures:UpgradedParameter.replace|raise:isinstance($, type(self))': 'inspect.Parameter.replace constructs type(self)',
    '_signatures:UpgradedAnnotation.source_value|raise:NotImplementedError': 'abstract method',
}

REVIEWED_CONSTRUCTS = dict((k.split('|', 1)[1], v) for k, v in REVIEWED_RAISES.items() if 'AssertionError(' in k or 'NotImplementedError' in k)

_shared = {}


def get_escape(check):
    key = id(check.repo)
    if key not in _shared:
        cg = CallGraph(check.repo)
        es = Escape(check.repo, cg, tag_entries=ALGEBRA_ENTRIES)
        _shared.clear()
        _shared[key] = (cg, es)
    return _shared[key]


def site_of(fi, node):
    return '%s %s' % (fi.loc(node), fi.key)


def is_valueerror(es, cls):
    if cls in ('?', '*'):
        return None
    return es.interp.exc_subclass(cls, 'ValueError')


def rule_explicit_raises(check, rule):
    """C15.R2: explicit raises escaping the public algebra are ValueErrors (or reviewed)"""
    cg, es = get_escape(check)
    n = 0
    seen = set()
    for op in PUBLIC_OPS:
        fi = check.repo.func(op)
        check.analysed(fi)
        for k in cg.closure([op]):
            f2 = check.repo.func(k, required=False)
            if f2 is not None:
                check.analysed(f2)
        for x in es.of(op):
            if x.kind not in ('raise', 'assert'):
                continue
            ident = (op, x.cls, x.origin)
            if ident in seen:
                continue
            seen.add(ident)
            n += 1
            key = '%s|escapes:%s' % (op, x.origin)
            st = site_of(x.func, x.node)
            v = is_valueerror(es, x.cls)
            if v is True:
                check.holds(rule, st, '%s may escape %s(): a ValueError' % (x.cls.split(':')[-1], op.split(':')[-1]), key=key)
            elif x.origin in REVIEWED_RAISES or x.origin.split('|', 1)[-1] in REVIEWED_CONSTRUCTS:
                # (a reviewed raise keeps its review when it moves into another function: the key is the construct)
                why_ = REVIEWED_RAISES.get(x.origin) or REVIEWED_CONSTRUCTS[x.origin.split('|', 1)[-1]]
                check.holds(rule, st, '%s may escape %s(): reviewed (%s)' % (x.cls, op.split(':')[-1], why_), key=key)
            elif v is None:
                check.inconclusive(rule, st, 'class of the exception raised here is not resolved: %s' % x.origin, key=key)
            else:
                check.violation(rule, st, '%s() can fail with %s, which is not a ValueError' % (op.split(':')[-1], x.cls.split(':')[-1]),
                                key=key, effect=x.origin, witness='the algebra fails only with ValueError')
    check.floor(rule, 'explicit raises escaping the public algebra', n, 12)
    # next() on the bucket iterator is inside its StopIteration handler
    m = check.repo.cls('_signatures:_Merger')
    for fi in m.methods.values():
        for node in _own_nodes(fi.node):
            if isinstance(node, ast.Call) and isinstance(node.func, ast.Name) and node.func.id == 'next' and len(node.args) == 1:
                chain = es.try_chain(fi, node)
                ok = any('StopIteration' in names for tr, hs in chain for h, names, rer in hs)
                key = '%s|next' % fi.key
                if ok:
                    check.holds(rule, site_of(fi, node), 'next() without default is inside a StopIteration handler', key=key)
                else:
                    check.violation(rule, site_of(fi, node), 'next() without default outside a StopIteration handler: StopIteration escapes merge()',
                                    key=key, witness="merge(s('a, /'), s('')) raises StopIteration instead of IncompatibleSignatures")


def rule_fallback_discipline(check, rule, root='_specifiers:forged_signature'):
    """C07.R1 / C15.R5 / C06.R3: algebra failures and internal signals never escape retrieval"""
    cg, es = get_escape(check)
    fi = check.repo.func(root)
    check.analysed(fi)
    for k in cg.closure([root]):
        f2 = check.repo.func(k, required=False)
        if f2 is not None:
            check.analysed(f2)
    n = 0
    seen = set()
    for x in es.of(root):
        v = is_valueerror(es, x.cls)
        internal = x.cls in ('_autoforwards:UnknownForwards', '_autoforwards:UnresolvableName')
        if internal:
            n += 1
            key = '%s|internal:%s' % (root, x.origin)
            if key in seen:
                continue
            seen.add(key)
            check.violation(rule, site_of(x.func, x.node), 'the internal signal %s can escape %s()' % (x.cls.split(':')[-1], root.split(':')[-1]),
                            key=key, effect=x.origin, witness='sigtools.signature(f) raises UnknownForwards instead of falling back')
            continue
        if x.via is None or v is not True:
            continue
        n += 1
        key = '%s|via:%s' % (root, x.via)
        if key in seen:
            continue
        seen.add(key)
        st = site_of(x.via_func, x.via_node)
        if x.via in REVIEWED_VIA:
            check.holds(rule, st, 'ValueError of the algebra surfaces here by design: %s' % REVIEWED_VIA[x.via], key=key)
        else:
            check.violation(rule, st,
                            'a ValueError of %s (e.g. %s) reaches %s() without being converted to UnknownForwards: retrieval raises '
                            'where inspect.signature succeeds' % (x.via.split('call:')[-1], x.cls.split(':')[-1], root.split(':')[-1]),
                            key=key, effect=x.origin,
                            witness="def f(flag, *a, **k): a_(*a, **k) if flag else b_(*a, **k) with incompatible a_(x), b_(*, y): "
                                    "sigtools.signature(f) raises IncompatibleSignatures")
    # every algebra call site inside the discovery closure that *is* converted: count them as obligations
    for k in cg.closure(['_autoforwards:autoforwards']):
        f2 = check.repo.func(k, required=False)
        if f2 is None or f2.module.name != '_autoforwards':
            continue
        for cs in cg.sites[k]:
            for c in cs.callees:
                if c.key in ALGEBRA_ENTRIES:
                    via = '%s|call:%s' % (f2.key, norm(cs.node.func))
                    key = '%s|via:%s' % (root, via)
                    n += 1
                    if key in seen:
                        continue
                    seen.add(key)
                    # does a ValueError born in the callee escape f2 at this site?
                    excs = [x for x in es.of(c.key) if is_valueerror(es, x.cls)]
                    out = es.escaping_at(f2, cs.node, excs)
                    if not out:
                        check.holds(rule, site_of(f2, cs.node), 'ValueError of %s() is converted at this site' % c.name, key=key)
    check.floor(rule, 'algebra call sites / escaping signals examined', n, 3)


def rule_containment(check, rule):
    """every raise of the internal signals in the closure is caught on both routes of forged_signature"""
    cg, es = get_escape(check)
    fs = check.repo.func('_specifiers:forged_signature')
    n = 0
    sites = []
    for k in cg.closure(['_specifiers:forged_signature']):
        f2 = check.repo.func(k, required=False)
        if f2 is None:
            continue
        for node in _own_nodes(f2.node):
            if isinstance(node, ast.Raise) and node.exc is not None:
                cls = es.exc_class(f2, node.exc)
                if cls in ('_autoforwards:UnknownForwards', '_autoforwards:UnresolvableName'):
                    sites.append((f2, node, cls))
    esc = [x for x in es.of('_specifiers:forged_signature') if x.cls in ('_autoforwards:UnknownForwards', '_autoforwards:UnresolvableName')]
    bad = set((x.origin) for x in esc)
    for f2, node, cls in sites:
        n += 1
        origin = '%s|raise:%s' % (f2.key, raise_key(f2.node, node.exc, method=f2.cls is not None)[:80])
        key = 'contained|%s' % origin
        if origin in bad:
            continue    # reported by the fallback rule
        check.holds(rule, site_of(f2, node), '%s raised here is contained by the fallback chain' % cls.split(':')[-1], key=key)
    check.floor(rule, 'raise sites of the internal signals', n, 6)


def rule_chain_order(check, rule):
    """forger -> hint -> discovery -> plain retrieval; results pass through _upgrade_with_warning (C07.R1, C07.R6, C04.R4)"""
    repo = check.repo
    fi = repo.func('_specifiers:forged_signature')
    check.analysed(fi)
    it = Interp(repo, Policy(try_forks=True))
    paths = it.run(fi)
    check.absorb(it)
    n = 0
    seen = set()
    for p in paths:
        if p.status != 'return':
            continue
        n += 1
        seq = []
        for e in p.effects:
            if e.kind != 'call':
                continue
            op = str(e.op)
            if e.extra == 'unresolved' and any(n_ == 'obj' for n_, _ in e.kws):
                seq.append('forger')
            elif op.endswith(':autoforwards_ast'):
                seq.append('hint')
            elif op.endswith(':autoforwards'):
                seq.append('discovery')
            elif op.endswith('_signatures:signature'):
                seq.append('plain')
        # a path that runs (or returns the result of) automatic discovery must have
        # consulted the declared forger before: its guards mention the forger lookup
        if ('hint' in seq or 'discovery' in seq or 'plain' in seq) and 'forger' not in seq:
            consulted = any(any(s_[0] == 'K' and s_[1] == '_sigtools__forger' for s_ in subterms(a[1]) if isinstance(s_, tuple))
                            or any(isinstance(s_, tuple) and s_[0] == 'A' and s_[2] == '_sigtools__forger' for s_ in subterms(a[1]))
                            for a, pol in p.lits if len(a) > 1 and isinstance(a[1], tuple))
            k0 = 'forged_signature|forger-first|%s' % '>'.join(seq)
            if k0 not in seen:
                seen.add(k0)
                node0 = [e for e in p.effects if e.kind == 'return'][-1].node
                if consulted:
                    check.holds(rule, site_of(fi, node0), 'the declared forger is looked up before %s' % '/'.join(seq), key=k0)
                else:
                    check.violation(rule, site_of(fi, node0), 'a result of %s is returned without the declared forger having been consulted first'
                                    % '/'.join(seq), key=k0, guards=' & '.join(show_lit(l) for l in p.lits)[:300],
                                    witness='@forwards_to_function(inner) on a function whose body forwards elsewhere: the declaration must win')
        order = ['forger', 'hint', 'discovery', 'plain']
        idx = [order.index(s) for s in seq]
        key = 'forged_signature|order|%s' % '>'.join(seq)
        v = p.value
        if key not in seen:
            seen.add(key)
            node = [e for e in p.effects if e.kind == 'return'][-1].node
            if idx != sorted(idx):
                check.violation(rule, site_of(fi, node), 'stages run in the order %s, expected forger -> hint -> discovery -> plain' % ' -> '.join(seq),
                                key=key, guards=' & '.join(show_lit(l) for l in p.lits)[:300],
                                witness='a declared forger must win over automatic discovery')
            else:
                check.holds(rule, site_of(fi, node), 'stage order %s' % (' -> '.join(seq) or '(none)'), key=key)
        # result type
        key2 = 'forged_signature|result|%s' % show(v)[:60]
        if key2 in seen:
            continue
        seen.add(key2)
        node = [e for e in p.effects if e.kind == 'return'][-1].node
        if v[0] == 'C' and str(v[1]).endswith('._upgrade_with_warning'):
            check.holds(rule, site_of(fi, node), 'result passes through _upgrade_with_warning', key=key2)
        else:
            check.violation(rule, site_of(fi, node), 'a result of forged_signature is returned without _upgrade_with_warning: %s' % show(v)[:100],
                            key=key2, witness='sigtools.signature always returns an UpgradedSignature')
    check.floor(rule, 'returning paths of forged_signature', n, 4)
    # the forger result is used iff it is not None; auto=False skips discovery
    used = [p for p in paths if p.status == 'return' and any(e.kind == 'call' and e.extra == 'unresolved' and any(n_ == 'obj' for n_, _ in e.kws)
                                                             for e in p.effects)]
    key = 'forged_signature|forger-none'
    ok_none = False
    ok_first = False
    for p in used:
        fe = [e for e in p.effects if e.kind == 'call' and e.extra == 'unresolved' and any(n_ == 'obj' for n_, _ in e.kws)][0]
        lits = dict(p.lits)
        isn = lits.get(('isnone', fe.result))
        if isn is False and mentions(p.value, fe.result):
            ok_first = True
        if isn is True and not mentions(p.value, fe.result):
            ok_none = True
    if ok_first and ok_none:
        check.holds(rule, site_of(fi, fi.node), 'the forger result is returned iff it is not None', key=key)
    elif used:
        check.violation(rule, site_of(fi, fi.node), 'the forger result is not used exactly when it is not None', key=key,
                        witness='forwards_to_method on an unbound function returns None: discovery must take over')
    else:
        check.violation(rule, site_of(fi, fi.node), 'forged_signature never calls the forger with obj=', key=key,
                        witness='@forwards_to_function(inner) must be honoured')
    # forger called with the keyword obj= and the subject
    for p in used[:1]:
        fe = [e for e in p.effects if e.kind == 'call' and e.extra == 'unresolved' and any(n_ == 'obj' for n_, _ in e.kws)][0]
        key = 'forged_signature|forger-call'
        if fe.args or [n_ for n_, _ in fe.kws] != ['obj']:
            check.violation(rule, site_of(fi, fe.node), 'the forger is not called as forger(obj=<subject>)', key=key)
        else:
            check.holds(rule, site_of(fi, fe.node), 'forger(obj=<subject>)', key=key)
    # auto flag
    autop = ('P', fi.params()[0][1]) if len(fi.params()[0]) > 1 else None
    for p in paths:
        if p.status != 'return':
            continue
        lits = dict(p.lits)
        if lits.get(('truthy', autop)) is False:
            disc = [e for e in p.effects if e.kind == 'call' and str(e.op).startswith('_autoforwards:')]
            key = 'forged_signature|auto-false'
            if disc:
                check.violation(rule, site_of(fi, disc[0].node), 'automatic discovery runs although auto is false', key=key)
            else:
                check.holds(rule, site_of(fi, fi.node), 'auto=False skips automatic discovery', key=key)
            break


def rule_source_handling(check, rule):
    """C07.R2: get_ast returns a function definition or None, and handles unparsable source"""
    repo = check.repo
    cg, es = get_escape(check)
    fi = repo.func('_util:get_ast')
    check.analysed(fi)
    for x in es.of(fi.key):
        key = 'get_ast|escape:%s' % x.origin
        if x.cls in ('SyntaxError', '*'):
            check.violation(rule, site_of(x.func, x.node), 'ast.parse can raise SyntaxError on the text inspect.getsource returns, and nothing '
                            'handles it: it escapes sigtools.signature', key=key,
                            witness="a lambda on a continuation line of a bracketed expression -> SyntaxError: unmatched ')'")
        elif x.cls == 'OSError':
            check.violation(rule, site_of(x.func, x.node), 'missing source (OSError) escapes get_ast', key=key,
                            witness='exec-defined functions have no source')
    if not [x for x in es.of(fi.key) if x.cls in ('SyntaxError', 'OSError', '*')]:
        check.holds(rule, site_of(fi, fi.node), 'missing and unparsable source are both handled inside get_ast', key='get_ast|escape')
    it = Interp(repo, Policy(try_forks=True))
    paths = it.run(fi)
    check.absorb(it)
    n = 0
    seen = set()
    for p in paths:
        if p.status != 'return':
            continue
        v = p.value
        key = 'get_ast|return:%s' % show(v)[:60]
        if key in seen:
            continue
        seen.add(key)
        n += 1
        node = [e for e in p.effects if e.kind == 'return'][-1].node
        if v == NONE:
            check.holds(rule, site_of(fi, node), 'returns None (no usable source)', key=key)
            continue
        guards = [a for a, pol in p.lits if a[0] == 'isinstance' and a[1] == v and pol and 'FunctionDef' in str(a[2])]
        from_parse = any(isinstance(s_, tuple) and s_[0] == 'C' and str(s_[1]).endswith('ast.parse') for s_ in subterms(v))
        if guards:
            check.holds(rule, site_of(fi, node), 'the node returned is checked to be a function definition', key=key)
        elif not from_parse:
            # a value that does not come straight out of ast.parse (e.g. a memo table): nothing is claimed about it
            check.holds(rule, site_of(fi, node), 'returned value %s is not a fresh parse result: not judged' % show(v)[:60], key=key, nontrivial=False)
        else:
            check.violation(rule, site_of(fi, node), 'the first statement of the parsed source is returned unchecked, but every consumer reads '
                            '.args/.body of a function definition', key=key, effect=show(v)[:120],
                            witness="f = lambda *a, **k: g(*a, **k) -> AttributeError: 'Assign' object has no attribute 'args'")
    check.floor(rule, 'return shapes of get_ast', n, 2)


def rule_recursion_guard(check, rule):
    """C07.R3: the retrieval cycle driven by user data has a guard"""
    cg, es = get_escape(check)
    cyc = cg.find_cycle_through('_specifiers:forged_signature')
    st = '-'
    key = 'retrieval-cycle|guard'
    if cyc is None:
        check.holds(rule, st, 'no call cycle through forged_signature', key=key)
        return
    guard = None
    for k in cyc:
        fi = check.repo.func(k)
        check.analysed(fi)
        tests = []
        for node in _own_nodes(fi.node):
            if isinstance(node, ast.Compare) and any(isinstance(o, (ast.In, ast.NotIn)) for o in node.ops):
                tests.append(norm(node.comparators[0]))
        for node in _own_nodes(fi.node):
            if isinstance(node, ast.Call) and isinstance(node.func, ast.Attribute) and node.func.attr in ('add', 'append'):
                if norm(node.func.value) in tests:
                    guard = (fi, node)
        # a depth counter threaded through the recursion
        for node in _own_nodes(fi.node):
            if isinstance(node, ast.Compare) and isinstance(node.left, ast.Name) and ('depth' in node.left.id or 'level' in node.left.id) \
                    and node.left.id in (fi.params()[0] + fi.params()[2]):
                guard = (fi, node)
    fi0 = check.repo.func(cyc[0])
    if guard:
        check.holds(rule, site_of(guard[0], guard[1]), 'the cycle %s tests a visited set / depth' % ' -> '.join(x.split(':')[-1] for x in cyc), key=key)
    else:
        check.violation(rule, site_of(fi0, fi0.node), 'the call cycle %s is driven by the inspected program (the callee found in its body) and '
                        'no function on it tests a visited set or a depth' % ' -> '.join(x.split(':')[-1] for x in cyc), key=key,
                        witness='def walk(x, *a, **k): return walk(x - 1, *a, **k) -> sigtools.signature(walk) raises RecursionError')


PROBE_FUNCS = ['_util:get_introspectable', '_util:iter_call', '_specifiers:forged_signature', '_autoforwards:autoforwards',
               '_util:qualname', '_util:safe_get']
FORGER_FUNCS = ['specifiers:forwards_to_method', 'specifiers:forwards_to_super']


def rule_probe_discipline(check, rule):
    """C07.R4: attribute probes on foreign objects are guarded"""
    repo = check.repo
    cg, es = get_escape(check)
    n = 0
    for k in PROBE_FUNCS:
        fi = repo.func(k, required=False)
        if fi is None:
            continue
        check.analysed(fi)
        for node in _own_nodes(fi.node):
            # probes: bare attribute expression statements and `x = obj.attr` on dunder / _sigtools__ attributes
            tgt = None
            if isinstance(node, ast.Expr) and isinstance(node.value, ast.Attribute):
                tgt = node.value
            elif isinstance(node, ast.Assign) and isinstance(node.value, ast.Attribute) and \
                    (node.value.attr.startswith('__') or node.value.attr.startswith('_sigtools__')):
                tgt = node.value
            if tgt is None:
                # the look-before-you-leap forms of the same probes cannot raise AttributeError: getattr(x, '<dunder>', default) /
                # hasattr(x, '<dunder>')
                if isinstance(node, ast.Call) and isinstance(node.func, ast.Name) and len(node.args) >= 2 and \
                        isinstance(node.args[1], ast.Constant) and isinstance(node.args[1].value, str) and \
                        (node.args[1].value.startswith('__') or node.args[1].value.startswith('_sigtools__')) and \
                        ((node.func.id == 'getattr' and len(node.args) == 3) or node.func.id == 'hasattr'):
                    n += 1
                    check.holds(rule, site_of(fi, node), 'probe %s cannot raise AttributeError' % norm(node)[:60],
                                key='%s|probe:%s' % (fi.key, norm(node)[:60]))
                continue
            n += 1
            chain = es.try_chain(fi, node)
            ok = any(any(hn in ('AttributeError', 'Exception', 'BaseException') for hn in names if hn) for tr, hs in chain for h, names, rer in hs)
            key = '%s|probe:%s' % (fi.key, norm(tgt))
            if ok:
                check.holds(rule, site_of(fi, node), 'probe %s is inside an AttributeError handler' % norm(tgt), key=key)
            else:
                check.violation(rule, site_of(fi, node), 'attribute probe %s on the inspected object is not guarded: AttributeError escapes retrieval'
                                % norm(tgt), key=key, witness='objects whose __getattr__ raises / lack the attribute')
    check.floor(rule, 'attribute probes', n, 8)
    # declaration forgers: a missing attribute must surface as ValueError
    for k in FORGER_FUNCS:
        fi = repo.func(k, required=False)
        if fi is None:
            # decorated definitions are indexed under their plain name
            continue
        check.analysed(fi)
        for node in _own_nodes(fi.node):
            if isinstance(node, ast.Call) and isinstance(node.func, ast.Name) and node.func.id == 'getattr' and len(node.args) == 2:
                chain = es.try_chain(fi, node)
                conv = False
                for tr, hs in chain:
                    for h, names, rer in hs:
                        if any(hn == 'AttributeError' for hn in names if hn):
                            if any(isinstance(s, ast.Raise) and s.exc is not None and (es.exc_class(fi, s.exc) or '').split(':')[-1] in
                                   ('ValueError', 'IncompatibleSignatures') for s in ast.walk(h)):
                                conv = True
                key = '%s|getattr:%s' % (fi.key, norm(node))
                if conv:
                    check.holds(rule, site_of(fi, node), 'a missing attribute is converted to ValueError', key=key)
                else:
                    check.violation(rule, site_of(fi, node), 'the declared target is looked up with an unguarded getattr: a declaration that cannot '
                                    'be honoured surfaces as AttributeError, not ValueError', key=key,
                                    witness="@forwards_to_method('nonexistent') -> sigtools.signature(obj.m) raises AttributeError")


def rule_sphinx(check, rule):
    """C07.R5: once the object is fetched, nothing escapes process_signature"""
    repo = check.repo
    cg, es = get_escape(check)
    fi = repo.func('sphinxext:process_signature', required=False)
    if fi is None:
        raise Inconclusive('sphinxext.process_signature vanished')
    check.analysed(fi)
    n = 0
    seen = set()
    for x in es.of(fi.key):
        if x.kind != 'external' and not (x.via is not None):
            continue
        key = 'process_signature|escape:%s:%s' % (x.cls, x.origin)
        if key in seen:
            continue
        seen.add(key)
        n += 1
        if x.cls == '*':
            check.violation(rule, site_of(x.func, x.node), 'evaluating a postponed annotation (eval) can raise anything, e.g. NameError, and only '
                            'TypeError/ValueError are handled around the retrieval: the documentation build aborts', key='process_signature|eval',
                            witness='a postponed annotation naming a TYPE_CHECKING-only import -> NameError')
    # the retrieval call itself is under a handler returning the unchanged pair
    calls = [cs for cs in cg.sites[fi.key] if any(c.key == '_specifiers:forged_signature' for c in cs.callees)
             or (cs.external or '').endswith('signature') or norm(cs.node.func).endswith('specifiers.signature')]
    for cs in calls:
        chain = es.try_chain(fi, cs.node)
        names = set(hn for tr, hs in chain for h, nm, rer in hs for hn in nm if hn)
        key = 'process_signature|retrieval-handler'
        n += 1
        if set(['TypeError', 'ValueError']) <= names or 'Exception' in names:
            check.holds(rule, site_of(fi, cs.node), 'retrieval failures (TypeError/ValueError) return the unchanged pair', key=key)
        else:
            check.violation(rule, site_of(fi, cs.node), 'the retrieval is not under a handler for TypeError and ValueError', key=key,
                            witness='builtins without signature abort the documentation build')
    if not [x for x in es.of(fi.key) if x.cls == '*']:
        check.holds(rule, site_of(fi, fi.node), 'no arbitrary exception escapes the hook once the object is fetched', key='process_signature|eval')
    # descriptor binding runs user code (property getters): outside the catch-all handler it must be
    # restricted to callables, whose __get__ only binds
    for cs in cg.sites[fi.key]:
        if any(c.key == '_util:safe_get' for c in cs.callees):
            chain = es.try_chain(fi, cs.node)
            names = set(hn for tr, hs in chain for h, nm, rer in hs for hn in nm if hn)
            key = 'process_signature|binding'
            n += 1
            if 'Exception' in names or 'BaseException' in names:
                check.holds(rule, site_of(fi, cs.node), 'descriptor binding happens under the catch-all handler', key=key)
                continue
            guarded = False
            t = cs.node
            while t is not None and t is not fi.node:
                par = getattr(t, '_parent', None)
                if isinstance(par, ast.If) and t in par.body:
                    for x in ast.walk(par.test):
                        if isinstance(x, ast.Call) and isinstance(x.func, ast.Name) and x.func.id == 'callable':
                            guarded = True
                t = par
            if guarded:
                check.holds(rule, site_of(fi, cs.node), 'class members are bound through their descriptor only when they are callable', key=key)
            else:
                check.violation(rule, site_of(fi, cs.node), 'every class member is bound through its descriptor outside any handler: for a property or '
                                'cached_property this runs the getter on a dummy object, and whatever it raises aborts the documentation build',
                                key=key, witness='a documented property whose getter touches self')
    check.floor(rule, 'external raisers reachable from the Sphinx hook', n, 1)


def rule_nested_retrieval_contained(check, rule):
    """C07.R1c: discovery retrieves the signature of *another* object (the callee found in the body) with
    forged_signature(); inspect raises TypeError (not callable / not supported) or ValueError (no signature) for
    such objects although the function under inspection itself is fine.  Every such call site in the discovery
    closure must sit under handlers that catch both types without re-raising them (they become the fallback)."""
    cg, es = get_escape(check)
    n = 0
    for k in sorted(cg.closure(['_autoforwards:autoforwards'])):
        f2 = check.repo.func(k, required=False)
        if f2 is None or f2.module.name != '_autoforwards':
            continue
        for cs in cg.sites[k]:
            if not any(c.key == '_specifiers:forged_signature' for c in cs.callees):
                continue
            n += 1
            chain = es.try_chain(f2, cs.node)
            for exc in ('TypeError', 'ValueError'):
                caught = False
                for tnode, handlers in chain:
                    for h, names, rer in handlers:
                        if any(es.catches(hn, exc) for hn in names) and rer == 'no':
                            caught = True
                key = '%s|nested-retrieval|%s' % (f2.key, exc)
                if caught:
                    check.holds(rule, site_of(f2, cs.node), '%s of the nested retrieval of a callee is absorbed into the fallback' % exc, key=key)
                else:
                    check.violation(rule, site_of(f2, cs.node), 'the signature of a callee found in the body is retrieved without a handler for %s: '
                                    'inspect raises it for callees it cannot introspect (or whose fixed arguments do not fit), and it escapes '
                                    'sigtools.signature() of a function that inspect.signature handles' % exc, key=key,
                                    witness='def f(*a, **k): return g(1, 2, 3, *a, **k) with g(x, *args): nested retrieval raises TypeError')
    check.floor(rule, 'nested retrieval call sites in the discovery closure', n, 1)


def rule_sphinx_unchanged_pair(check, rule):
    """C07.R5b: the fallback of the Sphinx hook hands back *autodoc's own* pair.  A handler that returns names which are
    parameters of the hook must see their original values: no statement of the guarded block may rebind such a name
    and be followed, inside the same block, by a statement that can raise (the handler would then return the
    half-processed object instead of autodoc's string)."""
    repo = check.repo
    fi = repo.func('sphinxext:process_signature', required=False)
    if fi is None:
        raise Inconclusive('sphinxext.process_signature vanished')
    pos, va, kwo, kw = fi.params()
    params = set(pos + kwo)
    n = 0
    for tr in [x for x in ast.walk(fi.node) if isinstance(x, ast.Try)]:
        for h in tr.handlers:
            rets = [r for r in ast.walk(h) if isinstance(r, ast.Return) and r.value is not None]
            for r in rets:
                names = [x.id for x in ast.walk(r.value) if isinstance(x, ast.Name) and x.id in params]
                if not names:
                    continue
                n += 1
                key = 'process_signature|handler-pair|%s' % norm(r)[:60]
                bad = None
                for i, stmt in enumerate(tr.body):
                    rebound = [x.id for x in ast.walk(stmt) if isinstance(x, ast.Name) and isinstance(x.ctx, ast.Store) and x.id in names]
                    if not rebound:
                        continue
                    later = tr.body[i + 1:]
                    if any(isinstance(y, (ast.Call, ast.Attribute, ast.Subscript, ast.Raise)) for st_ in later for y in ast.walk(st_)):
                        bad = (stmt, rebound[0])
                        break
                if bad:
                    check.violation(rule, site_of(fi, bad[0]), 'the guarded block rebinds %r and then goes on with statements that can raise: when they '
                                    'do, the handler returns the half-processed object under that name instead of the value autodoc passed in'
                                    % bad[1], key=key, witness='postponed annotation naming a TYPE_CHECKING-only import: the hook returns a '
                                                               'Signature object where autodoc expects its own string')
                else:
                    check.holds(rule, site_of(fi, r), 'the handler returns %s as autodoc passed them: no rebinding inside the guarded block is '
                                'followed by a raising statement' % ', '.join(names), key=key)
    check.floor(rule, 'handlers of the Sphinx hook returning its own parameters', n, 1)


def rule_retrieval_inside_window(check, rule):
    """C07.R8a: a signature retrieved while the inspected object is in its *modified* state (inside the delete/restore
    window: `__wrapped__` / `__signature__` set aside) can fail although retrieval of the intact object succeeds --
    inspect then takes other routes (callable instance treated as builtin, ...).  Such a failure says nothing about
    the object itself, so every retrieval call inside a `with <window>` block must have ValueError and TypeError
    converted into the fallback (UnknownForwards) instead of letting them leave sigtools.signature()."""
    from .rules_windows import find_cm_window
    repo = check.repo
    cg, es = get_escape(check)
    w = find_cm_window(repo)
    if w is None:
        check.holds(rule, '-', 'no delete/restore window in the package: nothing is retrieved in a modified state', key='window-retrieval|none')
        return
    n = 0
    for fi in repo.all_funcs():
        for node in ast.walk(fi.node):
            if not isinstance(node, ast.With):
                continue
            if not any(isinstance(it_.context_expr, ast.Call) and norm(it_.context_expr.func).split('.')[-1] == w.cls.name for it_ in node.items):
                continue
            # the whole statement counts: __enter__ itself probes `__signature__` of the half-stripped object, which for
            # a computed (descriptor) attribute runs a retrieval in that state
            for c in [node.items[0].context_expr]:
                n += 1
                chain = es.try_chain(fi, node)
                for exc in ('ValueError', 'TypeError'):
                    conv = False
                    for tnode, handlers in chain:
                        for h, names, rer in handlers:
                            if any(es.catches(hn, exc) for hn in names) and rer == 'no':
                                conv = True
                    key = '%s|window-retrieval|%s|%s' % (fi.key, norm(c)[:50], exc)
                    if conv:
                        check.holds(rule, site_of(fi, c), '%s raised while the object is in its modified state becomes the fallback' % exc, key=key)
                    else:
                        check.violation(rule, site_of(fi, node), 'the block under `with %s` retrieves a signature while the wrapper attributes of the '
                                        'object are set aside; a %s raised for the object in that state (inspect treats a callable instance that '
                                        'defines __get__ as a builtin) leaves sigtools.signature() although the intact object has a signature'
                                        % (norm(c)[:50], exc), key=key,
                                        witness='@wrappers.decorator-wrapped def fn(self, x) looked up unbound: ValueError/AttributeError instead of (self, x)')
    check.floor(rule, 'window blocks', n, 1)


def rule_repr_robust(check, rule):
    """C07.R8b: inspect formats the object into its error messages (repr) while the window has removed `__wrapped__` /
    `__signature__`; a __repr__ that reads one of those attributes of self unguarded turns inspect's ValueError into an
    AttributeError.  Every __repr__ of the package reads the window's attributes through getattr-with-default or under
    an AttributeError handler."""
    from .rules_windows import find_cm_window
    repo = check.repo
    w = find_cm_window(repo)
    attrs = set()
    if w is not None:
        v = w.cls.assigns.get('attrs')
        if v is not None:
            for x in ast.walk(v):
                if isinstance(x, ast.Constant) and isinstance(x.value, str):
                    attrs.add(x.value)
    if not attrs:
        check.holds(rule, '-', 'no attribute is set aside by a window: __repr__ cannot meet a half-stripped object', key='repr|none')
        return
    n = 0
    for fi in repo.all_funcs():
        if fi.name not in ('__repr__', '__str__') or fi.cls is None:
            continue
        selfn = fi.params()[0][0]
        for x in ast.walk(fi.node):
            if isinstance(x, ast.Attribute) and x.attr in attrs and isinstance(x.value, ast.Name) and x.value.id == selfn and isinstance(x.ctx, ast.Load):
                n += 1
                handled = False
                t = x
                while t is not None and t is not fi.node:
                    par = getattr(t, '_parent', None)
                    if isinstance(par, ast.Try) and t in par.body and any(
                            h.type is None or any(nm in norm(h.type) for nm in ('AttributeError', 'Exception')) for h in par.handlers):
                        handled = True
                    t = par
                key = '%s|repr-reads|%s' % (fi.key, x.attr)
                if handled:
                    check.holds(rule, site_of(fi, x), '%s reads self.%s under an AttributeError handler' % (fi.qualname, x.attr), key=key)
                else:
                    check.violation(rule, site_of(fi, x), '%s reads self.%s unguarded, an attribute %s removes temporarily: when inspect formats the '
                                    'object into an error message inside the window, AttributeError replaces the ValueError inspect was raising'
                                    % (fi.qualname, x.attr, w.cls.name), key=key,
                                    witness='@wrappers.decorator-wrapped def fn(self, x): sigtools.signature(fn) raises AttributeError')
    if not n:
        check.holds(rule, '-', 'no __repr__/__str__ reads %s of self' % '/'.join(sorted(attrs)), key='repr|clean', nontrivial=False)


# ---------------------------------------------------------------------------
# C07.R4b -- implicit AttributeError sources

# reads of special attributes that escape retrieval as far as the handlers go, each with the reason why the object has the attribute
REVIEWED_IMPLICIT = {
    '_autoforwards:autoforwards_method|attr:$.__self__': 'reached only from autoforwards() under isinstance(obj, types.MethodType)',
    '_autoforwards:autoforwards_method|attr:$.__func__': 'reached only from autoforwards() under isinstance(obj, types.MethodType)',
    '_autoforwards:resolve_name|attr:$.__globals__': 'func is the object whose code was parsed by get_ast (it has __code__): a function, or a bound '
                                                     'method, which hands attribute reads on to its function',
    '_autoforwards:resolve_name|attr:$.__code__': 'same object: get_ast returned its AST only because func.__code__ exists',
    '_autoforwards:resolve_name|attr:$.__closure__': 'same object (the pinned tree reads it under a Python 2 compatibility handler; every '
                                                     'object with __code__ and __globals__ has __closure__)',
}
IMPLICIT_ROOTS = ('_specifiers:forged_signature', '_signatures:signature', 'sphinxext:process_signature')


def _type_established(fi, node):
    """the attribute read sits under `if isinstance(<same expression>, ...)` (or after hasattr(<same>, '<attr>'))"""
    base = norm(node.value)
    t = node
    while t is not None and t is not fi.node:
        par = getattr(t, '_parent', None)
        if isinstance(par, ast.If) and t in par.body:
            for c in ast.walk(par.test):
                if isinstance(c, ast.Call) and isinstance(c.func, ast.Name) and c.args and norm(c.args[0]) == base:
                    if c.func.id == 'isinstance':
                        return True
                    if c.func.id == 'hasattr' and len(c.args) == 2 and isinstance(c.args[1], ast.Constant) and c.args[1].value == node.attr:
                        return True
        t = par
    return False


def _established_by_earlier_read(fi, node):
    """an earlier statement of the function already read the same attribute off the same name inside
    `try: ... except AttributeError: return/raise`: getting past it means the attribute is there"""
    if not isinstance(node.value, ast.Name):
        return False
    base, attr = node.value.id, node.attr
    top = node
    while getattr(top, '_parent', None) is not None and getattr(top, '_parent') is not fi.node:
        top = top._parent
    body = fi.main_body
    if top not in body:
        return False
    for s_ in body[:body.index(top)]:
        if isinstance(s_, (ast.Assign, ast.AugAssign)) and any(isinstance(t, ast.Name) and t.id == base for t in ast.walk(s_) if isinstance(getattr(t, 'ctx', None), ast.Store)):
            return False
    for s_ in body[:body.index(top)]:
        if isinstance(s_, ast.Try):
            reads = [a for b in s_.body for a in ast.walk(b) if isinstance(a, ast.Attribute) and a.attr == attr and isinstance(a.value, ast.Name)
                     and a.value.id == base and isinstance(a.ctx, ast.Load)]
            for h in s_.handlers:
                names = [norm(h.type)] if h.type is not None and not isinstance(h.type, ast.Tuple) else [norm(e) for e in getattr(h.type, 'elts', [])]
                if reads and any(n_.split('.')[-1] in ('AttributeError', 'Exception') for n_ in names) and isinstance(h.body[-1], (ast.Return, ast.Raise)):
                    return True
    return False


def rule_implicit_attribute_errors(check, rule):
    """C07.R4b: reading a special attribute (`__self__`, `__func__`, `__code__`, `__globals__`, `__name__`, `__wrapped__`, ...) off an
    object the package did not build raises AttributeError when the object lacks it.  With these reads as exception sources, the
    escape analysis over the resolved call graph says which of them can leave retrieval (or the Sphinx hook): each must be under a
    type test of the same expression, or in the reviewed table with the reason why the attribute is there."""
    cg, _es = get_escape(check)
    key0 = id(check.repo)
    es = _shared.get(('implicit', key0))
    if es is None:
        es = Escape(check.repo, cg, implicit_attrs=True)
        _shared[('implicit', key0)] = es
    n_sources = sum(1 for items in es.local.values() for kind, node, payload in items if kind == 'implicit')
    seen = set()
    n = 0
    for root in IMPLICIT_ROOTS:
        fi = check.repo.func(root, required=False)
        if fi is None:
            check.inconclusive(rule, '-', 'anchor %s vanished' % root, key='implicit|root|%s' % root)
            continue
        check.analysed(fi)
        for x in es.of(root):
            if x.kind != 'implicit':
                continue
            key = 'implicit|%s' % x.origin
            if key in seen:
                continue
            seen.add(key)
            n += 1
            st = site_of(x.func, x.node)
            if _type_established(x.func, x.node):
                check.holds(rule, st, 'read of %s under a type test of the same expression' % norm(x.node)[:40], key=key)
            elif _established_by_earlier_read(x.func, x.node):
                check.holds(rule, st, 'read of %s after an earlier guarded read of the same attribute' % norm(x.node)[:40], key=key)
            elif x.origin in REVIEWED_IMPLICIT:
                check.holds(rule, st, 'read of %s: reviewed (%s)' % (norm(x.node)[:40], REVIEWED_IMPLICIT[x.origin]), key=key)
            else:
                check.violation(rule, st, 'reading %s can raise AttributeError, and nothing between here and %s() converts it: retrieval fails for '
                                'an object without that attribute (a callable instance, a builtin, a partial, a C function, ...)'
                                % (norm(x.node)[:40], root.split(':')[-1]), key=key,
                                witness='sigtools.signature(obj) for a callable obj lacking %s' % x.node.attr)
    check.holds(rule, '-', '%d reads of special attributes off foreign objects in the package, %d of them can reach the end of retrieval' % (n_sources, n),
                key='implicit|inventory', nontrivial=False)
    check.floor(rule, 'reads of special attributes off foreign objects', n_sources, 10)


def rule_sphinx_output(check, rule):
    """C07.R5d: what the hook hands to autodoc on success is the pair (argument list as text, return annotation as text): autodoc joins
    them with ' -> '.  So when the signature has a return annotation, the first element is the text of the signature *without* it
    (`sig.replace(return_annotation=sig.empty)`), the second its repr; otherwise (text of the signature, '').  Both are strings."""
    repo = check.repo
    fi = repo.func('sphinxext:process_signature', required=False)
    if fi is None:
        raise Inconclusive('sphinxext.process_signature vanished')
    check.analysed(fi)
    from .interp import Interp, Policy, show, mentions, K as K_
    it = Interp(repo, Policy(try_forks=False))
    paths = it.run(fi)
    n = 0
    seen = set()
    for p in paths:
        if p.status != 'return' or p.value[0] != 'T' or len(p.value[1]) != 2:
            continue
        a, b = p.value[1]
        if a[0] == 'P' and b[0] == 'P':
            continue          # autodoc's own pair (fallback)
        # does this path know that there is a return annotation?
        has_ret = None
        for atom, pol in p.lits:
            if atom[0] in ('eq', 'is') and any(isinstance(x, tuple) and x[0] == 'A' and x[2] in ('empty', '_empty') for x in atom[1:]):
                has_ret = not pol
        key = 'process_signature|output|ret=%s' % has_ret
        if key in seen:
            continue
        seen.add(key)
        n += 1
        node = [e for e in p.effects if e.kind == 'return'][-1].node
        st = site_of(fi, node)
        problems = []
        if not (a[0] == 'C' and a[1] == 'str'):
            problems.append('the first element is %s, not str(<signature>)' % show(a)[:50])
        if has_ret is True:
            arg = a[2][0] if (a[0] == 'C' and a[2]) else None
            stripped = arg is not None and arg[0] == 'M' and arg[2] == 'replace' and any(k == 'return_annotation' and v[0] == 'A' and v[2] in ('empty', '_empty')
                                                                                        for k, v in arg[4])
            if not stripped:
                problems.append('the signature is turned into text with its return annotation still on it: autodoc appends the second element after '
                                '" -> " and the annotation shows up twice')
            if b == K_('') or b[0] == 'P':
                problems.append('the return annotation is not handed over as the second element')
        elif has_ret is False:
            if b != K_(''):
                problems.append('without a return annotation the second element must be the empty string, found %s' % show(b)[:40])
        if problems:
            for m_ in problems[:2]:
                check.violation(rule, st, 'process_signature: %s' % m_, key=key + '|' + m_[:30], witness="def f(a) -> int: the hook must return ('(a)', 'int')")
        else:
            check.holds(rule, st, 'the hook returns (text of the argument list, text of the return annotation or "")', key=key)
    check.floor(rule, 'successful returns of the Sphinx hook', n, 2)


# ---------------------------------------------------------------------------
# C07.R13 -- the inspected object is used as a dictionary key / set member

def rule_subject_hashed(check, rule):
    """C07.R13: inspect.signature works on unhashable callables (a callable instance of a class with `__eq__` and no `__hash__`).  Putting the
    inspected object into a set, or using it as a dictionary key, raises TypeError for them.  The sites where retrieval does that
    with the object it was handed: the recursion guard of the as_forged descriptor (set membership) and default_sources (the
    '+depths' map is keyed by the callables themselves -- part of the documented shape of `sources`)."""
    repo = check.repo
    n = 0
    sites = []
    fi = repo.func('_signatures:default_sources', required=False)
    if fi is not None:
        check.analysed(fi)
        params = fi.params()[0]
        for d in ast.walk(fi.node):
            if isinstance(d, ast.Dict):
                for k_ in d.keys:
                    if isinstance(k_, ast.Name) and k_.id in params:
                        sites.append((fi, d, 'dict key %s' % k_.id))
    fi = repo.func('specifiers:_AsForged.__get__', required=False)
    if fi is not None:
        check.analysed(fi)
        params = set(fi.params()[0][1:])
        subj = set()
        for a in ast.walk(fi.node):
            if isinstance(a, ast.Assign) and len(a.targets) == 1 and isinstance(a.targets[0], ast.Name) and \
                    any(isinstance(x, ast.Name) and x.id in params for x in ast.walk(a.value)):
                subj.add(a.targets[0].id)
        for c in ast.walk(fi.node):
            if isinstance(c, ast.Compare) and len(c.ops) == 1 and isinstance(c.ops[0], (ast.In, ast.NotIn)) and isinstance(c.left, ast.Name) \
                    and c.left.id in subj | params:
                sites.append((fi, c, 'set membership of %s' % c.left.id))
                break
    for fi, node, how in sites:
        n += 1
        check.violation(rule, site_of(fi, node), '%s: the inspected object is hashed (%s); an unhashable callable on which inspect.signature succeeds '
                        'makes retrieval raise TypeError' % (fi.name, how), key='hash-subject|%s' % fi.key,
                        witness='class U: __hash__ = None; def __call__(self, a): ...   sigtools.signature(U()) raises TypeError')
    if not sites:
        check.holds(rule, '-', 'retrieval does not hash the object it inspects', key='hash-subject|none', nontrivial=False)


def rule_validation_converted(check, rule):
    """C15.R13 (D43): "IncompatibleSignatures from merge and embed for role-consistent inputs".  The steps that combine the parameters do not
    check the names of what they produce; the combined list is validated only where the result is constructed (inspect.Signature raises a
    plain ValueError for two parameters of one name or a wrong order).  In merge and embed, every call whose closure reaches such a validating
    construction -- `<sig>.replace(parameters=...)` or a Signature constructor given parameters -- or raises ValueError explicitly lies in a
    `try` whose ValueError handler raises IncompatibleSignatures."""
    repo = check.repo
    cg, es = get_escape(check)

    def validates(fi):
        for c in _own_nodes(fi.node):
            if isinstance(c, ast.Call):
                if isinstance(c.func, ast.Attribute) and c.func.attr == 'replace' and any(k.arg == 'parameters' for k in c.keywords):
                    return True
                if norm(c.func).split('.')[-1] in ('Signature', 'UpgradedSignature') and (c.args or any(k.arg == 'parameters' for k in c.keywords)):
                    return True
        return False
    validators = set(fi.key for fi in repo.all_funcs() if validates(fi) and not (fi.cls is not None and fi.name in ('replace', '__init__', '_upgrade')))
    n = 0
    for op in ('_signatures:merge', '_signatures:embed'):
        fi = repo.func(op)
        check.analysed(fi)
        for cs in cg.sites.get(fi.key, []):
            for callee in cs.callees:
                clo = set(cg.closure([callee.key]))
                reach = sorted(clo & validators)
                explicit = [x for x in es.of(callee.key) if x.kind == 'raise' and is_valueerror(es, x.cls)
                            and not es.interp.exc_subclass(x.cls, '_signatures:IncompatibleSignatures')]
                if not reach and not explicit:
                    continue
                n += 1
                key = '%s|converted|call:%s' % (op, callee.key.split(':', 1)[1])
                st = site_of(fi, cs.node)
                ok = False
                for tr, hs in es.try_chain(fi, cs.node):
                    for h, names, rer in hs:
                        if any(nm in ('ValueError', 'Exception', 'BaseException') for nm in names if nm):
                            raised = [es.exc_class(fi, r_.exc) for r_ in ast.walk(h) if isinstance(r_, ast.Raise) and r_.exc is not None]
                            if any(c_ and es.interp.exc_subclass(c_, '_signatures:IncompatibleSignatures') for c_ in raised):
                                ok = True
                why = ('reaches the validating construction in %s' % ', '.join(r.split(':', 1)[1] for r in reach[:2])) if reach else \
                    'raises ValueError (%s)' % explicit[0].origin
                if ok:
                    check.holds(rule, st, '%s(...) %s: inside a try that turns ValueError into IncompatibleSignatures' % (callee.name, why), key=key)
                else:
                    check.violation(rule, st, '%s(...) %s, outside any try that turns ValueError into IncompatibleSignatures: a result with two parameters '
                                    'of one name leaves %s as a plain ValueError' % (callee.name, why, fi.name), key=key,
                                    witness="merge(s('a, *args, **kwargs'), s('b, a, *args, **kwargs')) raises ValueError('duplicate parameter name')")
    check.floor(rule, 'ValueError-raising calls in merge/embed', n, 4)


def _handler_covers(es, fi, node, wanted):
    """is `node` inside a try (of fi) with a handler that catches every class in `wanted` and does not let it continue?"""
    for tr, hs in es.try_chain(fi, node):
        left = set(wanted)
        for h, names, rer in hs:
            if rer not in ('no', None, False):
                continue
            for w in list(left):
                if any(nm and (nm == w or es.catches(nm, w)) for nm in names):
                    left.discard(w)
        if not left:
            return True
    return False


def rule_user_value_operations(check, rule):
    """C07.R14 (D50): discovery looks at live values -- attributes of the instance, globals, what a partial binds -- and these need not
    behave.  In the closure of automatic discovery every operation that hands such a value to an operation with a precondition is inside a
    handler that turns the failure into the fallback: `getattr(<resolved object>, name)` (a property may raise anything: Exception),
    `<list>.extend(<resolved>)` / `<dict>.update(<resolved>)` (TypeError, ValueError: the value spread into the call is None, a string...),
    `sig.bind_partial(*args, **kwargs)` / `sig.bind(...)` (TypeError: the object cannot take what it is bound to; inspect reports that
    as ValueError, which plain retrieval reproduces)."""
    repo = check.repo
    cg, es = get_escape(check)
    roots = ['_autoforwards:autoforwards']
    n = 0
    for k in sorted(cg.closure(roots)):
        fi = repo.func(k, required=False)
        if fi is None or fi.module.name != '_autoforwards':
            continue
        params = set(fi.params()[0]) | set(x for x in [fi.params()[1], fi.params()[3]] if x)
        for c in _own_nodes(fi.node):
            if not isinstance(c, ast.Call):
                continue
            want = None
            what = None
            if isinstance(c.func, ast.Name) and c.func.id == 'getattr' and len(c.args) == 2 and not isinstance(c.args[1], ast.Constant):
                # (a constant name on a known kind of object is an ordinary attribute read: C07.R4b)
                want, what = ['Exception'], 'getattr() on a resolved object runs its properties'
            elif isinstance(c.func, ast.Attribute) and c.func.attr in ('bind_partial', 'bind') and any(isinstance(a, ast.Starred) for a in c.args):
                want, what = ['TypeError'], 'binding what the object is bound to'
            elif isinstance(c.func, ast.Attribute) and c.func.attr in ('extend', 'update') and len(c.args) == 1 \
                    and isinstance(resolve_once(fi.node, c.args[0]), ast.Call) and not isinstance(resolve_once(fi.node, c.args[0]).func, ast.Attribute):
                callee = resolve_once(fi.node, c.args[0]).func
                nested = [x for x in _own_nodes(fi.node) if isinstance(x, ast.FunctionDef) and isinstance(callee, ast.Name) and x.name == callee.id]
                resolves = isinstance(callee, ast.Name) and (callee.id == 'resolve_name' or any(
                    isinstance(y, ast.Call) and norm(y.func) == 'resolve_name' for x in nested for y in ast.walk(x)))
                if resolves:
                    want, what = ['TypeError', 'ValueError'], 'spreading a resolved value into a list / a mapping'
            if want is None:
                continue
            n += 1
            check.analysed(fi)
            key = 'user-value|%s|%s' % (fi.key, norm_locals(fi.node, c.func, method=fi.cls is not None))
            st = site_of(fi, c)
            if _handler_covers(es, fi, c, want):
                check.holds(rule, st, '%s: %s is handled (%s)' % (norm(c)[:50], what, '/'.join(want)), key=key)
            else:
                check.violation(rule, st, '%s: %s, and no handler around it catches %s -- the failure leaves sigtools.signature instead of making '
                                'discovery fall back' % (norm(c)[:50], what, '/'.join(want)), key=key,
                                witness='class C:\n    prefix = None\n    def m(self, *args, **kwargs): return f(*self.prefix, **kwargs)\n'
                                        'sigtools.signature(C().m) raises TypeError; inspect.signature succeeds')
    check.floor(rule, 'operations on resolved values in discovery', n, 4)


def rule_sphinx_hook_total(check, rule):
    """C07.R15 (D49): "the Sphinx autodoc hook never raises for a documentable object".  In process_signature every call that is handed the
    documented object (binding it, retrieving its signature) lies in a try whose handler catches Exception, and the look-up of the dotted
    name is handled for AttributeError and ValueError (a top-level module leaves the empty name to import)."""
    repo = check.repo
    cg, es = get_escape(check)
    fi = repo.func('sphinxext:process_signature')
    check.analysed(fi)
    n = 0
    objnames = set()
    # the documented object: what the look-up returns, under every local name it gets
    for x in _own_nodes(fi.node):
        if isinstance(x, ast.Assign) and isinstance(x.value, ast.Call) and norm(x.value.func).endswith('fetch_dotted_name'):
            for t in x.targets:
                for nm in ast.walk(t):
                    if isinstance(nm, ast.Name):
                        objnames.add(nm.id)
            n += 1
            key = 'sphinx-total|lookup'
            if _handler_covers(es, fi, x.value, ['AttributeError', 'ValueError']):
                check.holds(rule, site_of(fi, x), 'the look-up of the dotted name is handled for AttributeError and ValueError', key=key)
            else:
                check.violation(rule, site_of(fi, x), 'the look-up of the dotted name is not handled for both AttributeError and ValueError: a top-level '
                                'module name (automodule:: json) makes it import the empty name, which raises ValueError', key=key,
                                witness="process_signature(app, 'module', 'json', json, {}, None, None)")
    for c in _own_nodes(fi.node):
        if not isinstance(c, ast.Call):
            continue
        if norm(c.func) in ('isinstance', 'callable', 'type') or norm(c.func).endswith('fetch_dotted_name'):
            continue
        if not any(isinstance(a, ast.Name) and a.id in objnames for a_ in list(c.args) + [k.value for k in c.keywords] for a in ast.walk(a_)):
            continue
        n += 1
        key = 'sphinx-total|%s' % norm_locals(fi.node, c.func)
        if _handler_covers(es, fi, c, ['Exception']):
            check.holds(rule, site_of(fi, c), '%s is inside the try that leaves the signature alone on any failure' % norm(c)[:50], key=key)
        else:
            check.violation(rule, site_of(fi, c), '%s is handed the documented object outside any `except Exception`: binding a method inherited from a C '
                            'type to a dummy instance raises TypeError, and Sphinx drops the member' % norm(c)[:50], key=key,
                            witness="process_signature(app, 'method', 'collections.Counter.get', collections.Counter.get, {}, None, None)")
    # binding goes through the descriptor protocol: for a property it *runs the getter* on the dummy instance and documents whatever comes
    # back; only callables are bound
    from .rules_classes import dominated_by
    for c in _own_nodes(fi.node):
        if isinstance(c, ast.Call) and norm(c.func).endswith('safe_get') and c.args and isinstance(c.args[0], ast.Name) and c.args[0].id in objnames:
            n += 1
            key = 'sphinx-total|bind-callables-only'
            arg = c.args[0].id
            if dominated_by(fi, c, lambda t, p: p and norm(t) == 'callable(%s)' % arg):
                check.holds(rule, site_of(fi, c), 'the documented object is bound to a dummy instance only when it is callable', key=key)
            else:
                check.violation(rule, site_of(fi, c), 'the documented object is bound to a dummy instance whatever it is: for a property this runs the getter '
                                'on object() and documents what it returns (the signature of a callable the property hands back) instead of leaving '
                                'the signature alone', key=key, witness='class Account:\n    @property\n    def handler(self): return some_function')
    check.floor(rule, 'operations on the documented object', n, 3)
