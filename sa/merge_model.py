"""Canonical decision table of `_Merger`, extracted from the source (E3+E4).

`MergeModel` enumerates the paths of `_Merger.__iter__` with the helper
methods inlined and turns every per-parameter path into a canonical record:
which guards hold (presence of the two zipped parameters, name equality,
exhaustion of the other side's positional-or-keyword parameters, presence of
the other side's star parameters, membership in the other side's unmatched
keyword-only parameters, has-default) and which abstract effects are performed
(Put into an output bucket with a kind, provenance registration, raise, star
exclusion).  The rules of C01/C08/C09/C10 compare these records with the
hand-derived oracle tables of DESIGN.md appendix B.
"""
from .index import Inconclusive
from .interp import Interp, Policy, show, show_lit, walk_effects, K, NONE, subterms, Effect
from .algebra import Protocol, Sides, KINDS, kind_of_attr_term, no_inline_algebra, SIG


class Val(object):
    """abstract parameter value (E4)"""
    __slots__ = ('base', 'side', 'kind', 'conc', 'default', 'each', 'origin', 'annot_touched', 'unknown')

    def __init__(self):
        self.base = None       # term of the parameter whose name/kind is kept
        self.side = None       # 'L' / 'R' / 'OUT' ...
        self.kind = None       # 'PO'.. or None (unknown)
        self.conc = []         # terms conciled with
        self.default = 'kept'  # kept | cleared | set
        self.each = False      # a collection of such values
        self.origin = None     # (side, idx) bucket the base comes from
        self.unknown = None

    def descr(self):
        if self.unknown:
            return 'unknown(%s)' % self.unknown
        s = '%s%s' % ('each ' if self.each else '', show(self.base))
        if self.conc:
            s = 'conc(%s, %s)' % (s, ', '.join(show(c) for c in self.conc))
        return '%s:kind=%s%s' % (s, self.kind, '' if self.default == 'kept' else ':default ' + self.default)


class MergeModel(object):
    def __init__(self, repo, proto=None, depth=5):
        self.repo = repo
        self.proto = proto or Protocol(repo)
        self.cls = repo.cls(SIG + ':_Merger')
        self.f_init = self.cls.methods.get('__init__')
        self.f_iter = self.cls.methods.get('__iter__')
        if self.f_init is None or self.f_iter is None:
            raise Inconclusive('_Merger.__init__/__iter__ vanished')
        self._sides()
        self.isnone_star_tests = []
        self.interp = Interp(repo, Policy(inline=no_inline_algebra, max_depth=depth, split_ifexp=True))
        self.paths = self.interp.run(self.f_iter)
        self.self_t = ('P', self.f_iter.params()[0][0])
        self.sides = Sides(self.proto, [(('A', self.self_t, self.attr_l), 'L'), (('A', self.self_t, self.attr_r), 'R')])
        self._outputs()
        self._limbo()

    # -- which attribute holds which operand ---------------------------------
    def _sides(self):
        it = Interp(self.repo, Policy())
        ps = it.run(self.f_init)
        pos = self.f_init.params()[0]
        if len(pos) < 3:
            raise Inconclusive('_Merger.__init__ no longer takes two operands')
        attr = {}
        for p in ps:
            for e in p.effects:
                if e.kind == 'store_attr' and e.target == ('P', pos[0]) and e.args and e.args[0][0] == 'P':
                    attr[e.args[0][1]] = e.op
        if pos[1] not in attr or pos[2] not in attr:
            raise Inconclusive('_Merger.__init__ does not store its operands')
        self.attr_l = attr[pos[1]]
        self.attr_r = attr[pos[2]]

    # -- output holders by protocol position ---------------------------------
    def _outputs(self):
        self.out_objs = {}      # object term -> idx
        self.star_results = {}  # idx (2/4) -> list of (path, term)
        self.ret_paths = []
        for p in self.paths:
            if p.status != 'return':
                continue
            v = p.value
            if v[0] == 'C' and v[1] == 'iter' and len(v[2]) == 1:
                v = v[2][0]
            if v[0] == 'IT':
                v = v[1]
            if v[0] != 'T' or len(v[1]) != 6:
                raise Inconclusive('_Merger.__iter__: return shape not a 6-tuple: %s' % show(v))
            self.ret_paths.append((p, v[1]))
            for i, t in enumerate(v[1]):
                if t[0] in ('L', 'D', 'SET'):
                    if self.out_objs.setdefault(t, i) != i:
                        raise Inconclusive('_Merger: one object returned at two positions')
        if not self.ret_paths:
            raise Inconclusive('_Merger.__iter__: no returning path')
        self.raise_paths = [p for p in self.paths if p.status == 'raise']
        for i in (0, 1, 3, 5):
            if i not in self.out_objs.values():
                raise Inconclusive('_Merger: output position %d is not a fresh container' % i)
        self.out_by_idx = dict((i, t) for t, i in self.out_objs.items())
        # attribute of the merger that holds each output bucket (self.posargs, ...)
        self.out_attrs = {}
        for p, _ in self.ret_paths[:1]:
            for e in p.effects:
                if e.kind == 'store_attr' and e.args and e.args[0] in self.out_objs:
                    self.out_attrs.setdefault(e.op, self.out_objs[e.args[0]])

    # -- unmatched keyword-only dictionaries ---------------------------------
    def _limbo(self):
        """D is side s's unmatched-KWO dict when a loop over (s, KWO) stores
        elem into D[elem.name] under `elem.name not in (other, KWO)`"""
        self.limbo = {}    # object term -> side
        kwo = self.proto.index_of_kind('KWO')
        for p, _ in self.ret_paths[:1]:
            for e in p.effects:
                if e.kind != 'loop':
                    continue
                b = self.sides.bucket(e.target)
                if b is None or b[1] != kwo:
                    continue
                for sp in e.sub:
                    for ef in sp.effects:
                        if ef.kind == 'mut' and ef.op == 'setitem' and ef.target[0] == 'D' and ef.target not in self.out_objs:
                            val = ef.args[1]
                            if val[0] == 'E' and self.sides.bucket(val[1]) == b:
                                self.limbo[ef.target] = b[0]

    # -- value abstraction -----------------------------------------------------
    def val(self, t, depth=0):
        v = Val()
        if depth > 12:
            v.unknown = 'depth'
            return v
        k = t[0]
        if k in ('E', 'N'):
            src = t[1]
            if src in self.out_objs or (src[0] == 'IT' and src[1] in self.out_objs):
                o = src if src in self.out_objs else src[1]
                idx = self.out_objs[o]
                v.base, v.side, v.origin = t, 'OUT', ('OUT', idx)
                v.kind = self.proto.kind_at(idx)
                return v
            b = self.sides.bucket(src)
            if b is not None and b[1] < 5:
                v.base, v.side, v.origin = t, b[0], b
                v.kind = self.proto.kind_at(b[1])
                return v
            if src in self.limbo or (src[0] == 'M' and src[2] == 'values' and src[1] in self.limbo):
                o = src if src in self.limbo else src[1]
                v.base, v.side, v.origin = t, self.limbo[o], (self.limbo[o], self.proto.index_of_kind('KWO'))
                v.kind = 'KWO'
                return v
            v.unknown = 'element of ' + show(src)
            return v
        b = self.sides.bucket(t)
        if b is not None and b[1] in (self.proto.index_of_kind('VP'), self.proto.index_of_kind('VK')):
            v.base, v.side, v.origin = t, b[0], b
            v.kind = self.proto.kind_at(b[1])
            return v
        if k == 'S':
            b = self.sides.bucket(t[1])
            if b is not None and b[1] < 5:
                v.base, v.side, v.origin = t, b[0], b
                v.kind = self.proto.kind_at(b[1])
                return v
            if t[1] in self.limbo:
                v.base, v.side, v.origin = t, self.limbo[t[1]], (self.limbo[t[1]], self.proto.index_of_kind('KWO'))
                v.kind = 'KWO'
                return v
        if k == 'M' and t[2] in ('pop', 'get') and t[1] in self.limbo:
            v.base, v.side, v.origin = t, self.limbo[t[1]], (self.limbo[t[1]], self.proto.index_of_kind('KWO'))
            v.kind = 'KWO'
            return v
        if k == 'C' and isinstance(t[1], str) and t[1].endswith('._concile_meta') and len(t[2]) == 3:
            a = self.val(t[2][1], depth + 1)
            a.conc = a.conc + [t[2][2]]
            return a
        if k == 'M' and t[2] == 'replace':
            a = self.val(t[1], depth + 1)
            for n, x in t[4]:
                if n == 'kind':
                    kk = kind_of_attr_term(x)
                    a.kind = kk
                    if kk is None:
                        a.unknown = 'kind=' + show(x)
                elif n == 'default':
                    if x[0] == 'A' and x[2] in ('empty', '_empty'):
                        a.default = 'cleared'
                    else:
                        a.default = 'set'
                elif n == 'name':
                    a.unknown = 'renamed'
            return a
        if k == 'G':
            a = self.val(t[2], depth + 1)
            a.each = True
            return a
        if k in ('L', 'D') and t in self.interp.obj_init and t not in self.out_objs and t not in self.limbo:
            init = self.interp.obj_init[t]
            if init[0] == 'T' and not init[1]:
                v.base, v.kind, v.each = t, 'EMPTY', True
                return v
            return self.val(init, depth + 1)
        if k == 'C' and t[1] in ('list', 'tuple', 'iter') and len(t[2]) == 1:
            return self.val(t[2][0], depth + 1)
        if k == 'K' and t[1] is None:
            v.base, v.kind = t, 'NONE'
            return v
        if t in self.out_objs or t in self.limbo:
            # a whole container of parameters
            if t in self.out_objs:
                idx = self.out_objs[t]
                v.base, v.side, v.origin, v.each = t, 'OUT', ('OUT', idx), True
                v.kind = self.proto.kind_at(idx)
            else:
                v.base, v.side, v.each = t, self.limbo[t], True
                v.origin = (self.limbo[t], self.proto.index_of_kind('KWO'))
                v.kind = 'KWO'
            return v
        b = self.sides.bucket(t)
        if b is not None and b[1] < 5:
            v.base, v.side, v.origin, v.each = t, b[0], b, True
            v.kind = self.proto.kind_at(b[1])
            return v
        v.unknown = show(t)
        return v

    # -- provenance maps -------------------------------------------------------
    def src_sides(self, terms):
        """which operands' provenance maps occur in these terms"""
        sides = set()
        unknown = False
        idx = 5
        for t in terms:
            found = False
            for s in subterms(t):
                b = self.sides.bucket(s)
                if b is not None and b[1] == idx:
                    sides.add(b[0])
                    found = True
            if not found:
                unknown = True
        return sides, unknown

    # -- canonical guards ------------------------------------------------------
    def canon_lit(self, atom, pol, cur):
        """cur: dict side -> current element term. returns (name, pol) or None"""
        k = atom[0]
        if k in ('truthy', 'isnone') and atom[1][0] == 'M' and atom[1][2] == 'get' and len(atom[1][3]) == 1 and not atom[1][4]:
            # `D.get(name)` tested for presence: buckets hold Parameter objects (never None, always truthy), so
            # `D.get(n) is not None` / `if D.get(n)` is the membership test `n in D`
            r = self.canon_lit(('in', atom[1][3][0], atom[1][1]), pol if k == 'truthy' else not pol, cur)
            if r is not None:
                return r
        if k == 'isnone':
            # `star is None` on a star slot: for operands classified by sort_params (None or a Parameter) this is the
            # truthiness test; recorded, because an operand built elsewhere may hold another falsy placeholder (C02.R4)
            b = self.sides.bucket(atom[1])
            if b is not None and self.proto.kind_at(b[1]) in ('VP', 'VK'):
                self.isnone_star_tests.append(atom)
                return (('star', b[0], self.proto.kind_at(b[1])), not pol)
        if k == 'truthy':
            t = atom[1]
            for s, el in cur.items():
                if t == el:
                    return (('has', s), pol)
            b = self.sides.bucket(t)
            if b is not None:
                kind = self.proto.kind_at(b[1])
                if kind in ('VP', 'VK'):
                    return (('star', b[0], kind), pol)
                if kind in ('PO', 'POK', 'KWO'):
                    return (('nonempty', b[0], kind), pol)
            if t in self.limbo:
                return (('limbo_nonempty', self.limbo[t]), pol)
            if t[0] == 'L' and t in self.interp.obj_init:
                g = self.interp.obj_init[t]
                req = self._required_filter(g)
                if req is not None:
                    return ((req[0], req[1]), pol)
            if t[0] == 'C' and t[1] == 'all' and len(t[2]) == 1 and t[2][0] in self.star_lists():
                return (('all', self.star_lists()[t[2][0]]), pol)
            if t[0] == 'S' and t[1] in self.star_lists() and t[2][0] == 'K':
                return (('which', self.star_lists()[t[1]], t[2][1]), pol)
            return None
        if k == 'eq':
            a, b = atom[1], atom[2]
            if a[0] == 'A' and b[0] == 'A' and a[2] == 'name' and b[2] == 'name':
                return (('eqname', frozenset([a[1], b[1]])), pol)
            return None
        if k == 'exhausted':
            b = self.sides.bucket(atom[1])
            if b is not None:
                return (('exhausted', b[0], self.proto.kind_at(b[1])), pol)
            return None
        if k == 'in':
            a, c = atom[1], atom[2]
            if a[0] == 'A' and a[2] == 'name':
                if c in self.limbo:
                    return (('in_limbo', self.limbo[c], a[1]), pol)
                b = self.sides.bucket(c)
                if b is not None and self.proto.kind_at(b[1]) == 'KWO':
                    return (('in_kwo', b[0], a[1]), pol)
            return None
        if k == 'has_default':
            return (('has_default', atom[1]), pol)
        if k == 'broke':
            return (('broke',), pol)
        return None

    def _required_filter(self, g):
        """list comprehension `[p for p in D.values() if p.default == p.empty]`
        -> the side whose unmatched dict D is filtered"""
        if g[0] != 'G' or len(g[3]) != 1:
            return None
        it, conds, lid = g[3][0]
        src = it[1] if (it[0] == 'M' and it[2] == 'values') else it
        if src not in self.limbo:
            return None
        if g[2] != ('E', it, lid):
            return None
        if len(conds) == 1 and conds[0][0] == 'lit' and conds[0][1] == ('has_default', ('E', it, lid)):
            return ('some_required' if conds[0][2] is False else 'some_defaulted', self.limbo[src])
        return None

    def star_lists(self):
        """the two `[l.star, r.star]` bookkeeping lists -> 'VP' / 'VK'"""
        if hasattr(self, '_star_lists'):
            return self._star_lists
        out = {}
        for t, init in self.interp.obj_init.items():
            if t[0] == 'L' and init[0] == 'T' and len(init[1]) == 2:
                b0 = self.sides.bucket(init[1][0])
                b1 = self.sides.bucket(init[1][1])
                if b0 and b1 and b0[0] == 'L' and b1[0] == 'R' and b0[1] == b1[1]:
                    kind = self.proto.kind_at(b0[1])
                    if kind in ('VP', 'VK'):
                        out[t] = kind
        self._star_lists = out
        return out

    # -- canonical effects -----------------------------------------------------
    def canon_effects(self, effects, lits=(), toplevel=False):
        """flatten the effects of a per-parameter path into canonical records;
        toplevel=True: effects inside loop regions are left to those regions"""
        out = []
        for e, g in ([(x, ()) for x in effects] if toplevel else walk_effects(effects)):
            nested = bool(g)
            if e.kind == 'mut':
                tgt = e.target
                if tgt in self.out_objs:
                    idx = self.out_objs[tgt]
                    if idx == 5:
                        out.append(self._src_effect(e, nested))
                        continue
                    if e.op in ('append', 'add'):
                        out.append(('put', idx, self.val(e.args[0]), e, nested))
                    elif e.op == 'extend':
                        v = self.val(e.args[0])
                        v.each = True
                        out.append(('put', idx, v, e, nested))
                    elif e.op == 'setitem':
                        out.append(('put', idx, self.val(e.args[1]), e, nested, e.args[0]))
                    elif e.op == 'update':
                        v = self.val(e.args[0]) if e.args else None
                        if v is not None:
                            v.each = True
                        out.append(('put', idx, v, e, nested))
                    elif e.op == 'setslice':
                        v = self.val(e.args[2])
                        if e.args[0] == NONE and e.args[1] == NONE and v.kind == 'EMPTY':
                            out.append(('clear', idx, e))
                        else:
                            out.append(('put', idx, v, e, nested))
                    elif e.op == 'clear':
                        out.append(('clear', idx, e))
                    elif e.op in ('pop', 'remove', 'delitem'):
                        out.append(('remove', idx, e))
                    elif e.op == 'insert':
                        out.append(('put', idx, self.val(e.args[1]), e, nested))
                    else:
                        out.append(('other', e))
                elif tgt in self.limbo:
                    if e.op == 'pop':
                        out.append(('limbo_pop', self.limbo[tgt], e))
                    elif e.op == 'setitem':
                        out.append(('limbo_add', self.limbo[tgt], self.val(e.args[1]), e))
                    else:
                        out.append(('other', e))
                elif tgt in self.star_lists():
                    out.append(('star_list_mut', self.star_lists()[tgt], e))
                else:
                    b = self.sides.bucket(tgt)
                    if b is not None:
                        out.append(('input_mut', b, e))
                    else:
                        out.append(('other', e))
            elif e.kind == 'call' and e.extra == 'package':
                name = e.op.split(':')[-1]
                if name == '_add_sources' and e.args and e.args[0] in self.out_objs and self.out_objs[e.args[0]] == 5:
                    sides, unk = self.src_sides(e.args[2:])
                    out.append(('src', e.args[1], sides, unk, e, nested))
                elif name == '_add_all_sources' and e.args and e.args[0] in self.out_objs and len(e.args) == 3:
                    sides, unk = self.src_sides(e.args[2:])
                    out.append(('src_all', e.args[1], sides, unk, e))
                elif name == '_exclude_from_seq' and len(e.args) == 2 and e.args[0] in self.star_lists():
                    b = self.sides.bucket(e.args[1])
                    out.append(('exclude', self.star_lists()[e.args[0]], b, e))
                elif name.endswith('_concile_meta') or name.endswith('_merge_depths'):
                    pass
                else:
                    out.append(('other', e))
            elif e.kind == 'raise':
                out.append(('raise', self.interp._exc_name(e.target), e))
            elif e.kind == 'store_attr':
                v0 = e.args[0]
                init0 = self.interp.obj_init.get(v0)
                if e.op in self.out_attrs and self.out_attrs[e.op] < 5 and v0[0] in ('L', 'D') and init0 is not None \
                        and init0[0] == 'T' and not init0[1]:
                    # the attribute holding an output bucket is rebound to a fresh empty container: what the bucket held
                    # so far is dropped, exactly as by `bucket[:] = []`
                    out.append(('clear', self.out_attrs[e.op], e))
                out.append(('store', e.op, e.args[0], e))
        return out

    def _src_effect(self, e, nested):
        if e.op == 'setitem':
            key, val = e.args
            terms = [val]
            if val in self.interp.obj_init:
                terms = [self.interp.obj_init[val]]
            sides, unk = self.src_sides(terms)
            return ('src', key, sides, unk, e, nested)
        if e.op == 'setdefault':
            return ('other', e)
        if e.op in ('pop', 'delitem'):
            return ('src_del', e.args[0], e)
        return ('other', e)

    # -- loops ------------------------------------------------------------------
    def loops(self):
        """classified loop regions of _merge: list of (kind, info, loop effect, outer path)"""
        out = []
        seen = set()
        for p, _ in self.ret_paths:
            for e in p.effects:
                if e.kind != 'loop' or e.ctx in seen:
                    continue
                seen.add(e.ctx)
                out.append(self.classify_loop(e) + (e, p))
        return out

    def classify_loop(self, e):
        t = e.target
        if t[0] == 'C' and isinstance(t[1], str) and t[1].endswith('zip_longest') and len(t[2]) == 2:
            b0, b1 = self.sides.bucket(t[2][0]), self.sides.bucket(t[2][1])
            if b0 and b1 and b0[1] == b1[1] and set([b0[0], b1[0]]) == set(['L', 'R']):
                kind = self.proto.kind_at(b0[1])
                cur = {b0[0]: ('E', t[2][0], e.ctx), b1[0]: ('E', t[2][1], e.ctx)}
                return ('zip', {'kind': kind, 'cur': cur})
        b = self.sides.bucket(t)
        if b is not None:
            kind = self.proto.kind_at(b[1])
            return ('single', {'kind': kind, 'side': b[0], 'cur': {b[0]: ('E', t, e.ctx)}})
        return ('unknown', {})
