"""Two narrow implicit-exception rules for the algebra (C15.R6, C15.R7).

Implicit exceptions of dynamically typed expressions are in general outside
what this analysis decides.  Two sources are decidable here because the
relevant facts are visible in the code:

R6 nullable dereference -- star slots of the bucket protocol are `Parameter or
   None` (sort_params initialises them to None; _add_starargs returns None) and
   zip_longest pads with None.  Reading an attribute of such a value on a path
   that carries no truthiness/None test of that very value raises
   AttributeError for every input lacking the star parameter.
R7 partial-map lookup -- provenance maps of inputs can lack entries (a plain
   inspect.Signature is upgraded with an empty map).  A bare subscript load or
   a pop without default on a map that is a handle on an input raises KeyError.
"""
import ast

from .index import Inconclusive, norm
from .interp import Interp, Policy, show, show_lit, walk_effects, K, NONE, subterms, mentions
from .rules_merge import site, fkey, lits_text


def _attr_reads(terms):
    for t in terms:
        if t is None:
            continue
        for s in subterms(t):
            if isinstance(s, tuple) and s and s[0] == 'A':
                yield s


def _path_terms(effects, value):
    for e, g in walk_effects(effects):
        yield e, g, list(e.args) + [v for _, v in e.kws] + ([e.target] if e.target is not None else [])
    if value is not None:
        yield None, (), [value]


def _guarded(lits, t, partner=None):
    for atom, pol in lits:
        if atom[0] == 'truthy' and atom[1] == t and pol:
            return True
        if atom[0] == 'isnone' and atom[1] == t and not pol:
            return True
        if atom[0] == 'isinstance' and atom[1] == t and pol:
            return True
        # zip_longest never pads both sides
        if partner is not None and atom[0] == 'truthy' and atom[1] == partner and not pol:
            return True
    return False


def rule_nullable_deref(check, rule, merge_model, embed_model, mask_model):
    n = 0
    seen = set()

    def scan(model, paths, is_nullable, where, partner_of=lambda t: None):
        nonlocal n
        for p in paths:
            def walk(effects, lits):
                nonlocal n
                for e in effects:
                    terms = list(e.args) + [v for _, v in e.kws] + ([e.target] if e.target is not None else [])
                    if e.kind == 'loop':
                        for sp in e.sub:
                            walk(sp.effects, lits + list(sp.lits))
                            _check_lits(sp.lits, lits + list(sp.lits), e)
                        continue
                    for a in _attr_reads(terms):
                        base = a[1]
                        if is_nullable(base):
                            n += 1
                            judge(base, a[2], lits, e.node, where, partner_of(base))

            def _check_lits(newlits, all_lits, e):
                nonlocal n
                # attribute reads inside conditions (e.g. `left.name == right.name`)
                for i, (atom, pol) in enumerate(newlits):
                    prior = [l for l in all_lits if l is not newlits[i]][:len(all_lits) - len(newlits) + i]
                    for x in atom[1:]:
                        if isinstance(x, tuple):
                            for a in _attr_reads([x]):
                                if is_nullable(a[1]):
                                    n += 1
                                    judge(a[1], a[2], prior, e.node, where, partner_of(a[1]))
            walk(p.effects, list(p.lits))
            for i, (atom, pol) in enumerate(p.lits):
                for x in atom[1:]:
                    if isinstance(x, tuple):
                        for a in _attr_reads([x]):
                            if is_nullable(a[1]):
                                n += 1
                                judge(a[1], a[2], list(p.lits[:i]), None, where, partner_of(a[1]))

    def judge(base, attr, lits, node, where, partner):
        key = '%s|deref|%s.%s' % (where, show(base)[:60], attr)
        ok = _guarded(lits, base, partner)
        ident = (key, ok)
        if ident in seen:
            return
        seen.add(ident)
        st = site(None, node) if node is not None else where
        if ok:
            check.holds(rule, st, '%s.%s is read behind a test that the value is present' % (show(base)[:50], attr), key=key)
        else:
            check.violation(rule, st, '%s may be None (a star parameter the signature does not have / padding of zip_longest), and its attribute %r '
                            'is read on a path that never tested it: AttributeError, which is not a ValueError, escapes the algebra'
                            % (show(base)[:60], attr), key=key, guards=lits_text(lits)[:300],
                            witness="mask(s('a, b'), hide_kwargs=True) on a signature without **kwargs")
    # mask
    if mask_model is not None:
        m = mask_model
        iVP, iVK = m.proto.index_of_kind('VP'), m.proto.index_of_kind('VK')

        def nullable(t):
            if t[0] == 'V' and isinstance(t[3], tuple):
                return nullable(t[3])
            b = m.sides.bucket(t)
            return b is not None and b[1] in (iVP, iVK)
        scan(m, m.paths, nullable, '_signatures:_mask')
    if embed_model is not None:
        m = embed_model
        iVP, iVK = m.proto.index_of_kind('VP'), m.proto.index_of_kind('VK')

        def nullable_e(t):
            b = m.sides.bucket(t)
            return b is not None and b[1] in (iVP, iVK)
        scan(m, m.paths, nullable_e, '_signatures:_embed')
    if merge_model is not None:
        m = merge_model
        iVP, iVK = m.proto.index_of_kind('VP'), m.proto.index_of_kind('VK')
        pairs = {}
        for kind, info, loop, outer in m.loops():
            if kind == 'zip':
                l, r = info['cur']['L'], info['cur']['R']
                pairs[l] = r
                pairs[r] = l

        def nullable_m(t):
            if t in m.interp.nullable:
                return True
            b = m.sides.bucket(t)
            return b is not None and b[1] in (iVP, iVK)
        scan(m, m.paths, nullable_m, '_signatures:_Merger', lambda t: pairs.get(t))
    check.floor(rule, 'attribute reads on nullable values', n, 20)


def rule_partial_map_lookup(check, rule, al):
    """al: rules_alias.Alias (provenance of terms, per function paths)"""
    repo = check.repo
    n = 0
    seen = set()
    # which parameters receive provenance maps? seeds: anything named in a (side, 5) position is
    # found through the sources attribute / sort_params position 5 / parameters literally called
    # like that are NOT used -- we follow terms instead
    src_params = {}     # func key -> set of param names that may hold an input's provenance map

    def is_src_term(fi, t, it):
        """does t denote (a handle on) an input provenance map?"""
        for s in subterms(t):
            if s[0] == 'A' and s[2] == 'sources':
                return True
            if s[0] == 'S' and s[2] == K(5) and s[1][0] in ('P', 'C', 'O'):
                return True
            if s[0] == 'P' and s[1] in src_params.get(fi.key, ()):
                return True
        return False
    changed = True
    rounds = 0
    while changed and rounds < 6:
        changed = False
        rounds += 1
        for fi in al.funcs:
            it, ps = al.paths[fi.key]
            for p in ps:
                for e, g in walk_effects(p.effects):
                    if e.kind == 'call' and e.extra == 'package':
                        g2 = repo.func(e.op, required=False)
                        if g2 is None:
                            continue
                        from .rules_embed import _bind
                        b = _bind(g2, e.args, e.kws)
                        if b is None:
                            continue
                        for pname, val in b.items():
                            vals = val[1] if val[0] == 'T' else [val]
                            if any(is_src_term(fi, v, it) for v in vals if isinstance(v, tuple)):
                                if pname not in src_params.setdefault(g2.key, set()):
                                    src_params[g2.key].add(pname)
                                    changed = True
    for fi in al.funcs:
        it, ps = al.paths[fi.key]
        for p in ps:
            for e, g, terms in _path_terms(p.effects, p.value):
                for t in terms:
                    if t is None:
                        continue
                    for s in subterms(t):
                        bad = None
                        if s[0] == 'S' and s[2][0] != 'SLICE' and not (s[2][0] == 'K' and isinstance(s[2][1], int)):
                            recv = s[1]
                            if _is_input_map(fi, recv, it, al, is_src_term):
                                bad = ('subscript', recv, s[2])
                        if s[0] == 'M' and s[2] == 'pop' and len(s[3]) == 1 and _is_input_map(fi, s[1], it, al, is_src_term):
                            bad = ('pop without default', s[1], s[3][0])
                        if bad:
                            n += 1
                            key = '%s|lookup|%s[%s]' % (fi.key, show(bad[1])[:40], show(bad[2])[:30])
                            if key in seen:
                                continue
                            seen.add(key)
                            node = e.node if e is not None else fi.node
                            # guarded by a membership test on the same map and key?
                            guarded = any(atom[0] == 'in' and atom[1] == bad[2] and atom[2] == bad[1] and pol for atom, pol in list(p.lits) + list(g))
                            if guarded:
                                check.holds(rule, site(None, node), 'lookup %s[%s] behind a membership test' % (show(bad[1])[:40], show(bad[2])[:30]), key=key)
                            else:
                                check.violation(rule, site(None, node), 'a provenance map that is a handle on an input is read with a bare %s (%s[%s]): '
                                                'inputs may lack entries (a plain inspect.Signature is upgraded with an empty map), so KeyError, which '
                                                'is not a ValueError, escapes the algebra' % (bad[0], show(bad[1])[:40], show(bad[2])[:30]), key=key,
                                                witness="merge(plain('a, *, k'), plain('a, **kwargs')) with inspect.Signature inputs")
        # R7d (round 9, C15-u): removing an entry is a lookup too.  `del m[k]` / `m.pop(k)` on a provenance map -- a
        # handle on an input's map or the private copy sort_params()/copy_sources() made of it, which has exactly the
        # entries the input had -- raises KeyError for an input that lacks the entry, unless a membership test of that
        # very map and key is on the path or a handler for KeyError encloses the statement.
        for p in ps:
            for e, g in walk_effects(p.effects):
                if e.kind != 'mut' or e.target is None:
                    continue
                if not ((e.op == 'delitem' and len(e.args) == 1) or (e.op == 'pop' and len(e.args) == 1)):
                    continue
                kt = e.args[0]
                if isinstance(kt, tuple) and kt and (kt[0] == 'SLICE' or (kt[0] == 'K' and isinstance(kt[1], int))):
                    continue
                if not (_is_input_map(fi, e.target, it, al, is_src_term) or _is_map_copy(e.target)):
                    continue
                n += 1
                key = '%s|remove|%s[%s]' % (fi.key, show(e.target)[:40], show(kt)[:30])
                if key in seen:
                    continue
                seen.add(key)
                guarded = any(atom[0] == 'in' and atom[1] == kt and atom[2] == e.target and pol for atom, pol in list(p.lits) + list(g))
                if guarded or _in_keyerror_handler(fi.node, e.node):
                    check.holds(rule, site(None, e.node), 'entry removed from a provenance map behind a membership test / KeyError handler', key=key)
                else:
                    check.violation(rule, site(None, e.node), 'an entry is removed from a provenance map with a bare %s (%s[%s]): the map has '
                                    'only the entries the input had (a plain inspect.Signature is upgraded with an empty map), so KeyError, '
                                    'which is not a ValueError, escapes the algebra'
                                    % ('del' if e.op == 'delitem' else 'pop without default', show(e.target)[:40], show(kt)[:30]), key=key,
                                    witness="mask(inspect.signature(lambda a, *, k: 0), 0, 'k')")
        # membership-free .get()/pop-with-default lookups are the accepted idiom: count them
        for p in ps:
            for e, g in walk_effects(p.effects):
                if e.kind == 'call' and e.op == '.get' and _is_input_map(fi, e.target, it, al, is_src_term):
                    n += 1
                    key = '%s|get|%s' % (fi.key, show(e.target)[:40])
                    if key not in seen:
                        seen.add(key)
                        check.holds(rule, site(None, e.node), 'input provenance map read with .get(key, default)', key=key)
    check.floor(rule, 'lookups in input provenance maps', n, 6)


def _is_map_copy(t):
    """the private copy of an input's provenance map: sort_params(...)[5] or copy_sources(...)"""
    if not isinstance(t, tuple) or not t:
        return False
    if t[0] == 'C' and isinstance(t[1], str) and t[1].endswith(':copy_sources'):
        return True
    if t[0] == 'S' and t[2] == K(5) and isinstance(t[1], tuple) and t[1] and t[1][0] == 'C' \
            and isinstance(t[1][1], str) and t[1][1].endswith(':sort_params'):
        return True
    return False


def _in_keyerror_handler(fnode, node):
    if node is None:
        return False
    for tr in ast.walk(fnode):
        if isinstance(tr, ast.Try) and any(x is node for b in tr.body for x in ast.walk(b)):
            for h in tr.handlers:
                names = [norm(x) for x in (h.type.elts if isinstance(h.type, ast.Tuple) else [h.type])] if h.type is not None else ['BaseException']
                if any(nm in ('KeyError', 'LookupError', 'Exception', 'BaseException') for nm in names):
                    return True
    return False


def _is_input_map(fi, recv, it, al, is_src_term):
    if recv[0] in ('D', 'L', 'SET', 'O', 'K'):
        return False
    if recv[0] == 'C' and isinstance(recv[1], str) and recv[1].endswith(':copy_sources'):
        return False
    if not is_src_term(fi, recv, it):
        # E(T(...)) over *from_sources
        if recv[0] == 'E':
            return _is_input_map(fi, recv[1], it, al, is_src_term)
        return False
    # a private copy is complete for the keys the code itself wrote; only handles on inputs count
    pr = al.prov(fi, recv, it)
    return bool(pr)
