"""Whole-package call graph over resolved callees (E1) and the exception-escape
analysis built on it (E6)."""
import ast
import builtins

from .index import Inconclusive, norm, FuncInfo


class CallSite(object):
    __slots__ = ('node', 'callees', 'external', 'dynamic', 'func', 'cha')

    def __init__(self, node, func):
        self.node = node
        self.func = func
        self.callees = []      # FuncInfo
        self.external = None   # dotted text of an external callee
        self.dynamic = None    # text of a call on a local value (user code / unknown)
        self.cha = []          # dynamic method call: every package method of that name (class-hierarchy approximation)


def _own_nodes(fnode):
    """nodes of a function body, not descending into nested defs/lambdas/classes"""
    stack = list(ast.iter_child_nodes(fnode))
    while stack:
        n = stack.pop()
        yield n
        if isinstance(n, (ast.FunctionDef, ast.AsyncFunctionDef, ast.Lambda, ast.ClassDef)):
            # decorators and defaults are evaluated in the enclosing function
            for d in getattr(n, 'decorator_list', []):
                stack.append(d)
            continue
        stack.extend(ast.iter_child_nodes(n))


def local_names(fnode):
    names = set()
    a = fnode.args
    for x in a.posonlyargs + a.args + a.kwonlyargs + [y for y in (a.vararg, a.kwarg) if y]:
        names.add(x.arg)
    for n in _own_nodes(fnode):
        if isinstance(n, ast.Name) and isinstance(n.ctx, (ast.Store, ast.Del)):
            names.add(n.id)
        elif isinstance(n, (ast.FunctionDef, ast.AsyncFunctionDef, ast.ClassDef)):
            names.add(n.name)
        elif isinstance(n, ast.ExceptHandler) and n.name:
            names.add(n.name)
        elif isinstance(n, (ast.Import, ast.ImportFrom)):
            for al in n.names:
                names.add((al.asname or al.name).split('.')[0])
    for n in _own_nodes(fnode):
        if isinstance(n, (ast.Global, ast.Nonlocal)):
            for x in n.names:
                names.discard(x)
    return names


def resolve_once(fnode, expr):
    """a local name bound exactly once in `fnode` (by a plain assignment) stands for the expression it was given:
    `it = self.xs; for x in it:` iterates self.xs.  Anything else is returned as it is."""
    seen = 0
    while isinstance(expr, ast.Name) and seen < 5:
        seen += 1
        binds = []
        for n in _own_nodes(fnode):
            if isinstance(n, ast.Name) and isinstance(n.ctx, (ast.Store, ast.Del)) and n.id == expr.id:
                binds.append(n)
        if len(binds) != 1:
            return expr
        val = None
        for n in _own_nodes(fnode):
            if isinstance(n, ast.Assign) and len(n.targets) == 1 and n.targets[0] is binds[0]:
                val = n.value
        if val is None:
            return expr
        expr = val
    return expr


def raise_key(fnode, node, method=False):
    """construct key of a raised/asserted expression: `Cls('<message constant>')` when the exception is built from a message
    constant (whatever is formatted into it), else the expression with locals written `$`"""
    if isinstance(node, ast.Call) and isinstance(node.func, (ast.Name, ast.Attribute)) and node.args:
        a = node.args[0]
        msg = None
        if isinstance(a, ast.Constant) and isinstance(a.value, str):
            msg = a.value
        elif isinstance(a, ast.Call) and isinstance(a.func, ast.Attribute) and a.func.attr == 'format' and \
                isinstance(a.func.value, ast.Constant) and isinstance(a.func.value.value, str):
            msg = a.func.value.value
        elif isinstance(a, ast.BinOp) and isinstance(a.op, ast.Mod) and isinstance(a.left, ast.Constant) and isinstance(a.left.value, str):
            msg = a.left.value
        elif isinstance(a, ast.JoinedStr):
            msg = ''.join(v.value if isinstance(v, ast.Constant) else '{}' for v in a.values)
        if msg is not None:
            return '%s(%r)' % (norm(node.func), msg)
    return norm_locals(fnode, node, method)


def norm_locals(fnode, node, method=False):
    """normalised text of `node` with the local variables and parameters of the enclosing function `fnode` written as `$`
    (keys built from it survive a renaming of locals); `self`/`cls` are kept"""
    loc = local_names(fnode) - set(['self', 'cls'])
    first = None
    if method:
        a = fnode.args.posonlyargs + fnode.args.args
        if a and a[0].arg not in ('self', 'cls'):
            first = a[0].arg          # the receiver under another name
            loc.discard(first)
    try:
        c = ast.parse(norm(node), mode='eval')     # (a fresh tree: the indexed one carries parent links)
    except SyntaxError:
        return norm(node)
    for n in ast.walk(c):
        if isinstance(n, ast.Name) and n.id in loc:
            n.id = '$'
        elif isinstance(n, ast.Name) and first is not None and n.id == first:
            n.id = 'self'
    return norm(c.body)


CHA_STOP = frozenset([
    'append', 'extend', 'get', 'pop', 'update', 'items', 'values', 'keys', 'add', 'discard', 'format', 'join', 'split',
    'index', 'insert', 'remove', 'setdefault', 'copy', 'clear', 'lstrip', 'startswith', 'rpartition', 'match', 'group',
    'groups', 'intersection', 'connect', 'wrap',
])


class CallGraph(object):
    def __init__(self, repo):
        self.repo = repo
        self.sites = {}     # func key -> [CallSite]
        self.n_resolved = 0
        self.n_external = 0
        self.n_dynamic = 0
        for fi in repo.all_funcs():
            self.sites[fi.key] = self._sites_of(fi)
        # class-hierarchy approximation for dynamic method calls (used by the
        # may-raise analysis only): x.m(...) may call any package method named m
        by_name = {}
        for m in repo.modules.values():
            for ci in m.classes.values():
                for name, fi in ci.methods.items():
                    by_name.setdefault(name, []).append(fi)
        for sites in self.sites.values():
            for cs in sites:
                if cs.dynamic and isinstance(cs.node.func, ast.Attribute):
                    name = cs.node.func.attr
                    if name not in CHA_STOP and not (name.startswith('__') and name.endswith('__')):
                        cs.cha = list(by_name.get(name, []))

    # -- resolution ------------------------------------------------------------
    def _sites_of(self, fi):
        out = []
        locs = local_names(fi.node)
        outer_locs = set()
        p = fi.parent
        while p is not None:
            outer_locs |= local_names(p.node)
            p = p.parent
        nested = {}
        for n in _own_nodes(fi.node):
            if isinstance(n, (ast.FunctionDef, ast.AsyncFunctionDef)) and hasattr(n, '_funcinfo'):
                nested[n.name] = n._funcinfo
        selfname = None
        pos = fi.params()[0]
        if fi.cls is not None and pos and not fi.is_static():
            selfname = pos[0]
        # local aliases  x = <resolvable expression>  (single assignment)
        for n in _own_nodes(fi.node):
            if not isinstance(n, ast.Call):
                continue
            cs = CallSite(n, fi)
            self._resolve(cs, n.func, fi, locs, outer_locs, nested, selfname)
            out.append(cs)
        return out

    def _resolve(self, cs, f, fi, locs, outer_locs, nested, selfname):
        repo = self.repo
        if isinstance(f, ast.Name):
            if f.id in nested:
                cs.callees.append(nested[f.id])
                self.n_resolved += 1
                return
            if f.id in locs or f.id in outer_locs:
                # enclosing function's nested def?
                p = fi.parent
                while p is not None:
                    for n in _own_nodes(p.node):
                        if isinstance(n, (ast.FunctionDef, ast.AsyncFunctionDef)) and n.name == f.id and hasattr(n, '_funcinfo'):
                            cs.callees.append(n._funcinfo)
                            self.n_resolved += 1
                            return
                    p = p.parent
                cs.dynamic = f.id
                self.n_dynamic += 1
                return
            r = repo.resolve_global(fi.module, f.id)
            self._apply(cs, r, f.id)
            return
        if isinstance(f, ast.Attribute):
            base = f.value
            # self.m / cls.m
            if isinstance(base, ast.Name) and base.id == selfname and fi.cls is not None:
                m = repo.lookup_method(fi.cls, f.attr)
                if m is not None:
                    cs.callees.append(m)
                    self.n_resolved += 1
                    return
                cs.dynamic = norm(f)
                self.n_dynamic += 1
                return
            root = base
            while isinstance(root, ast.Attribute):
                root = root.value
            if isinstance(root, ast.Name) and root.id not in locs and root.id not in outer_locs:
                r = repo.resolve_attr_chain(fi.module, f)
                if r is not None:
                    self._apply(cs, r, norm(f))
                    return
                rb = repo.resolve_attr_chain(fi.module, base)
                if rb is not None and rb[0] in ('ext', 'extmodule'):
                    cs.external = '%s.%s' % (rb[1], f.attr)
                    self.n_external += 1
                    return
            if isinstance(base, ast.Call) and isinstance(base.func, ast.Name) and base.func.id == 'super':
                cs.external = 'super().%s' % f.attr
                self.n_external += 1
                return
            cs.dynamic = norm(f)
            self.n_dynamic += 1
            return
        cs.dynamic = norm(f)
        self.n_dynamic += 1

    def _apply(self, cs, r, text):
        repo = self.repo
        if r is None:
            if hasattr(builtins, text.split('.')[0]):
                cs.external = text
                self.n_external += 1
            else:
                cs.dynamic = text
                self.n_dynamic += 1
            return
        if r[0] == 'func':
            cs.callees.append(r[1])
            self.n_resolved += 1
        elif r[0] == 'class':
            ci = r[1]
            for mname in ('__new__', '__init__', '__iter__'):
                m = repo.lookup_method(ci, mname)
                if m is not None:
                    cs.callees.append(m)
            self.n_resolved += 1
            if not cs.callees:
                cs.external = ci.key
        elif r[0] in ('ext', 'extmodule'):
            cs.external = r[1]
            self.n_external += 1
        elif r[0] == 'value':
            # module-level value: a decorated/rebound function or an instance
            v, mod = r[1], r[2]
            tgt = self._unwrap_value(v, mod)
            if tgt:
                cs.callees.extend(tgt)
                self.n_resolved += 1
            else:
                cs.dynamic = text
                self.n_dynamic += 1
        else:
            cs.dynamic = text
            self.n_dynamic += 1

    def _unwrap_value(self, v, mod, depth=0):
        """`f = deco(f)` / `x = partial(f, ...)` / `x = Class()` -> underlying package functions"""
        if depth > 4:
            return []
        out = []
        if isinstance(v, ast.Call):
            for a in list(v.args):
                if isinstance(a, ast.Name):
                    r = self.repo.resolve_global(mod, a.id)
                    if r and r[0] == 'func':
                        out.append(r[1])
                    elif r and r[0] == 'value' and r[1] is not v:
                        out.extend(self._unwrap_value(r[1], r[2], depth + 1))
            r = self.repo.resolve_attr_chain(mod, v.func) if isinstance(v.func, (ast.Name, ast.Attribute)) else None
            if r and r[0] == 'class':
                m = self.repo.lookup_method(r[1], '__call__')
                if m is not None:
                    out.append(m)
        return out

    # -- closure -----------------------------------------------------------------
    def closure(self, keys, stop=()):
        seen = []
        todo = list(keys)
        while todo:
            k = todo.pop()
            if k in seen or k in stop:
                continue
            if k not in self.sites:
                continue
            seen.append(k)
            for cs in self.sites[k]:
                for c in cs.callees:
                    if c.key not in seen:
                        todo.append(c.key)
        return seen

    def edges(self, key):
        out = []
        for cs in self.sites.get(key, []):
            for c in cs.callees:
                out.append((cs, c))
        return out

    def find_cycle_through(self, key):
        """a call cycle through `key`: list of keys, or None"""
        path = []
        seen = set()

        def dfs(k):
            if k in path:
                return False
            path.append(k)
            for cs, c in self.edges(k):
                if c.key == key:
                    path.append(key)
                    return True
                if c.key in seen:
                    continue
                seen.add(c.key)
                if dfs(c.key):
                    return True
            path.pop()
            return False
        if dfs(key):
            return path
        return None


# ---------------------------------------------------------------------------
# E6 exception-escape analysis

class Exc(object):
    __slots__ = ('cls', 'origin', 'node', 'func', 'kind', 'cond', 'via', 'via_node', 'via_func')

    def __init__(self, cls, origin, node, func, kind, cond=None, via=None, via_node=None, via_func=None):
        self.via = via            # key of the first tagged entry-point call site it crossed
        self.via_node = via_node
        self.via_func = via_func
        self.cls = cls          # class name: builtin name or 'module:Class' or '*' (anything)
        self.origin = origin    # construct key of where it is born
        self.node = node
        self.func = func        # FuncInfo where it is born
        self.kind = kind        # raise | assert | external | dynamic
        self.cond = cond        # None, or (func key, parameter, truth) : escapes only if that parameter has that truth value

    def ident(self):
        return (self.cls, self.origin, self.cond, self.via)

    def with_cond(self, cond):
        return Exc(self.cls, self.origin, self.node, self.func, self.kind, cond, self.via, self.via_node, self.via_func)

    def with_via(self, via, node, func):
        return Exc(self.cls, self.origin, self.node, self.func, self.kind, self.cond, via, node, func)

    def __repr__(self):
        return '%s from %s' % (self.cls, self.origin)


# vetted external raisers: dotted suffix -> exception classes
EXTERNAL_RAISERS = {
    'ast.parse': ['SyntaxError'],
    'eval': ['*'],
    'exec': ['*'],
    'compile': ['SyntaxError'],
    'inspect.getsource': ['OSError'],
    'inspect.signature': ['ValueError', 'TypeError'],
    'funcsigs.signature': ['ValueError', 'TypeError'],
    '_util.funcsigs.signature': ['ValueError', 'TypeError'],
    '__import__': ['ImportError'],
    'next': ['StopIteration'],
}


def _reraise_kind(h):
    """does handler h let the caught exception continue?
    'no' | 'always' | 'maybe' | ('ifparam', name, truth)"""
    bare = [s for s in ast.walk(h) if isinstance(s, ast.Raise) and s.exc is None]
    if not bare:
        return 'no'
    conds = []

    def walk(stmts, cond):
        for st in stmts:
            if isinstance(st, ast.Raise) and st.exc is None:
                conds.append(list(cond))
                return True
            if isinstance(st, (ast.Return, ast.Raise, ast.Continue, ast.Break)):
                return True
            if isinstance(st, ast.If):
                lit = None
                t = st.test
                if isinstance(t, ast.Name):
                    lit = (t.id, True)
                elif isinstance(t, ast.UnaryOp) and isinstance(t.op, ast.Not) and isinstance(t.operand, ast.Name):
                    lit = (t.operand.id, False)
                if lit is None:
                    if any(isinstance(x, ast.Raise) and x.exc is None for x in ast.walk(st)):
                        conds.append(None)
                    continue
                e1 = walk(st.body, cond + [lit])
                e2 = walk(st.orelse, cond + [(lit[0], not lit[1])])
                if e1 and e2:
                    return True
                if e1:
                    cond = cond + [(lit[0], not lit[1])]
                elif e2:
                    cond = cond + [lit]
            elif any(isinstance(x, ast.Raise) and x.exc is None for x in ast.walk(st)):
                conds.append(None)
        return False
    walk(h.body, [])
    if any(c is None for c in conds) or not conds:
        return 'maybe'
    if any(len(c) == 0 for c in conds):
        return 'always'
    if len(conds) == 1 and len(conds[0]) == 1:
        return ('ifparam', conds[0][0][0], conds[0][0][1])
    return 'maybe'


def _is_foreign_dunder_load(fi, n):
    """`<expr>.__name__`-like read that can raise AttributeError: a special attribute that not every object has, read off something
    other than the receiver itself / super() / a class or module named in the source"""
    a = n.attr
    if not (a.startswith('__') and a.endswith('__')) or a in ('__class__', '__dict__', '__doc__', '__init__', '__new__', '__eq__', '__ne__',
                                                            '__hash__', '__repr__', '__str__', '__getattribute__', '__setattr__', '__delattr__',
                                                            '__reduce__', '__reduce_ex__', '__sizeof__', '__subclasshook__', '__init_subclass__',
                                                            '__format__', '__dir__', '__le__', '__lt__', '__ge__', '__gt__'):
        return False      # (every object has these)
    base = n.value
    if isinstance(base, ast.Call) and isinstance(base.func, ast.Name) and base.func.id in ('super', 'type'):
        return False
    if isinstance(base, ast.Name):
        if fi.cls is not None:
            a0 = fi.node.args.posonlyargs + fi.node.args.args
            if a0 and a0[0].arg == base.id:
                return False       # the receiver: the package's own object
        if base.id not in local_names(fi.node):
            return False           # a module / class named in the source
    return True


class Escape(object):
    def __init__(self, repo, cg=None, interp=None, tag_entries=(), implicit_attrs=False):
        from .interp import Interp
        self.repo = repo
        self.implicit_attrs = implicit_attrs
        self.tag_entries = set(tag_entries)
        self.cg = cg or CallGraph(repo)
        self.interp = interp or Interp(repo)
        self.local = {}     # func key -> list of items
        self.escape = {}    # func key -> dict ident -> Exc
        for fi in repo.all_funcs():
            self.local[fi.key] = self._items(fi)
        self._fixpoint()

    # -- class names ---------------------------------------------------------------
    def exc_class(self, fi, node):
        """class name of the expression raised / caught"""
        if node is None:
            return None
        if isinstance(node, ast.Call):
            node = node.func
        if isinstance(node, ast.Name):
            if node.id in local_names(fi.node):
                return None
            r = self.repo.resolve_global(fi.module, node.id)
            if r is None:
                return node.id if isinstance(getattr(builtins, node.id, None), type) else None
            if r[0] == 'class':
                return r[1].key
            if r[0] == 'ext':
                return r[1].rsplit('.', 1)[-1]
            return None
        if isinstance(node, ast.Attribute):
            r = self.repo.resolve_attr_chain(fi.module, node)
            if r and r[0] == 'class':
                return r[1].key
            if r and r[0] == 'ext':
                return r[1].rsplit('.', 1)[-1]
            return None
        return None

    def catches(self, hname, cname):
        """True / False / None"""
        if cname == '*':
            return hname in ('BaseException', 'Exception') or None
        return self.interp.exc_subclass(cname, hname)

    # -- local items -----------------------------------------------------------------
    def try_chain(self, fi, node):
        """handlers that can intercept an exception born at `node` inside fi:
        list (innermost first) of (Try node, [(handler, [class names], reraises)])"""
        chain = []
        child = node
        p = getattr(node, '_parent', None)
        while p is not None and child is not fi.node:
            if isinstance(p, ast.Try) and child in p.body:
                hs = []
                for h in p.handlers:
                    if h.type is None:
                        names = ['BaseException']
                    elif isinstance(h.type, ast.Tuple):
                        names = [self.exc_class(fi, e) for e in h.type.elts]
                    else:
                        names = [self.exc_class(fi, h.type)]
                    rer = _reraise_kind(h)
                    hs.append((h, names, rer))
                chain.append((p, hs))
            if isinstance(p, ast.With):
                pass
            child = p
            p = getattr(p, '_parent', None)
        return chain

    def _items(self, fi):
        items = []
        for n in _own_nodes(fi.node):
            if isinstance(n, ast.Raise) and n.exc is not None:
                cls = self.exc_class(fi, n.exc)
                items.append(('raise', n, cls))
            elif isinstance(n, ast.Assert):
                items.append(('raise', n, 'AssertionError'))
            elif self.implicit_attrs and isinstance(n, ast.Attribute) and isinstance(n.ctx, ast.Load) and _is_foreign_dunder_load(fi, n):
                # an implicit source: reading a special attribute off an object the package did not build
                items.append(('implicit', n, 'AttributeError'))
        for cs in self.cg.sites[fi.key]:
            items.append(('call', cs.node, cs))
        return items

    def _filter(self, fi, node, excs):
        """which of excs (born at/under node) escape fi"""
        chain = self.try_chain(fi, node)
        out = []
        for x in excs:
            caught = False
            for tr, hs in chain:
                for h, names, rer in hs:
                    res = [self.catches(hn, x.cls) if hn is not None else None for hn in names]
                    if any(r is True for r in res):
                        if rer == 'no':
                            caught = True
                        elif isinstance(rer, tuple):
                            # re-raised only when a parameter of fi has a given truth value
                            if rer[1] in (fi.params()[0] + fi.params()[2]) and x.cond is None:
                                x = x.with_cond((fi.key, rer[1], rer[2]))
                            # else: keeps travelling unconditionally
                        # re-raised: keeps travelling outwards
                        break
                    # unknown relation: conservatively not caught
                if caught:
                    break
            if not caught:
                out.append(x)
        return out

    def _fixpoint(self):
        for k in self.local:
            self.escape[k] = {}
        changed = True
        rounds = 0
        while changed and rounds < 50:
            changed = False
            rounds += 1
            for k, items in self.local.items():
                fi = self.repo.func(k)
                cur = self.escape[k]
                for kind, node, payload in items:
                    if kind == 'raise':
                        cls = payload
                        origin = '%s|raise:%s' % (fi.key, raise_key(fi.node, node.exc if isinstance(node, ast.Raise) else node.test, method=fi.cls is not None)[:80])
                        excs = [Exc(cls if cls else '?', origin, node, fi, 'assert' if isinstance(node, ast.Assert) else 'raise')]
                    elif kind == 'implicit':
                        origin = '%s|attr:%s' % (fi.key, norm_locals(fi.node, node, method=fi.cls is not None)[:80])
                        excs = [Exc(payload, origin, node, fi, 'implicit')]
                    else:
                        cs = payload
                        excs = []
                        for c in list(cs.callees) + list(cs.cha):
                            for x in self.escape.get(c.key, {}).values():
                                x2 = self._specialise(x, c, cs, fi)
                                if x2 is not None:
                                    if c.key in self.tag_entries and x2.via is None and \
                                            (fi.module.name != c.module.name or fi.key not in self.tag_entries and fi.key.endswith(':signature')):
                                        x2 = x2.with_via('%s|call:%s' % (fi.key, norm(node.func)), node, fi)
                                    excs.append(x2)
                        if cs.external:
                            for suffix, classes in EXTERNAL_RAISERS.items():
                                if cs.external == suffix or cs.external.endswith('.' + suffix):
                                    for c in classes:
                                        excs.append(Exc(c, '%s|ext:%s' % (fi.key, suffix), node, fi, 'external'))
                    for x in self._filter(fi, node, excs):
                        if x.ident() not in cur:
                            cur[x.ident()] = x
                            changed = True

    def _specialise(self, x, callee, cs, caller):
        """resolve a conditional escape against the argument the call site passes"""
        if x.cond is None or x.cond[0] != callee.key:
            return x if x.cond is None else x.with_cond(None)
        pname, truth = x.cond[1], x.cond[2]
        node = cs.node
        pos, vararg, kwonly, kwarg = callee.params()
        a = callee.node.args
        expr = None
        off = 1 if (callee.cls is not None and not callee.is_static() and not isinstance(node.func, ast.Name)) else 0
        if pname in pos:
            i = pos.index(pname) - off
            if 0 <= i < len(node.args) and not any(isinstance(z, ast.Starred) for z in node.args[:i + 1]):
                expr = node.args[i]
        for kw in node.keywords:
            if kw.arg == pname:
                expr = kw.value
            elif kw.arg is None:
                return x.with_cond(None)
        if expr is None:
            # default value
            allpos = a.posonlyargs + a.args
            d = None
            if pname in pos:
                i = pos.index(pname)
                j = i - (len(allpos) - len(a.defaults))
                if j >= 0:
                    d = a.defaults[j]
            elif pname in kwonly:
                d = a.kw_defaults[kwonly.index(pname)]
            expr = d
        if expr is None:
            return x.with_cond(None)
        if isinstance(expr, ast.Constant):
            return x.with_cond(None) if bool(expr.value) == truth else None
        if isinstance(expr, ast.Name):
            cp = caller.params()
            if expr.id in cp[0] + cp[2]:
                stores = [n for n in _own_nodes(caller.node) if isinstance(n, ast.Name) and n.id == expr.id and isinstance(n.ctx, ast.Store)]
                if not stores:
                    return x.with_cond((caller.key, expr.id, truth))
        return x.with_cond(None)

    def of(self, key, include_conditional=True):
        return [x for x in self.escape.get(key, {}).values()]

    def escaping_at(self, fi, node, excs):
        return self._filter(fi, node, excs)
