"""E1 -- source index and callee resolver for the sigtools package.

Everything here reads the working tree of --repo with `ast`; nothing is
imported or executed.
"""
import ast
import os
import sys

NON_TEST_MODULES = [
    '__init__', '_autoforwards', '_signatures', '_specifiers', '_util',
    'modifiers', 'signatures', 'specifiers', 'sphinxext', 'support',
    'wrappers',
]


class Inconclusive(Exception):
    """An anchor vanished or an idiom was not recognised: the rule cannot be
    decided (exit 2, never a pass and never a VIOLATION)."""

    def __init__(self, reason, rule=None):
        Exception.__init__(self, reason)
        self.reason = reason
        self.rule = rule


def norm(node):
    """normalised text of an AST node (used for keys and reports)"""
    if node is None:
        return 'None'
    if isinstance(node, str):
        return node
    try:
        return ast.unparse(node)
    except Exception:  # pragma: no cover
        return ast.dump(node)


def _scope_nodes(fn):
    out = []
    stack = list(ast.iter_child_nodes(fn))
    while stack:
        n = stack.pop()
        out.append(n)
        if isinstance(n, (ast.FunctionDef, ast.AsyncFunctionDef, ast.Lambda, ast.ClassDef)):
            continue
        stack.extend(ast.iter_child_nodes(n))
    return out


def inline_single_use_temps(tree):
    """Normalisation applied to every parsed module before anything looks at it: a local name that is bound exactly once, by
    a plain assignment, and read exactly once, by the statement that immediately follows -- as the iterable of a `for`, the value
    of a `return`, or the whole right-hand side of an assignment -- is replaced by the expression it was given
    (`it = self.xs; for x in it:` is `for x in self.xs:`).  The expression is evaluated at the same point either way, so this
    preserves behaviour; the rules then see one spelling instead of two.  Returns the number of temporaries removed."""
    k = 0
    for fn in [n for n in ast.walk(tree) if isinstance(n, (ast.FunctionDef, ast.AsyncFunctionDef))]:
        nodes = _scope_nodes(fn)
        nested = [n for n in nodes if isinstance(n, (ast.FunctionDef, ast.AsyncFunctionDef, ast.Lambda, ast.ClassDef))]
        nested_names = set()
        for x in nested:
            for y in ast.walk(x):
                if isinstance(y, ast.Name):
                    nested_names.add(y.id)
        declared = set()
        for n in nodes:
            if isinstance(n, (ast.Global, ast.Nonlocal)):
                declared |= set(n.names)
        params = set(a.arg for a in fn.args.posonlyargs + fn.args.args + fn.args.kwonlyargs + [x for x in (fn.args.vararg, fn.args.kwarg) if x])
        stores, loads = {}, {}
        for n in nodes:
            if isinstance(n, ast.Name):
                (loads if isinstance(n.ctx, ast.Load) else stores).setdefault(n.id, []).append(n)
            elif isinstance(n, ast.ExceptHandler) and n.name:
                stores.setdefault(n.name, []).append(n)
        # candidate pairs (block, assignment, following statement, use) per name
        pairs = {}
        blocks = []
        for holder in [fn] + nodes:
            for field in ('body', 'orelse', 'finalbody'):
                blk = getattr(holder, field, None)
                if isinstance(blk, list):
                    blocks.append(blk)
        for blk in blocks:
            for i in range(len(blk) - 1):
                s, nxt = blk[i], blk[i + 1]
                if not (isinstance(s, ast.Assign) and len(s.targets) == 1 and isinstance(s.targets[0], ast.Name)):
                    continue
                t = s.targets[0].id
                if t in params or t in declared or t in nested_names:
                    continue
                use = None
                if isinstance(nxt, ast.For) and isinstance(nxt.iter, ast.Name) and nxt.iter.id == t:
                    use = ('iter', nxt.iter)
                elif isinstance(nxt, (ast.Return, ast.Assign)) and isinstance(nxt.value, ast.Name) and nxt.value.id == t:
                    use = ('value', nxt.value)
                if use is not None:
                    pairs.setdefault(t, []).append((blk, s, nxt, use))
        for t, ps in pairs.items():
            # every binding of the name is such an assignment and every read is the use that follows it
            if len(ps) != len(stores.get(t, [])) or len(ps) != len(loads.get(t, [])):
                continue
            if set(id(u[1]) for _b, _s, _n, u in ps) != set(id(x) for x in loads[t]):
                continue
            for blk, s, nxt, (field, _u) in ps:
                setattr(nxt, field, s.value)
                blk.remove(s)
                k += 1
    return k


class FuncInfo(object):
    def __init__(self, module, qualname, node, cls=None, parent=None):
        self.module = module
        self.qualname = qualname      # e.g. '_Merger._merge'
        self.node = node
        self.cls = cls                # ClassInfo or None
        self.parent = parent          # enclosing FuncInfo (closures)
        self.decorators = node.decorator_list if hasattr(node, 'decorator_list') else []

    @property
    def main_body(self):
        """the statement sequence the function consists of: when the whole body (docstring and declarations aside) is one
        `try: ... finally: ...` without handlers, or one `with ...:`, the statements inside it (rules that look for statements in
        sequence look there; what the wrapper itself does is other rules' business)"""
        body = self.node.body
        for _ in range(4):
            core = [s for s in body if not (isinstance(s, ast.Expr) and isinstance(s.value, ast.Constant) and isinstance(s.value.value, str))
                    and not isinstance(s, (ast.Global, ast.Nonlocal, ast.Pass))]
            if len(core) == 1 and ((isinstance(core[0], ast.Try) and not core[0].handlers and not core[0].orelse)
                                   or isinstance(core[0], (ast.With, ast.AsyncWith))):
                body = core[0].body
            else:
                break
        return body

    @property
    def key(self):
        return '%s:%s' % (self.module.name, self.qualname)

    @property
    def name(self):
        return self.qualname.rsplit('.', 1)[-1]

    def params(self):
        a = self.node.args
        return ([x.arg for x in a.posonlyargs] + [x.arg for x in a.args],
                a.vararg.arg if a.vararg else None,
                [x.arg for x in a.kwonlyargs],
                a.kwarg.arg if a.kwarg else None)

    def is_static(self):
        return any(norm(d) == 'staticmethod' for d in self.decorators)

    def is_classmethod(self):
        return any(norm(d) == 'classmethod' for d in self.decorators)

    def __repr__(self):
        return '<func %s>' % self.key

    def loc(self, node=None):
        node = node or self.node
        return '%s:%d' % (self.module.relpath, getattr(node, 'lineno', 0))


class ClassInfo(object):
    def __init__(self, module, name, node):
        self.module = module
        self.name = name
        self.node = node
        self.methods = {}       # name -> FuncInfo
        self.assigns = {}       # class attribute name -> value node
        self.bases = node.bases

    @property
    def key(self):
        return '%s:%s' % (self.module.name, self.name)

    def __repr__(self):
        return '<class %s>' % self.key


class Module(object):
    def __init__(self, repo, name, path, relpath):
        self.repo = repo
        self.name = name
        self.path = path
        self.relpath = relpath
        with open(path, encoding='utf-8') as f:
            self.src = f.read()
        self.tree = ast.parse(self.src, filename=path)
        self.inlined_temps = inline_single_use_temps(self.tree)
        self.funcs = {}       # qualname -> FuncInfo
        self.classes = {}     # name -> ClassInfo
        self.assigns = {}     # module-level name -> [value nodes] (in order)
        self.imports = {}     # local name -> (module dotted, attr or None)
        self.rebinds = {}     # name -> [Assign nodes rebinding a def'd name]
        self._index()

    def _index(self):
        for node in ast.walk(self.tree):
            for child in ast.iter_child_nodes(node):
                child._parent = node
        self.tree._parent = None
        self._index_body(self.tree.body, None, None, '')
        # imports anywhere at module level (including try/except and the
        # late import at the bottom of _specifiers)
        for node in ast.walk(self.tree):
            if isinstance(node, ast.Import):
                for a in node.names:
                    local = a.asname or a.name.split('.')[0]
                    self.imports.setdefault(local, (a.name if a.asname else a.name.split('.')[0], None))
            elif isinstance(node, ast.ImportFrom):
                for a in node.names:
                    self.imports.setdefault(a.asname or a.name, (node.module or '', a.name))

    def _index_body(self, body, cls, parent_func, prefix):
        for node in body:
            if isinstance(node, (ast.FunctionDef, ast.AsyncFunctionDef)):
                qn = prefix + node.name
                fi = FuncInfo(self, qn, node, cls=cls, parent=parent_func)
                # keep the first definition under the plain key, later ones
                # (version-conditional redefinitions) under key#n
                if qn in self.funcs:
                    n = 2
                    while '%s#%d' % (qn, n) in self.funcs:
                        n += 1
                    self.funcs['%s#%d' % (qn, n)] = fi
                else:
                    self.funcs[qn] = fi
                if cls is not None and parent_func is None:
                    cls.methods[node.name] = fi
                node._funcinfo = fi
                self._index_body(node.body, None, fi, qn + '.')
            elif isinstance(node, ast.ClassDef):
                if cls is None and parent_func is None:
                    ci = ClassInfo(self, node.name, node)
                    self.classes[node.name] = ci
                    node._classinfo = ci
                    self._index_body(node.body, ci, None, node.name + '.')
                else:
                    ci = ClassInfo(self, prefix + node.name, node)
                    self.classes[prefix + node.name] = ci
                    node._classinfo = ci
                    self._index_body(node.body, ci, None, prefix + node.name + '.')
            elif isinstance(node, (ast.Assign, ast.AnnAssign)):
                targets = node.targets if isinstance(node, ast.Assign) else [node.target]
                value = node.value
                for t in targets:
                    if isinstance(t, ast.Name) and value is not None:
                        if cls is not None and parent_func is None:
                            cls.assigns[t.id] = value
                        elif parent_func is None:
                            self.assigns.setdefault(t.id, []).append(value)
            elif isinstance(node, (ast.If, ast.Try, ast.With)):
                # version-conditional definitions: index every arm; dead arms
                # are resolved by the interpreter's constant folding
                for field in ('body', 'orelse', 'finalbody'):
                    self._index_body(getattr(node, field, []) or [], cls, parent_func, prefix)
                for h in getattr(node, 'handlers', []) or []:
                    self._index_body(h.body, cls, parent_func, prefix)
            elif parent_func is not None and isinstance(node, (ast.For, ast.While)):
                for field in ('body', 'orelse'):
                    self._index_body(getattr(node, field, []) or [], cls, parent_func, prefix)

    def func(self, qualname):
        return self.funcs.get(qualname)


class Repo(object):
    def __init__(self, root):
        self.root = os.path.abspath(root)
        self.pkgdir = os.path.join(self.root, 'sigtools')
        if not os.path.isdir(self.pkgdir):
            raise Inconclusive('package directory %s not found' % self.pkgdir)
        self.modules = {}
        for name in NON_TEST_MODULES:
            path = os.path.join(self.pkgdir, name + '.py')
            if not os.path.exists(path):
                continue
            try:
                self.modules[name] = Module(self, name, path, 'sigtools/%s.py' % name)
            except SyntaxError as e:
                raise Inconclusive('cannot parse %s: %s' % (path, e))
        self.n_funcs = sum(len(m.funcs) for m in self.modules.values())

    # -- lookups that fail closed ------------------------------------------
    def module(self, name):
        m = self.modules.get(name)
        if m is None:
            raise Inconclusive('module sigtools/%s.py vanished' % name)
        return m

    def func(self, key, required=True):
        """key = 'module:qualname'"""
        modname, qn = key.split(':', 1)
        m = self.modules.get(modname)
        fi = m.funcs.get(qn) if m else None
        if fi is None and required:
            raise Inconclusive('anchor function %s vanished' % key)
        return fi

    def cls(self, key, required=True):
        modname, name = key.split(':', 1)
        m = self.modules.get(modname)
        ci = m.classes.get(name) if m else None
        if ci is None and required:
            raise Inconclusive('anchor class %s vanished' % key)
        return ci

    def all_funcs(self):
        for m in self.modules.values():
            for fi in m.funcs.values():
                yield fi

    # -- name resolution ---------------------------------------------------
    def resolve_global(self, module, name, _seen=None):
        """What does module-level `name` in `module` denote?
        returns ('func', FuncInfo) | ('class', ClassInfo) | ('module', Module)
              | ('extmodule', dotted) | ('ext', dotted) | ('value', node, Module)
              | None (builtin / unknown)"""
        _seen = _seen or set()
        if (module.name, name) in _seen:
            return None
        _seen.add((module.name, name))
        if name in module.funcs and '.' not in name:
            return ('func', module.funcs[name])
        if name in module.classes:
            return ('class', module.classes[name])
        if name in module.assigns:
            vals = module.assigns[name]
            v = vals[-1]
            # alias  X = Y  /  X = mod.Y
            if isinstance(v, ast.Name):
                r = self.resolve_global(module, v.id, _seen)
                if r is not None:
                    return r
            if isinstance(v, ast.Attribute):
                r = self.resolve_attr_chain(module, v)
                if r is not None:
                    return r
            return ('value', v, module)
        if name in module.imports:
            modname, attr = module.imports[name]
            return self._resolve_import(modname, attr, _seen)
        return None

    def _resolve_import(self, modname, attr, _seen=None):
        parts = modname.split('.') if modname else []
        if parts and parts[0] == 'sigtools':
            if len(parts) == 1:
                if attr is None:
                    return ('module', self.modules.get('__init__'))
                if attr in self.modules:
                    return ('module', self.modules[attr])
                m = self.modules.get('__init__')
                return self.resolve_global(m, attr, _seen) if m else None
            sub = self.modules.get(parts[1])
            if sub is None:
                return ('ext', modname + ('.' + attr if attr else ''))
            if attr is None:
                return ('module', sub)
            return self.resolve_global(sub, attr, _seen)
        if attr is None:
            return ('extmodule', modname)
        return ('ext', '%s.%s' % (modname, attr))

    def resolve_attr_chain(self, module, node):
        """resolve `a.b.c` at module level to a package object if possible"""
        if isinstance(node, ast.Name):
            return self.resolve_global(module, node.id)
        if isinstance(node, ast.Attribute):
            base = self.resolve_attr_chain(module, node.value)
            if base is None:
                return None
            if base[0] == 'module' and base[1] is not None:
                return self.resolve_global(base[1], node.attr)
            if base[0] == 'extmodule':
                return ('ext', '%s.%s' % (base[1], node.attr))
            if base[0] == 'ext':
                return ('ext', '%s.%s' % (base[1], node.attr))
            if base[0] == 'class':
                ci = base[1]
                m = self.lookup_method(ci, node.attr)
                if m is not None:
                    return ('func', m)
                if node.attr in ci.assigns:
                    return ('value', ci.assigns[node.attr], ci.module)
            return None
        return None

    def class_bases(self, ci):
        """package-resolved bases; external bases as ('ext', dotted)"""
        out = []
        for b in ci.bases:
            r = self.resolve_attr_chain(ci.module, b)
            if r is None:
                out.append(('ext', norm(b)))
            elif r[0] == 'class':
                out.append(r)
            elif r[0] == 'ext':
                out.append(r)
            elif r[0] == 'value':
                out.append(('ext', norm(b)))
            else:
                out.append(('ext', norm(b)))
        return out

    def mro(self, ci, _seen=None):
        _seen = _seen or set()
        out = [ci]
        _seen.add(ci.key)
        for b in self.class_bases(ci):
            if b[0] == 'class' and b[1].key not in _seen:
                out.extend(self.mro(b[1], _seen))
        return out

    def ext_bases(self, ci):
        out = []
        for c in self.mro(ci):
            for b in self.class_bases(c):
                if b[0] == 'ext':
                    out.append(b[1])
        return out

    def lookup_method(self, ci, name):
        for c in self.mro(ci):
            if name in c.methods:
                return c.methods[name]
        return None


def enclosing_func(node):
    n = getattr(node, '_parent', None)
    while n is not None:
        if isinstance(n, (ast.FunctionDef, ast.AsyncFunctionDef, ast.Lambda)):
            return n
        n = getattr(n, '_parent', None)
    return None


def py_version():
    return '%d.%d.%d' % sys.version_info[:3]
