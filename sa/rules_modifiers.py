"""modifiers (C12, C18): tables B13/B14, start/end/auto forms, stacking, annotate, descriptor cache."""
import ast

from .index import Inconclusive, norm
from .interp import Interp, Policy, show, show_lit, walk_effects, K, NONE, subterms, mentions
from .algebra import kind_of_attr_term
from .callgraph import _own_nodes

MOD = 'modifiers'
PT = MOD + ':_PokTranslator'


def site_of(fi, node):
    return '%s %s' % (fi.loc(node), fi.key)


def _kind_lits(lits, el):
    """kinds the element is known to have / not to have on this path"""
    yes, no = set(), set()
    for atom, pol in lits:
        if atom[0] in ('eq', 'is') and ('A', el, 'kind') in atom[1:]:
            other = [x for x in atom[1:] if x != ('A', el, 'kind')][0]
            k = kind_of_attr_term(other)
            if k:
                (yes if pol else no).add(k)
    return yes, no


def rule_prepare_table(check, rule, rule_idem=None):
    """C12.R1 (table B13) and idempotence of _prepare (C18.R3)"""
    repo = check.repo
    fi = repo.func(PT + '._prepare')
    check.analysed(fi)
    it = Interp(repo, Policy())
    paths = it.run(fi)
    check.absorb(it)
    selft = ('P', fi.params()[0][0])
    loop = None
    outer = None
    for p in paths:
        for e in p.effects:
            if e.kind == 'loop' and mentions(e.target, ('A', selft, 'func')) or (e.kind == 'loop' and 'parameters' in show(e.target)):
                if loop is None or len(p.lits) >= len(outer.lits):
                    loop, outer = e, p
    if loop is None:
        raise Inconclusive('_prepare: loop over the parameters not found')
    # the element
    el = None
    idx = None
    t = loop.target
    if t[0] == 'C' and t[1] == 'enumerate':
        el = ('E', t[2][0], loop.ctx)
        idx = ('IDX', loop.ctx)
    else:
        el = ('E', t, loop.ctx)
    poso = ('A', selft, 'posoarg_names')
    kwo = ('A', selft, 'kwoarg_names')
    name = ('A', el, 'name')
    n = 0
    seen = set()
    # containers: the final parameter list is what goes to replace(parameters=)
    plist = None
    for p in paths:
        for e in p.effects:
            if e.kind == 'call' and e.op == '.replace' and 'parameters' in dict(e.kws):
                plist = dict(e.kws)['parameters']
    if plist is None:
        raise Inconclusive('_prepare: sig.replace(parameters=...) not found')
    kwlists = set()
    poslists = set()
    for sp in loop.sub:
        for x in sp.effects:
            if x.kind == 'mut' and x.op == 'append' and x.target[0] == 'L' and x.args and x.args[0][0] == 'T' and len(x.args[0][1]) == 2:
                poslists.add(x.target)
            if x.kind == 'mut' and x.op == 'extend' and x.target == plist and x.args:
                kwlists.add(x.args[0])
    for sp in loop.sub:
        yes, no = _kind_lits(sp.lits, el)
        lits = dict(sp.lits)
        inp = lits.get(('in', name, poso))
        ink = lits.get(('in', name, kwo))
        intu = None
        fpok = None
        for a, pol in sp.lits:
            if a[0] == 'in' and a[1] == name and a[2] not in (poso, kwo):
                intu = pol
            if a[0] == 'truthy' and a[1][0] == 'V' and 'pok' in a[1][1]:
                fpok = pol
        raises = [x for x in sp.effects if x.kind == 'raise']
        exc = it._exc_name(raises[0].target) if raises else None
        puts = [x for x in sp.effects if x.kind == 'mut' and x.op == 'append' and x.target == plist]
        kwputs = [x for x in sp.effects if x.kind == 'mut' and x.op == 'append' and x.target in kwlists]
        posrec = [x for x in sp.effects if x.kind == 'mut' and x.op == 'append' and x.target in poslists]
        removes = [x for x in sp.effects if x.kind == 'mut' and x.op in ('remove', 'discard') and x.args == (name,)]
        gk = 'POK' if 'POK' in yes else ('nonPOK(%s)' % ','.join(sorted(yes)) if 'POK' in no else '?')
        key = '_prepare|%s|poso=%s,kwo=%s,touse=%s,found_pok=%s' % (gk, inp, ink, intu, fpok)
        if key in seen:
            continue
        seen.add(key)
        n += 1
        st = site_of(fi, (raises or puts or kwputs or [loop])[0].node)
        gtext = ' & '.join(show_lit(l) for l in sp.lits)[:300]
        msgs = []
        # every replace() changes the kind only
        for x in puts + kwputs:
            v = x.args[0]
            if v[0] == 'M' and v[2] == 'replace' and set(dict(v[4])) - set(['kind']):
                msgs.append('a converted parameter is altered beyond its kind (%s)' % ', '.join(sorted(set(dict(v[4])) - set(['kind']))))
        if 'POK' in yes:
            if inp is True:
                if fpok is True:
                    if not raises or not str(exc).endswith('ValueError'):
                        msgs.append('positional-only requested after a regular parameter must raise ValueError')
                elif fpok is False:
                    ok = len(puts) == 1 and puts[0].args[0][0] == 'M' and kind_of_attr_term(dict(puts[0].args[0][4]).get('kind')) == 'PO' and puts[0].args[0][1] == el
                    if not ok:
                        msgs.append('a parameter named in posoargs is not stored as positional-only')
                    if not removes:
                        msgs.append('the name is not marked as used')
                else:
                    msgs.append('positional-only conversion does not depend on whether a regular parameter came before')
            elif inp is False and ink is True:
                ok = len(kwputs) == 1 and kwputs[0].args[0][0] == 'M' and kind_of_attr_term(dict(kwputs[0].args[0][4]).get('kind')) == 'KWO' and kwputs[0].args[0][1] == el
                if not ok or puts:
                    msgs.append('a parameter named in kwoargs is not held back as keyword-only (to be emitted after *args)')
                if len(posrec) != 1:
                    msgs.append('the original position of the keyword-only parameter is not recorded')
                else:
                    rec = posrec[0].args[0][1]
                    if rec[1] != el:
                        msgs.append('the position record holds %s instead of the parameter' % show(rec[1])[:40])
                    if idx is None or rec[0] != idx:
                        # a hand-kept counter must advance for every parameter
                        cnt = rec[0]
                        if cnt[0] == 'V':
                            adv = all((s2.env_out.get(cnt[1]) == ('B', 'Add', s2.env_in.get(cnt[1]), K(1))) for s2 in loop.sub if s2.status == 'continue')
                            if not adv:
                                msgs.append('the recorded position is a counter that does not advance for every parameter of the original list: '
                                            'values are re-inserted at the wrong index when other kinds of parameters come first')
                        else:
                            msgs.append('the recorded position is %s, not the index in the original parameter list' % show(cnt)[:40])
                if not removes:
                    msgs.append('the name is not marked as used')
            elif inp is False and ink is False:
                if not (len(puts) == 1 and puts[0].args[0] == el):
                    msgs.append('an unselected regular parameter is not kept as it is')
                if kwputs or posrec:
                    msgs.append('an unselected regular parameter is converted')
        elif 'POK' in no:
            if intu is True:
                same_po = 'PO' in yes and inp is True
                same_kw = 'KWO' in yes and ink is True
                if same_po or same_kw:
                    if raises:
                        msgs.append('a parameter that already has the requested kind is rejected')
                    if not removes:
                        msgs.append('the name is not marked as used')
                elif raises:
                    if not str(exc).endswith('ValueError'):
                        msgs.append('inadmissible selection raises %s instead of ValueError' % exc)
                else:
                    # accepted although it neither is POK nor already has the requested kind?
                    decided = ('PO' in yes or 'PO' in no) and ('KWO' in yes or 'KWO' in no) and inp is not None
                    if decided or (not yes and not [k for k in ('PO', 'KWO') if k not in no] == []):
                        if not raises and ('PO' in no and 'KWO' in no):
                            msgs.append('a star parameter named in posoargs/kwoargs is accepted instead of raising ValueError')
            if not raises:
                if not puts or puts[-1].args[0] != el:
                    msgs.append('a non-regular parameter is not kept')
                if 'VK' in yes:
                    ext = [x for x in sp.effects if x.kind == 'mut' and x.op == 'extend' and x.target == plist]
                    if not ext:
                        msgs.append('keyword-only conversions are not emitted before **kwargs')
                    elif sp.effects.index(ext[0]) > sp.effects.index(puts[-1]):
                        msgs.append('keyword-only conversions are emitted after **kwargs')
        if msgs:
            for m_ in sorted(set(msgs))[:3]:
                check.violation(rule, st, '_prepare: %s' % m_, key=key + '|' + m_[:40], guards=gtext,
                                witness="kwoargs('a') on def f(p, /, a, b): advertised (p, b, /, *, a) and values delivered accordingly")
        else:
            check.holds(rule, st, '_prepare per-parameter path conforms to table B13', key=key, guards=gtext)
    check.floor(rule, 'per-parameter paths of _prepare', n, 8)
    # after the loop
    for p in paths:
        lits = dict(p.lits)
        inter = None
        left = None
        for a, pol in p.lits:
            if a[0] == 'truthy' and a[1][0] == 'B' and a[1][1] == 'BitAnd':
                inter = pol
            if a[0] == 'truthy' and a[1][0] == 'B' and a[1][1] == 'BitOr':
                left = pol
        key = '_prepare|end|intersection=%s,leftover=%s' % (inter, left)
        if key in seen:
            continue
        seen.add(key)
        exc = it._exc_name(p.value) if p.status == 'raise' else None
        st = site_of(fi, fi.node)
        if inter is True:
            if p.status == 'raise' and str(exc).endswith('ValueError'):
                check.holds(rule, st, 'a name selected as both kinds -> ValueError', key=key)
            else:
                check.violation(rule, st, 'a name selected as both positional-only and keyword-only is accepted', key=key,
                                witness="_PokTranslator(f, posoargs=('a',), kwoargs=('a',))")
        elif left is True:
            if p.status == 'raise' and str(exc).endswith('ValueError'):
                check.holds(rule, st, 'names that match no parameter -> ValueError', key=key)
            else:
                check.violation(rule, st, 'names that match no parameter are accepted', key=key, witness="kwoargs('nope')(f)")
        elif left is False and p.status in ('fall', 'return'):
            stores = [e for e in p.effects if e.kind == 'store_attr' and e.target == selft and e.op == '__signature__']
            if stores and stores[-1].args[0][0] == 'M' and stores[-1].args[0][2] == 'replace' and dict(stores[-1].args[0][4]).get('parameters') == plist:
                check.holds(rule, st, 'the rewritten signature is stored as __signature__', key=key)
            else:
                check.violation(rule, st, '_prepare does not store sig.replace(parameters=<rewritten list>) as __signature__', key=key)
    for need, what, wit in (('_prepare|end|intersection=True', 'a name selected as both positional-only and keyword-only is rejected', "_PokTranslator(f, posoargs=('a',), kwoargs=('a',))"),
                            ('_prepare|end|intersection=False,leftover=True', 'names that match no parameter are rejected', "kwoargs('nope')(f)")):
        if not any(k.startswith(need) for k in seen):
            check.violation(rule, site_of(fi, fi.node), '_prepare has no path on which %s (ValueError at decoration time)' % what, key=need + '|missing',
                            witness=wit)
    # idempotence: every list _prepare appends to is created inside _prepare
    if rule_idem:
        bad = None
        for sp in loop.sub:
            for x in sp.effects:
                if x.kind == 'mut' and x.op in ('append', 'extend', 'insert') and x.target[0] not in ('L', 'D', 'SET') and not (x.target[0] == 'B'):
                    bad = x
        key = '_prepare|idempotent'
        if bad is not None:
            check.violation(rule_idem, site_of(fi, bad.node), '_prepare appends to %s, which outlives the call: annotate() re-runs _prepare on the '
                            'translators below it, so the entries are duplicated and keyword-only values are inserted twice at call time'
                            % show(bad.target)[:60], key=key, witness="annotate(a=int)(kwoargs('b')(f)); f(1, 3, b=2)")
        else:
            check.holds(rule_idem, site_of(fi, fi.node), 'every container _prepare fills is created inside _prepare: re-preparing is idempotent', key=key)


def rule_call_table(check, rule):
    """C12.R2 (table B14)"""
    repo = check.repo
    fi = repo.func(PT + '.__call__')
    check.analysed(fi)
    it = Interp(repo, Policy())
    paths = it.run(fi)
    check.absorb(it)
    pos, vararg, kwonly, kwarg = fi.params()
    selft = ('P', pos[0])
    kw = ('P', kwarg) if kwarg else None
    n = 0
    seen = set()
    for p in paths:
        inter = None
        missing = None
        for a, pol in p.lits:
            if a[0] == 'truthy' and a[1][0] == 'M' and a[1][2] == 'intersection':
                inter = pol
            if a[0] == 'truthy' and a[1][0] == 'L':
                missing = pol
        key = '__call__|intersect=%s,missing=%s' % (inter, missing)
        if key in seen:
            continue
        seen.add(key)
        n += 1
        st = site_of(fi, fi.node)
        exc = it._exc_name(p.value) if p.status == 'raise' else None
        if inter is True:
            ok = p.status == 'raise' and str(exc) == 'TypeError'
            a = [x for x, pol in p.lits if x[0] == 'truthy' and x[1][0] == 'M' and x[1][2] == 'intersection'][0][1]
            ok = ok and a[1] == ('A', selft, 'posoarg_names') and a[3] == (kw,)
            if ok:
                check.holds(rule, st, 'a keyword naming a positional-only parameter -> TypeError', key=key)
            else:
                check.violation(rule, st, 'a keyword naming a positional-only parameter does not raise TypeError', key=key,
                                witness="posoargs('a')(f)(a=1)")
        elif missing is True:
            if p.status == 'raise' and str(exc) == 'TypeError':
                check.holds(rule, st, 'a required keyword-only parameter that is not passed -> TypeError', key=key)
            else:
                check.violation(rule, st, 'missing required keyword-only arguments do not raise TypeError', key=key, witness="kwoargs('a')(f)()")
        elif p.status == 'return':
            v = p.value
            ok = v[0] in ('C', 'M') and (v[1] == ('A', selft, 'func') or (v[0] == 'M' and v[1] == selft and v[2] == 'func'))
            args = (v[2] if v[0] == 'C' else v[3]) if ok else ()
            kws = (v[3] if v[0] == 'C' else v[4]) if ok else ()
            ok = ok and len(args) == 1 and args[0][0] == 'STAR' and args[0][1][0] == 'L' and tuple(kws) == ((None, kw),)
            if ok:
                init = it.obj_init.get(args[0][1])
                ok = init is not None and init[0] == 'C' and init[1] == 'list' and init[2] == (('P', vararg),)
            if ok:
                check.holds(rule, st, 'the wrapped function is called with the rebuilt positional list and the remaining keywords, its result returned', key=key)
            else:
                check.violation(rule, st, '__call__ returns %s, expected self.func(*<rebuilt positionals>, **kwargs)' % show(v)[:100], key=key)
        # the re-insertion loop
        for e in p.effects:
            if e.kind != 'loop' or e.ctx in seen:
                continue
            seen.add(e.ctx)
            if e.target != ('A', selft, 'kwopos'):
                check.violation(rule, site_of(fi, e.node), 'keyword-only values are re-inserted by iterating %s instead of the recorded positions'
                                % show(e.target)[:40], key='__call__|loop')
                continue
            el = ('E', e.target, e.ctx)
            posn, par = ('S', el, K(0)), ('S', el, K(1))
            for sp in e.sub:
                lits = dict(sp.lits)
                given = lits.get(('in', ('A', par, 'name'), kw))
                hasdef = lits.get(('has_default', par))
                fits = None
                for a, pol in sp.lits:
                    if a[0] == 'cmp' and a[2] == posn and a[3][0] == 'C' and a[3][1] == 'len':
                        fits = pol if a[1] == '<' else None
                ins = [x for x in sp.effects if x.kind == 'mut' and x.op == 'insert']
                miss = [x for x in sp.effects if x.kind == 'mut' and x.op == 'append']
                k2 = '__call__|kwo|given=%s,default=%s,fits=%s' % (given, hasdef, fits)
                if k2 in seen:
                    continue
                seen.add(k2)
                n += 1
                stx = site_of(fi, (ins or miss or [e])[0].node)
                msgs = []
                if given is True:
                    if fits is True:
                        if not (len(ins) == 1 and ins[0].args[0] == posn and ins[0].args[1][0] == 'M' and ins[0].args[1][2] == 'pop'
                                and ins[0].args[1][3] == (('A', par, 'name'),)):
                            msgs.append('a passed keyword-only value is not moved to its recorded position')
                    elif fits is False and ins:
                        msgs.append('a value is inserted beyond the positionals that were passed')
                elif given is False:
                    if hasdef is False:
                        if not (len(miss) == 1 and miss[0].args[0] == ('A', par, 'name')) or ins:
                            msgs.append('a required keyword-only parameter that is not passed is not reported as missing')
                    elif hasdef is True and fits is True:
                        if not (len(ins) == 1 and ins[0].args[0] == posn and ins[0].args[1] == ('A', par, 'default')):
                            msgs.append('the default of an omitted keyword-only parameter is not inserted at its recorded position')
                    elif hasdef is True and fits is False and ins:
                        msgs.append('a default is inserted beyond the positionals that were passed')
                if msgs:
                    for m_ in msgs:
                        check.violation(rule, stx, '__call__: %s' % m_, key=k2, guards=' & '.join(show_lit(l) for l in sp.lits)[:200],
                                        witness="kwoargs('a')(lambda a, b: (a, b))(2, a=1) == (1, 2)")
                else:
                    check.holds(rule, stx, '__call__ re-insertion path conforms to table B14', key=k2, guards=' & '.join(show_lit(l) for l in sp.lits)[:200])
    check.floor(rule, 'paths of _PokTranslator.__call__', n, 6)


def rule_forms(check, rule):
    """C12.R3: start / end / auto forms"""
    repo = check.repo
    for fname, arg, mode in (('_kwoargs_start', 0, 'from'), ('_posoargs_end', 0, 'until')):
        fi = repo.func('%s:%s' % (MOD, fname))
        check.analysed(fi)
        it = Interp(repo, Policy())
        paths = it.run(fi)
        check.absorb(it)
        mark = ('P', fi.params()[0][arg])
        loop = None
        for p in paths:
            for e in p.effects:
                if e.kind == 'loop':
                    loop = e
        if loop is None:
            check.inconclusive(rule, site_of(fi, fi.node), '%s: loop over the parameters not found' % fname, key='%s|loop' % fname)
            continue
        el = ('E', loop.target, loop.ctx)
        seen = set()
        # the "marker seen" flag: the loop-carried variable that starts as False (whatever it is called)
        flags = sorted(set(name for sp in loop.sub for name, vin in sp.env_in.items() if vin[0] == 'V' and vin[3] == K(False)))
        if len(flags) != 1:
            check.inconclusive(rule, site_of(fi, loop.node), '%s: the flag remembering that the marker was seen is not identified (%s)'
                               % (fname, ', '.join(flags) or 'no loop-carried variable starting as False'), key='%s|flag' % fname)
            continue
        FLAG = flags[0]
        for sp in loop.sub:
            yes, no = _kind_lits(sp.lits, el)
            lits = dict(sp.lits)
            eqm = None
            fnd = None
            for a, pol in sp.lits:
                if a[0] == 'eq' and ('A', el, 'name') in a[1:] and mark in a[1:]:
                    eqm = pol
                if a[0] == 'truthy' and a[1][0] == 'V' and a[1][1] == FLAG:
                    fnd = pol
            adds = [x for x in sp.effects if x.kind == 'mut' and x.op == 'add' and x.args == (('A', el, 'name'),)]
            key = '%s|%s|found=%s,eq=%s|%s' % (fname, 'POK' if 'POK' in yes else 'other', fnd, eqm, sp.status)
            if key in seen:
                continue
            seen.add(key)
            st = site_of(fi, loop.node)
            fout = sp.env_out.get(FLAG)
            msg = None
            if 'POK' in yes:
                if mode == 'from':
                    should_add = (fnd is True) or (eqm is True)
                    if should_add and not adds:
                        msg = 'a parameter at or after start= is not selected'
                    if (fnd is False and eqm is False) and adds:
                        msg = 'a parameter before start= is selected'
                    if should_add and fout != K(True):
                        msg = msg or 'finding start= is not remembered'
                else:
                    if fnd is False and not adds:
                        msg = 'a parameter up to end= is not selected'
                    if eqm is True and fnd is not True and not adds:
                        msg = 'the end= parameter itself is not selected'
                    if fnd is True and adds:
                        msg = 'a parameter after end= is selected'
                    if eqm is True and fout != K(True):
                        msg = 'finding end= is not remembered'
            elif 'POK' in no:
                if adds:
                    msg = 'a parameter that is not positional-or-keyword is selected'
                if 'PO' in no and sp.status != 'break':
                    msg = 'the scan goes on past the first parameter that is neither positional-only nor positional-or-keyword'
            if msg:
                check.violation(rule, st, '%s: %s' % (fname, msg), key=key, guards=' & '.join(show_lit(l) for l in sp.lits)[:200],
                                witness="kwoargs(start='b') on def f(a, b, c): exactly b and c become keyword-only")
            else:
                check.holds(rule, st, '%s selection path conforms' % fname, key=key, guards=' & '.join(show_lit(l) for l in sp.lits)[:200])
        # not found -> ValueError ; result = _PokTranslator(func, <kind>=names, get=...)
        for p in paths:
            lits = dict(p.lits)
            f = None
            for a, pol in p.lits:
                if a[0] == 'truthy' and a[1][0] == 'V' and a[1][1] == FLAG:
                    f = pol
            key = '%s|end|found=%s' % (fname, f)
            if key in seen:
                continue
            seen.add(key)
            if f is False:
                if p.status == 'raise' and str(it._exc_name(p.value)).endswith('ValueError'):
                    check.holds(rule, site_of(fi, fi.node), '%s: unknown marker name -> ValueError' % fname, key=key)
                else:
                    check.violation(rule, site_of(fi, fi.node), '%s: a marker name that is no parameter is accepted' % fname, key=key,
                                    witness="kwoargs(start='nope')(f)")
            elif f is True and p.status == 'return':
                v = p.value
                want_kw = 'kwoargs' if mode == 'from' else 'posoargs'
                kws = dict(v[3]) if v[0] == 'C' else {}
                if v[0] == 'C' and str(v[1]).endswith('_PokTranslator') and want_kw in kws and kws[want_kw][0] == 'SET':
                    check.holds(rule, site_of(fi, fi.node), '%s: _PokTranslator(func, %s=<selected names>)' % (fname, want_kw), key=key)
                elif v[0] == 'O' or (v[0] == 'C' and 'PokTranslator' in str(v[1])):
                    ce = [e for e in p.effects if e.kind == 'call' and e.result == v]
                    kws = dict(ce[0].kws) if ce else kws
                    if ce:
                        # (arguments are kept in one spelling: by position where they continue the positional ones)
                        init_ = repo.func(PT + '.__init__')
                        for pn, a_ in zip(init_.params()[0][1:], ce[0].args):
                            kws.setdefault(pn, a_)
                    if want_kw in kws and kws[want_kw][0] == 'SET':
                        check.holds(rule, site_of(fi, fi.node), '%s: _PokTranslator(func, %s=<selected names>)' % (fname, want_kw), key=key)
                    else:
                        check.violation(rule, site_of(fi, fi.node), '%s builds the translator with %s' % (fname, sorted(kws)), key=key)
                else:
                    check.violation(rule, site_of(fi, fi.node), '%s returns %s' % (fname, show(v)[:80]), key=key)
    # _autokwoargs
    fi = repo.func(MOD + ':_autokwoargs')
    check.analysed(fi)
    it = Interp(repo, Policy(try_forks=True))
    paths = it.run(fi)
    check.absorb(it)
    exc_p, func_p = ('P', fi.params()[0][0]), ('P', fi.params()[0][1])
    seen = set()
    for p in paths:
        left = None
        for a, pol in p.lits:
            if a[0] == 'truthy' and a[1][0] == 'SET':
                left = pol
        key = '_autokwoargs|leftover=%s' % left
        if key in seen:
            continue
        seen.add(key)
        st = site_of(fi, fi.node)
        if left is True:
            if p.status == 'raise' and str(it._exc_name(p.value)).endswith('ValueError'):
                check.holds(rule, st, 'exceptions= naming no defaulted parameter -> ValueError', key=key)
            else:
                check.violation(rule, st, 'unused exceptions= names are accepted', key=key, witness="autokwoargs(exceptions=['nope'])(f)")
        elif left is False and p.status == 'return':
            v = p.value
            names = None
            for e in p.effects:
                if e.kind == 'loop':
                    for sp in e.sub:
                        for x in sp.effects:
                            if x.kind == 'mut' and x.op == 'append' and x.target[0] == 'L':
                                names = x.target
            inner = v[1] if (v[0] == 'C' and isinstance(v[1], tuple)) else None
            ok = inner is not None and inner[0] == 'C' and str(inner[1]).endswith('kwoargs') and tuple(inner[2]) == (('STAR', names),) and not inner[3] \
                and tuple(v[2]) == (func_p,)
            if ok:
                check.holds(rule, st, '_autokwoargs applies kwoargs(*<every selected name>) to the function', key=key)
            else:
                check.violation(rule, st, '_autokwoargs returns %s, expected kwoargs(*<selected names>)(func): exactly the defaulted parameters that are '
                                'not excepted become keyword-only' % show(v)[:120], key=key,
                                witness="autokwoargs(exceptions=['c']) on def f(a, b=1, c=2, d=3) -> (a, c=2, *, b=1, d=3)")
    # selection loop: POK and has default, minus exceptions
    for p in paths:
        for e in p.effects:
            if e.kind != 'loop':
                continue
            el = ('E', e.target, e.ctx)
            for sp in e.sub:
                yes, no = _kind_lits(sp.lits, el)
                lits = dict(sp.lits)
                hd = lits.get(('has_default', el))
                excepted = not any(a[0] == 'raises' and 'KeyError' in str(a[2]) and pol for a, pol in sp.lits)
                apps = [x for x in sp.effects if x.kind == 'mut' and x.op == 'append']
                key = '_autokwoargs|select|%s,default=%s,excepted=%s' % ('POK' if 'POK' in yes else 'other', hd, excepted)
                if key in seen:
                    continue
                seen.add(key)
                sel = 'POK' in yes and hd is True
                msg = None
                if sel and not excepted and not apps:
                    msg = 'a defaulted regular parameter that is not excepted is not selected'
                if (not sel) and apps:
                    msg = 'a parameter that is %s is selected' % ('not positional-or-keyword' if 'POK' not in yes else 'required')
                if sel and excepted and apps and any(a[0] == 'raises' for a, pol in sp.lits) is False:
                    msg = 'an excepted parameter is selected'
                if msg:
                    check.violation(rule, site_of(fi, e.node), '_autokwoargs: %s' % msg, key=key, guards=' & '.join(show_lit(l) for l in sp.lits)[:200])
                else:
                    check.holds(rule, site_of(fi, e.node), '_autokwoargs selection path conforms', key=key)
        break


# ---------------------------------------------------------------------------
# C18

def rule_merge_other(check, rule):
    repo = check.repo
    fi = repo.func(PT + '._merge_other')
    check.analysed(fi)
    it = Interp(repo, Policy())
    paths = it.run(fi)
    check.absorb(it)
    selft, other = ('P', fi.params()[0][0]), ('P', fi.params()[0][1])
    # (round 8) every path: a merge that composes the getters only under a condition leaves the other paths with one selection's getter
    rets = [p_ for p_ in paths if p_.status in ('return', 'fall')]

    def stores_of(p_):
        out = {}
        for e in p_.effects:
            if e.kind == 'store_attr' and e.target == selft:
                out[e.op] = e.args[0]
        return out
    p = paths[0]
    for p_ in rets:
        if 'custom_getter' not in stores_of(p_) or 'func' not in stores_of(p_):
            p = p_          # the path that does least is the one judged
    stores = stores_of(p)
    st = site_of(fi, fi.node)
    checks = [
        ('func', stores.get('func') == ('A', other, 'func'), 'adopts the inner translator\'s function'),
        ('posoarg_names', stores.get('posoarg_names') == ('B', 'BitOr', ('A', selft, 'posoarg_names'), ('A', other, 'posoarg_names')), 'unions the positional-only names'),
        ('kwoarg_names', stores.get('kwoarg_names') == ('B', 'BitOr', ('A', selft, 'kwoarg_names'), ('A', other, 'kwoarg_names')), 'unions the keyword-only names'),
    ]
    cg = stores.get('custom_getter')
    ok_cg = cg is not None and (cg[0] == 'O' or cg[0] == 'C') and 'Combination' in show(cg)
    if ok_cg:
        ce = [e for e in p.effects if e.kind == 'call' and e.result == cg]
        args = ce[0].args if ce else ()
        ok_cg = tuple(args) == (('A', selft, 'custom_getter'), ('A', other, 'custom_getter'))
    checks.append(('custom_getter', ok_cg, 'combines both getters (own first)'))
    for name, ok, what in checks:
        key = '_merge_other|%s' % name
        if ok:
            check.holds(rule, st, '_merge_other %s' % what, key=key)
        else:
            check.violation(rule, st, '_merge_other sets %s to %s: stacked modifiers must merge both selections' % (name, show(stores.get(name))[:80] if stores.get(name) else None),
                            key=key, witness="kwoargs('b')(posoargs('a')(f)) == posoargs('a')(kwoargs('b')(f))")
    # __init__: _merge_other under isinstance(func, _PokTranslator), before _prepare
    init = repo.func(PT + '.__init__')
    check.analysed(init)
    it2 = Interp(repo, Policy(try_forks=False))
    ps = it2.run(init)
    func = ('P', init.params()[0][1])
    seen = set()
    for p in ps:
        isn = None
        for a, pol in p.lits:
            if a[0] == 'isinstance' and a[1] == func and 'PokTranslator' in str(a[2]):
                isn = pol
        calls = [str(e.op).split('.')[-1] for e in p.effects if e.kind == 'call' and str(e.op).startswith(PT)]
        key = '__init__|stacked=%s' % isn
        if key in seen:
            continue
        seen.add(key)
        st = site_of(init, init.node)
        # the base initialiser installs the default getter and a fresh cache: it has to run before _merge_other replaces the getter
        # with the combination of both translators' getters, or the combination is overwritten
        order = [('base-init' if (e.op == '.__init__' and e.target[0] == 'C' and e.target[1] == 'super') else str(e.op).split('.')[-1])
                 for e in p.effects if e.kind == 'call']
        if isn is True and 'base-init' in order and '_merge_other' in order and order.index('base-init') > order.index('_merge_other'):
            check.violation(rule, st, 'the base class initialiser runs after _merge_other: it installs the default getter over the combined getter '
                            '_merge_other has just built, and the bound copy of a start=/end= form stacked on another modifier loses the inner '
                            'selection', key=key + '|base-init-order',
                            witness="class K: m = kwoargs(start='c')(posoargs('a')(lambda self, a, b, c='dc': 0)); K().m advertises (a, /, b, c='dc')")
            continue
        if isn is True:
            if '_merge_other' in calls and '_prepare' in calls and calls.index('_merge_other') < calls.index('_prepare'):
                check.holds(rule, st, 'wrapping another translator: _merge_other(func) runs before _prepare()', key=key)
            else:
                check.violation(rule, st, 'wrapping another translator does not merge it before preparing (%s)' % calls, key=key,
                                witness="kwoargs('b')(posoargs('a')(f))")
        elif isn is False:
            if '_merge_other' in calls or '_prepare' not in calls:
                check.violation(rule, st, 'plain function: calls %s' % calls, key=key)
            else:
                check.holds(rule, st, 'plain function: prepared directly', key=key)
    if '__init__|stacked=True' not in seen:
        check.violation(rule, site_of(init, init.node), '__init__ never takes the "wrapping another translator" branch (no test of isinstance(func, '
                        '_PokTranslator) leads to _merge_other): the inner modifier\'s selection is lost when modifiers are stacked',
                        key='__init__|stacked=True', witness="kwoargs('b')(posoargs('a')(f)) must advertise (a, /, *, b)")


def rule_annotate_after_modifier(check, rule):
    repo = check.repo
    fi = repo.func(MOD + ':annotate.__call__')
    check.analysed(fi)
    it = Interp(repo, Policy())
    paths = it.run(fi)
    check.absorb(it)
    objp = ('P', fi.params()[0][1])
    seen = set()
    n = 0
    for p in paths:
        if p.status != 'return':
            continue
        n += 1
        key = 'annotate|order'
        loops = [e for e in p.effects if e.kind == 'loop']
        unwrap = [e for e in loops if e.extra == 'while']
        st = site_of(fi, fi.node)
        # every returning path is judged (a path on which the re-preparation is skipped under some condition is the defect);
        # paths with the same outcome share an obligation
        shape = (tuple(sorted(set(str(e.op) for e in p.effects if e.kind == 'store_attr'))),
                 tuple(any(str(x.op).endswith('._prepare') for sp in e.sub for x in sp.effects if x.kind == 'call') for e in loops))
        if (key, shape) not in seen:
            seen.add((key, shape))
            ok_unwrap = False
            cursor = None
            for e in unwrap:
                for sp in e.sub:
                    # the cursor of the unwrapping loop: the loop-carried variable that starts as the decorated object
                    for name_, vin in sp.env_in.items():
                        if vin[0] == 'V' and vin[3] == objp:
                            cursor = name_
                    if any(a[0] == 'isinstance' and 'PokTranslator' in str(a[2]) and pol for a, pol in sp.lits):
                        fo = sp.env_out.get(cursor) if cursor else None
                        apps = [x for x in sp.effects if x.kind == 'mut' and x.op == 'append']
                        if fo is not None and fo[0] == 'A' and fo[2] == 'func' and apps:
                            ok_unwrap = True
            if ok_unwrap:
                check.holds(rule, st, 'annotate unwraps every translator and remembers it', key=key + '|unwrap')
            else:
                check.violation(rule, st, 'annotate does not unwrap the translators down to the innermost function', key=key + '|unwrap',
                                witness="annotate(a=int)(kwoargs('b')(f))")
            # __signature__ written on the innermost function before the translators are re-prepared
            si = [i for i, e in enumerate(p.effects) if e.kind == 'store_attr' and e.op == '__signature__']
            pi = [i for i, e in enumerate(p.effects) if e.kind == 'loop' and any(x.kind == 'call' and x.op == '._prepare' or str(x.op).endswith('._prepare')
                                                                                 for sp in e.sub for x in sp.effects)]
            if si and pi and max(si) < min(pi):
                lp = p.effects[pi[0]]
                rev = lp.target[0] == 'C' and lp.target[1] == 'reversed'
                tgt = p.effects[si[-1]].target
                if tgt[0] == 'V' and tgt[1] == cursor:
                    check.holds(rule, st, 'the new __signature__ is written on the innermost function before every translator is re-prepared%s'
                                % (' (innermost first)' if rev else ''), key=key + '|prepare')
                else:
                    check.violation(rule, st, 'the new __signature__ is written on %s, not on the innermost function' % show(tgt)[:40], key=key + '|prepare')
            else:
                check.violation(rule, st, 'annotate does not re-prepare the translators after writing the new __signature__', key=key + '|prepare',
                                witness="annotate(a=int)(kwoargs('b')(f)): the translator must advertise the annotation")
        key2 = 'annotate|returns'
        if key2 not in seen:
            seen.add(key2)
            if p.value == objp:
                check.holds(rule, st, 'annotate returns the object it was given', key=key2)
            else:
                check.violation(rule, st, 'annotate returns %s instead of the object it was given' % show(p.value)[:40], key=key2,
                                witness='annotate(...)(kwoargs(...)(f)) must still be the translator')
    check.floor(rule, 'returning paths of annotate.__call__', n, 1)


def rule_descriptor_cache(check, rule, rule_weak):
    """C18.R4 (binds to the right instance) and C18.R1 (weak cache must not retain its key)"""
    repo = check.repo
    fi = repo.func('_util:OverrideableDataDesc.__get__')
    check.analysed(fi)
    it = Interp(repo, Policy(try_forks=True))
    paths = it.run(fi)
    check.absorb(it)
    gpos = fi.params()[0]
    selft, inst, owner = ('P', gpos[0]), ('P', gpos[1]), ('P', gpos[2])
    bound = ('C', ('A', ('C', 'type', (('A', selft, 'func'),), ()), '__get__'), (('A', selft, 'func'), inst, owner), ())
    bound2 = ('M', ('C', 'type', (('A', selft, 'func'),), ()), '__get__', (('A', selft, 'func'), inst, owner), ())
    seen = set()
    weak = _weak_containers(repo, fi.cls)
    for p in paths:
        if p.status != 'return':
            continue
        v = p.value
        miss_getter = any(a[0] == 'raises' and 'AttributeError' in str(a[2]) and pol for a, pol in p.lits[:1])
        stores = [e for e in p.effects if e.kind == 'mut' and e.op == 'setitem']
        st = site_of(fi, fi.node)
        if miss_getter:
            key = '__get__|not-a-descriptor'
            if key in seen:
                continue
            seen.add(key)
            if v == selft:
                check.holds(rule, st, 'a wrapped object that is no descriptor: the descriptor returns itself', key=key)
            else:
                check.violation(rule, st, 'wrapped non-descriptor: returns %s' % show(v)[:40], key=key)
            continue
        cached = any(a[0] == 'raises' and 'KeyError' in str(a[2]) and pol for a, pol in p.lits)
        same = None
        for a, pol in p.lits:
            if a[0] == 'is' and ('A', selft, 'func') in a[1:]:
                same = pol
        key = '__get__|miss=%s,same=%s' % (cached, same)
        if key in seen:
            continue
        seen.add(key)
        if not cached:
            if v[0] == 'S' and v[2] in (bound, bound2):
                check.holds(rule, st, 'the cache is looked up by the function bound to (instance, owner)', key=key)
            elif v == selft and same is True:
                check.holds(rule, st, 'access through the class (binding gives the function itself): the descriptor returns itself', key=key)
            elif v == selft:
                check.violation(rule, st, 'returns the unbound descriptor itself although the wrapped function was bound to an instance', key=key,
                                witness='obj.method must be the translator bound to obj')
            else:
                check.violation(rule, st, 'cache hit returns %s, not the entry of the function bound to this instance' % show(v)[:80], key=key,
                                witness='a.method and b.method must be bound to a and b respectively')
        else:
            if same is True:
                ok = v == selft
            else:
                argv_ = (v[2] if v[0] == 'C' else v[3]) if v[0] in ('C', 'M') else ()
                ok = v[0] in ('C', 'M') and (bound in argv_ or bound2 in argv_)
            # the entry left in the cache for this binding is the object returned (earlier stores under the same key are
            # overwritten: whether publishing them matters is a concurrency question, C17.R3)
            ok_store = bool(stores) and all(s_.args[0] in (bound, bound2) for s_ in stores) and stores[-1].args[1] == v
            if ok and ok_store:
                check.holds(rule, st, 'cache miss: the entry is built from the bound function and stored under it', key=key)
            else:
                check.violation(rule, st, 'cache miss builds %s and stores %s' % (show(v)[:60], [repr(s)[:60] for s in stores]), key=key,
                                witness='binding the same method on different instances must give objects bound to each instance')
            # C18.R1: weak-keyed store whose value is derived from a call receiving the key
            if rule_weak and stores:
                s0 = stores[0]
                tgt = s0.target
                k2 = '_util:OverrideableDataDesc.__get__|weak-retains-key|%s' % ('self' if same else 'built')
                is_weak = tgt[0] == 'A' and tgt[1] == selft and tgt[2] in weak
                if is_weak and mentions(s0.args[1], s0.args[0]) and s0.args[1] != selft:
                    check.violation(rule_weak, st, 'the weak-keyed cache self.%s stores under key k a value built by a call that receives k (%s): the '
                                    'value holds the bound function strongly, so the entry -- and through the bound method the instance -- is never '
                                    'reclaimed' % (tgt[2], show(s0.args[1])[:60]), key=k2,
                                    witness='k = K(); k.m; del k; gc.collect() leaves the instance alive')
                elif is_weak:
                    check.holds(rule_weak, st, 'weak-keyed store of a value that does not reference its key', key=k2)


def rule_cache_per_descriptor(check, rule):
    """C18.R4b: the binding cache belongs to one descriptor object.  The mapping `__get__` looks the bound function up in
    must be created per instance (assigned on self in __init__); as a class attribute or module global it is shared by
    every translator wrapping the same raw function, and whichever was bound first answers for all of them."""
    repo = check.repo
    fi = repo.func('_util:OverrideableDataDesc.__get__')
    ci = fi.cls
    selfn = fi.params()[0][0]
    caches = set()
    for n_ in ast.walk(fi.node):
        if isinstance(n_, ast.Subscript) and isinstance(n_.value, ast.Attribute) and isinstance(n_.value.value, ast.Name) \
                and n_.value.value.id == selfn:
            caches.add(n_.value.attr)
    st = site_of(fi, fi.node)
    if not caches:
        check.inconclusive(rule, st, '__get__ does not subscript an attribute of the descriptor: cache not identified', key='desc-cache|none')
        return
    init = ci.methods.get('__init__')
    for attr in sorted(caches):
        key = 'desc-cache|%s' % attr
        per_inst = False
        if init is not None:
            iself = init.params()[0][0]
            for n_ in ast.walk(init.node):
                if isinstance(n_, ast.Assign):
                    for t in n_.targets:
                        if isinstance(t, ast.Attribute) and t.attr == attr and isinstance(t.value, ast.Name) and t.value.id == iself \
                                and isinstance(n_.value, (ast.Call, ast.Dict)) and n_ in init.main_body:
                            per_inst = True
        if per_inst:
            check.holds(rule, st, 'self.%s is created unconditionally in __init__: one cache per descriptor object' % attr, key=key)
        elif attr in ci.assigns:
            check.violation(rule, '%s:%d %s' % (ci.module.relpath, ci.assigns[attr].lineno, ci.key), 'the binding cache %r is a class attribute: it is '
                            'shared by every descriptor, so two translators wrapping the same function (or the same translator class on '
                            'another owner) find each other\'s entries -- the answer depends on which was retrieved first' % attr, key=key,
                            witness='two distinct translators of one raw function on the same instance: the first retrieved answers for both')
        else:
            check.violation(rule, st, 'the binding cache self.%s is not created per descriptor in __init__' % attr, key=key,
                            witness='two distinct translators of one raw function on the same instance: the first retrieved answers for both')


def _weak_containers(repo, ci):
    out = set()
    for m in ci.methods.values():
        for n in ast.walk(m.node):
            if isinstance(n, ast.Assign) and isinstance(n.value, ast.Call) and norm(n.value.func).split('.')[-1] in ('WeakKeyDictionary', 'WeakValueDictionary'):
                for t in n.targets:
                    if isinstance(t, ast.Attribute):
                        out.add(t.attr)
    return out


def rule_cache_publication(check, rule):
    """C17.R3: the shared per-descriptor cache never holds a placeholder.  Every store into a mapping held by the
    descriptor (state other threads read through the same `__get__`) must store the object that this activation
    returns for that key; an earlier store of something else is visible to a concurrent reader in between."""
    repo = check.repo
    fi = repo.func('_util:OverrideableDataDesc.__get__')
    check.analysed(fi)
    it = Interp(repo, Policy(try_forks=True))
    paths = it.run(fi)
    check.absorb(it)
    selft = ('P', fi.params()[0][0])
    n = 0
    seen = set()
    for p in paths:
        if p.status != 'return':
            continue
        stores = [e for e in p.effects if e.kind == 'mut' and e.op == 'setitem' and e.target[0] == 'A' and e.target[1] == selft]
        if not stores:
            continue
        n += 1
        for s_ in stores:
            key = '%s|publish|%s' % (fi.key, norm(s_.node)[:60])
            if key in seen:
                continue
            seen.add(key)
            if s_.args[1] == p.value:
                check.holds(rule, site_of(fi, s_.node), 'the entry stored in self.%s is the object returned for it' % s_.target[2], key=key)
            else:
                check.violation(rule, site_of(fi, s_.node), 'self.%s[...] is first set to %s and only later to the object that is returned: a thread '
                                'that looks the entry up in between gets the placeholder' % (s_.target[2], show(s_.args[1])[:40]), key=key,
                                witness='first access of obj.method from two threads: one of them gets the unbound wrapper')
    check.floor(rule, 'storing paths of OverrideableDataDesc.__get__', n, 1)


def rule_stacked_anchor_getters(check, rule):
    """C18.R2b: stacking over an anchor-based selection (start= / end=).
    An *anchor-based getter* is a function handed to the translator as `get=` that re-derives the selected names from the
    function it is given (loop over its parameters, positional-or-keyword ones only) and raises ValueError when its
    anchor is not among them.  `_merge_other` (a) unions the inner translator's *resolved* name sets into the outer's and
    (b) composes the inner getter after the outer one.  On bound access the outer getter rebuilds the translator with
    the merged names -- resolved on the unbound function -- and then hands the already converted function to the inner
    anchor-based getter: its anchor is no longer positional-or-keyword (ValueError), and resolved names may include the
    first parameter that binding removed ("Parameters not found: self").  Necessary condition: an inner selection is
    applied to the bound function once, by re-derivation *or* by resolved names, not both."""
    repo = check.repo
    mod = repo.module('modifiers')
    anchors = []
    for fi in repo.all_funcs():
        if fi.module.name != 'modifiers' or fi.cls is not None:
            continue
        gets = [n for n in ast.walk(fi.node) if isinstance(n, ast.keyword) and n.arg == 'get']
        raises = [n for n in ast.walk(fi.node) if isinstance(n, ast.Raise) and n.exc is not None and 'ValueError' in norm(n.exc)]
        pok_loop = any(isinstance(n, ast.Compare) and 'POSITIONAL_OR_KEYWORD' in norm(n) for n in ast.walk(fi.node))
        selfref = any(fi.name in norm(g.value) for g in gets)
        if gets and raises and pok_loop and selfref:
            anchors.append(fi)
    mo = repo.func(PT + '._merge_other')
    check.analysed(mo)
    unions = [n for n in ast.walk(mo.node) if isinstance(n, ast.AugAssign) and isinstance(n.op, ast.BitOr) and 'names' in norm(n.target)]
    composes = [n for n in ast.walk(mo.node) if isinstance(n, ast.Call) and norm(n.func).endswith('Combination')
                and any('custom_getter' in norm(a) for a in n.args)]
    key = PT + '._merge_other|anchor-getter-composition'
    st = site_of(mo, mo.node)
    if not anchors:
        check.holds(rule, st, 'no anchor-based (start=/end=) getter exists: resolved names are all there is to merge', key=key, nontrivial=False)
        return
    for a in anchors:
        check.analysed(a)
    if unions and composes:
        check.violation(rule, site_of(mo, composes[0]), '_merge_other unions the inner translator\'s resolved name sets into the outer one *and* composes '
                        'the inner getter after the outer getter; for the anchor-based getters %s the inner selection is then applied twice on bound '
                        'access -- by names resolved on the unbound function (they may include the parameter that binding removes) and by '
                        're-derivation on the already converted function (the anchor is no longer positional-or-keyword)'
                        % ', '.join(a.name for a in anchors), key=key,
                        witness="class K:\n    @kwoargs('a')\n    @kwoargs(start='b')\n    def m(self, a, b, c): ...\nK().m raises ValueError ('b' not found); "
                                "kwoargs('c') over posoargs(end='a'): ValueError: Parameters not found: self")
    elif unions or composes:
        check.holds(rule, st, 'an inner selection reaches the bound function one way only (%s)' % ('resolved names' if unions else 'its getter'), key=key)
    else:
        check.inconclusive(rule, st, '_merge_other neither unions name sets nor composes getters', key=key)


def rule_private_name_sets(check, rule):
    """C18.R2c: `_merge_other` adds the inner translator's names to the outer one's sets *in place* (`|=`).  The sets a
    translator starts from must therefore be its own: built with `set(<names>)` in __init__.  A set that is the very
    object the caller passed -- another translator's `posoarg_names` handed over by its getter, for one -- would be
    edited for both, and what a translator accepts would depend on what was stacked on it later."""
    repo = check.repo
    init = repo.func(PT + '.__init__')
    mo = repo.func(PT + '._merge_other')
    check.analysed(init)
    inplace = [n for n in ast.walk(mo.node) if isinstance(n, ast.AugAssign) and isinstance(n.target, ast.Attribute)
               and isinstance(n.target.value, ast.Name) and n.target.value.id == mo.params()[0][0]]
    inplace += [n for n in ast.walk(mo.node) if isinstance(n, ast.Call) and isinstance(n.func, ast.Attribute) and n.func.attr in ('update', 'add')
                and isinstance(n.func.value, ast.Attribute) and 'names' in n.func.value.attr]
    attrs = set()
    for n in inplace:
        t = n.target if isinstance(n, ast.AugAssign) else n.func.value
        attrs.add(t.attr)
    if not attrs:
        check.holds(rule, site_of(mo, mo.node), '_merge_other does not edit name sets in place', key='name-sets|no-inplace', nontrivial=False)
        return
    selfn = init.params()[0][0]
    for attr in sorted(attrs):
        key = '%s|private-set|%s' % (init.key, attr)
        assigns = [n for n in ast.walk(init.node) if isinstance(n, ast.Assign) and any(
            isinstance(t, ast.Attribute) and t.attr == attr and isinstance(t.value, ast.Name) and t.value.id == selfn for t in n.targets)]
        if not assigns:
            check.inconclusive(rule, site_of(init, init.node), 'initial value of self.%s not found' % attr, key=key)
            continue
        v = assigns[-1].value
        def _fresh(x):
            if isinstance(x, (ast.Set, ast.SetComp)):
                return True
            if isinstance(x, ast.Call) and isinstance(x.func, ast.Name) and x.func.id in ('set', 'frozenset'):
                return True
            if isinstance(x, ast.BinOp) and isinstance(x.op, (ast.BitOr, ast.BitAnd, ast.Sub, ast.BitXor)):
                return _fresh(x.left) or _fresh(x.right)      # set operators build a new set
            if isinstance(x, ast.Call) and isinstance(x.func, ast.Attribute) and x.func.attr in ('union', 'copy', 'intersection', 'difference'):
                return True
            if isinstance(x, ast.IfExp):
                return _fresh(x.body) and _fresh(x.orelse)
            return False

        def _hands_back(x):
            # one of the alternatives of a conditional value is the caller's object itself
            if isinstance(x, ast.IfExp):
                return _hands_back(x.body) or _hands_back(x.orelse)
            if isinstance(x, ast.BoolOp):
                return any(_hands_back(y) for y in x.values)
            return isinstance(x, ast.Name) and x.id in init.params()[0]
        fresh = _fresh(v)
        if fresh:
            check.holds(rule, site_of(init, assigns[-1]), 'self.%s starts as a set of its own (%s)' % (attr, norm(v)[:30]), key=key)
            continue
        # a helper: does any of its returns hand its parameter back?
        passthrough = None
        if isinstance(v, ast.Call) and isinstance(v.func, ast.Name):
            r = repo.resolve_global(init.module, v.func.id)
            if r is not None and r[0] == 'func':
                h = r[1]
                hp = h.params()[0]
                for ret in [x for x in ast.walk(h.node) if isinstance(x, ast.Return) and x.value is not None]:
                    if isinstance(ret.value, ast.Name) and ret.value.id in hp:
                        passthrough = (h, ret)
        if passthrough is not None or isinstance(v, ast.Name) or _hands_back(v):
            where = passthrough[1] if passthrough else assigns[-1]
            fi_ = passthrough[0] if passthrough else init
            check.violation(rule, site_of(fi_, where), 'self.%s can be the very set object the caller passed (%s), and _merge_other later edits it in '
                            'place: the names of a modifier stacked on top leak into the translator the set came from'
                            % (attr, norm(v)[:40]), key=key,
                            witness="kept = kwoargs('c')(f); posoargs('a')(kept); kept(a=1, b=2, c=3) raises TypeError")
        else:
            check.inconclusive(rule, site_of(init, assigns[-1]), 'initial value of self.%s not understood: %s' % (attr, norm(v)[:60]), key=key)


def rule_getter_protocol(check, rule):
    """C18.R4c: the bound copy is derived from the object `__get__` was called on.  `__get__` hands that object to the getter
    as `original=self`; the default getter must pass what it receives on to the constructor (`type(self)(func, **kwargs)`),
    not substitute the object it was created for: with stacked modifiers the getters of the inner translators run too, and
    an inner `self` lacks what was put on the outer object afterwards (a declared forger, for one)."""
    repo = check.repo
    get = repo.func('_util:OverrideableDataDesc.__get__')
    init = repo.func('_util:OverrideableDataDesc.__init__')
    check.analysed(get)
    check.analysed(init)
    gself = get.params()[0][0]
    calls = [n for n in ast.walk(get.node) if isinstance(n, ast.Call) and isinstance(n.func, ast.Attribute) and n.func.attr == 'custom_getter']
    key = 'getter-protocol|get'
    if not calls:
        check.inconclusive(rule, site_of(get, get.node), '__get__ does not call self.custom_getter', key=key)
    for c in calls:
        kw = dict((k.arg, k.value) for k in c.keywords if k.arg)
        if isinstance(kw.get('original'), ast.Name) and kw['original'].id == gself:
            check.holds(rule, site_of(get, c), '__get__ passes itself to the getter as original=', key=key)
        else:
            check.violation(rule, site_of(get, c), '__get__ calls the getter without original=self: the bound copy is no longer derived from the '
                            'object the attribute was looked up on', key=key,
                            witness='forwards_to_function over two stacked modifiers: the bound method loses the declared forger')
    # the default getter
    key = 'getter-protocol|default-getter'
    nested = [n for n in ast.walk(init.node) if isinstance(n, (ast.FunctionDef, ast.Lambda)) and n is not init.node]
    found = False
    for fn in nested:
        ctor = [c for c in ast.walk(fn) if isinstance(c, ast.Call) and isinstance(c.func, ast.Call) and norm(c.func.func) == 'type']
        if not ctor:
            continue
        found = True
        kwparam = fn.args.kwarg.arg if fn.args.kwarg else None
        c = ctor[0]
        passes = any(k.arg is None and isinstance(k.value, ast.Name) and k.value.id == kwparam for k in c.keywords) if kwparam else False
        orig = [k for k in c.keywords if k.arg == 'original']
        if passes and not orig:
            check.holds(rule, site_of(init, c), 'the default getter builds type(self)(func, **<what it was given>)', key=key)
        elif orig and not (isinstance(orig[0].value, ast.Name) and orig[0].value.id in [a.arg for a in fn.args.args + fn.args.kwonlyargs]):
            check.violation(rule, site_of(init, c), 'the default getter passes original=%s, the object it was created for, instead of the one __get__ '
                            'handed over: under stacked modifiers the bound copy is derived from an inner translator' % norm(orig[0].value), key=key,
                            witness='forwards_to_function over two stacked modifiers: the bound method loses the declared forger')
        elif not passes:
            check.violation(rule, site_of(init, c), 'the default getter does not pass the keyword arguments it receives (original=...) on to the '
                            'constructor', key=key)
        else:
            check.holds(rule, site_of(init, c), 'the default getter forwards original= as received', key=key)
    if not found:
        check.inconclusive(rule, site_of(init, init.node), 'default getter not found in OverrideableDataDesc.__init__', key=key)


def _cache_attr(repo):
    """name of the mapping OverrideableDataDesc.__get__ stores bound copies in (`self.<name>[func] = ret`)"""
    get = repo.func('_util:OverrideableDataDesc.__get__')
    selfn = get.params()[0][0]
    for n in ast.walk(get.node):
        if isinstance(n, ast.Subscript) and isinstance(n.ctx, ast.Store) and isinstance(n.value, ast.Attribute) \
                and isinstance(n.value.value, ast.Name) and n.value.value.id == selfn:
            return n.value.attr
    return None


def rule_reprepare_invalidates_cache(check, rule):
    """C18.R7: the bound copies a translator hands out are prepared once, from the signature its function advertised at that moment,
    and cached per bound function.  Whoever re-prepares an existing translator because that signature changed (annotate) must drop
    those copies too, or an instance bound before the change keeps the old signature while a fresh instance shows the new one."""
    repo = check.repo
    cache = _cache_attr(repo)
    if cache is None:
        check.holds(rule, '-', 'the descriptor keeps no cache of bound copies', key='reprepare|no-cache', nontrivial=False)
        return
    prep = repo.func(PT + '._prepare')
    selfp = prep.params()[0][0]
    # does _prepare itself drop the cache?
    inside = False
    for n in ast.walk(prep.node):
        if isinstance(n, ast.Call) and isinstance(n.func, ast.Attribute) and n.func.attr == 'clear' and norm(n.func.value) == '%s.%s' % (selfp, cache):
            inside = True
        if isinstance(n, ast.Attribute) and isinstance(n.ctx, ast.Store) and n.attr == cache and norm(n.value) == selfp:
            inside = True
    n_sites = 0
    for fi in repo.all_funcs():
        if fi.key in (PT + '.__init__', PT + '._prepare'):
            continue
        calls = [c for c in ast.walk(fi.node) if isinstance(c, ast.Call) and isinstance(c.func, ast.Attribute) and c.func.attr == '_prepare']
        if not calls:
            continue
        check.analysed(fi)
        for c in calls:
            n_sites += 1
            recv = norm(c.func.value)
            key = 'reprepare|%s|%s' % (fi.key, 'recv')
            if inside:
                check.holds(rule, site_of(fi, c), '_prepare drops the cached bound copies itself', key=key)
                continue
            # the innermost block that contains the call: the invalidation must be in the same block (same loop iteration)
            blk = None
            t = c
            while getattr(t, '_parent', None) is not None:
                par = t._parent
                for field in ('body', 'orelse', 'finalbody'):
                    b = getattr(par, field, None)
                    if isinstance(b, list) and t in b:
                        blk = b
                if blk is not None:
                    break
                t = par
            ok = False
            for s in (blk or []):
                for x in ast.walk(s):
                    if isinstance(x, ast.Call) and isinstance(x.func, ast.Attribute) and x.func.attr == 'clear' and norm(x.func.value) == '%s.%s' % (recv, cache):
                        ok = True
                    if isinstance(x, ast.Attribute) and isinstance(x.ctx, ast.Store) and x.attr == cache and norm(x.value) == recv:
                        ok = True
                    if isinstance(x, ast.Delete) and any(isinstance(t_, ast.Attribute) and t_.attr == cache and norm(t_.value) == recv for t_ in x.targets):
                        ok = True
            if ok:
                check.holds(rule, site_of(fi, c), '%s re-prepares %s and drops its cached bound copies (%s.%s)' % (fi.name, recv, recv, cache), key=key)
            else:
                check.violation(rule, site_of(fi, c), '%s re-prepares the existing translator %s but leaves its cache of bound copies (%s.%s) as it is: '
                                'a method bound before this point keeps advertising the previous signature' % (fi.name, recv, recv, cache), key=key,
                                witness="x = A(); x.m; annotate(a=int)(A.__dict__['m']); signature(x.m) must show a: int like signature(A().m)")
    check.floor(rule, 're-preparation sites', n_sites, 1)


def rule_kwopos_index(check, rule):
    """C12.R1k: `__call__` puts the value of every converted keyword-only parameter back at the position recorded for it, counting in the
    *wrapped function's own parameter list*.  Whatever shape `_prepare` takes, the index it records next to such a parameter must
    therefore be the running index over all parameters of the forged signature -- not an index into a filtered or classified
    sub-list (the regular parameters only), which is off by the number of positional-only parameters in front."""
    repo = check.repo
    fi = repo.func(PT + '._prepare')
    check.analysed(fi)
    it = Interp(repo, Policy())
    paths = it.run(fi)
    check.absorb(it)
    selft = ('P', fi.params()[0][0])
    n = 0
    seen = set()
    for p in paths:
        # the list published as self.kwopos
        pos_lists = set(e.args[0] for e in p.effects if e.kind == 'store_attr' and e.op == 'kwopos' and e.target == selft and e.args)
        pos_lists |= set(v for (b, a), v in getattr(p, 'heap', {}).items() if b == selft and a == 'kwopos') if hasattr(p, 'heap') else set()
        for e, g in walk_effects(p.effects):
            if e.kind != 'loop':
                continue
            for sp in e.sub:
                for x in sp.effects:
                    if not (x.kind == 'mut' and x.op == 'append' and x.args and x.args[0][0] == 'T' and len(x.args[0][1]) == 2):
                        continue
                    tgt = x.target
                    if pos_lists and tgt not in pos_lists and not (tgt[0] == 'A' and tgt[2] == 'kwopos'):
                        continue
                    idx = x.args[0][1][0]
                    key = '_prepare|kwopos-index'
                    if key in seen:
                        continue
                    seen.add(key)
                    n += 1
                    st = site_of(fi, x.node)
                    src = e.target
                    over = src[2][0] if (src[0] == 'C' and src[1] == 'enumerate' and src[2]) else None
                    if idx == ('IDX', e.ctx) and over is not None:
                        txt = show(over)
                        full = 'parameters' in txt and not any(s[0] == 'C' and isinstance(s[1], str) and s[1].endswith(':sort_params') for s in subterms(over)) \
                            and not any(s[0] in ('G', 'SL') for s in subterms(over))
                        if full:
                            check.holds(rule, st, 'the recorded position is the running index over every parameter of the forged signature', key=key)
                        else:
                            check.violation(rule, st, 'the position recorded for a converted keyword-only parameter counts in %s, not in the wrapped '
                                            'function\'s whole parameter list: with positional-only parameters in front, __call__ re-inserts the value '
                                            'too far left' % txt[:80], key=key,
                                            witness="kwoargs('verbose') on def connect(host, /, port, verbose): connect('h', 1, verbose=True)")
                    elif idx[0] == 'V':
                        check.holds(rule, st, 'the recorded position is a hand-kept counter (judged by the table rule)', key=key, nontrivial=False)
                    else:
                        check.inconclusive(rule, st, 'recorded position not understood: %s' % show(idx)[:60], key=key)
    check.floor(rule, 'position records of converted keyword-only parameters', n, 1)


def rule_empty_selection_guarded(check, rule):
    """C12.R5: `_PokTranslator.__new__` hands back the function it was given when no name is selected.  If that function is itself a
    translator, Python runs `__init__` on the returned object again (it is an instance of the class), with `func` = the object
    itself: afterwards every call recurses.  As long as `__new__` has that pass-through, the public entry points must not let an
    empty selection reach the constructor (`kwoargs()`, `posoargs()`, `autokwoargs` with nothing to convert return the no-op)."""
    repo = check.repo
    new = repo.func(PT + '.__new__', required=False)
    if new is None:
        check.holds(rule, '-', '_PokTranslator has no __new__: construction always makes a new object', key='empty-selection|no-new', nontrivial=False)
        return
    check.analysed(new)
    it = Interp(repo, Policy())
    paths = it.run(new)
    check.absorb(it)
    funcp = ('P', new.params()[0][1]) if len(new.params()[0]) > 1 else None
    passthrough = [p for p in paths if p.status == 'return' and p.value == funcp]
    if not passthrough:
        check.holds(rule, site_of(new, new.node), '__new__ never hands back its argument', key='empty-selection|no-passthrough', nontrivial=False)
        return
    n = 0
    for fname, names_idx in (('kwoargs', 1), ('posoargs', 1)):
        fi = repo.func('%s:%s' % (MOD, fname), required=False)
        if fi is None:
            check.inconclusive(rule, '-', 'anchor %s vanished' % fname, key='empty-selection|%s' % fname)
            continue
        check.analysed(fi)
        vararg = fi.params()[1]
        names = ('P', vararg) if vararg else None
        it2 = Interp(repo, Policy())
        for p in it2.run(fi):
            if p.status != 'return':
                continue
            v = p.value
            builds = [s for s in subterms(v) if isinstance(s, tuple) and s and ((s[0] in ('C', 'O') and isinstance(s[1], str) and s[1].endswith('_PokTranslator')) or
                                                                           (s[0] == 'CLS' and str(s[1]).endswith('_PokTranslator')) or
                                                                           (s[0] == 'GLOB' and s[-1] == '_PokTranslator'))] \
                or [e for e in p.effects if e.kind == 'call' and str(e.op).endswith('_PokTranslator')]
            if not builds:
                continue
            # the start=/end= forms go through a helper that raises when the marker is not found: their selection is non-empty
            if any(isinstance(s, tuple) and s and s[0] == 'FN' and str(s[1]).endswith(('_kwoargs_start', '_posoargs_end')) for s in subterms(v)) or \
                    any(str(s).endswith(('_kwoargs_start', '_posoargs_end')) for s in subterms(v) if isinstance(s, str)):
                continue
            n += 1
            key = 'empty-selection|%s' % fname
            ln = ('C', 'len', (names,), ())
            nonempty = any((a == ('truthy', names) and pol) or (a == ('truthy', ln) and pol) or
                           (a[0] == 'eq' and set(a[1:]) == set([ln, K(0)]) and not pol) or
                           (a[0] == 'cmp' and a[1] == '<' and a[2] == K(0) and a[3] == ln and pol) or
                           (a[0] == 'cmp' and a[1] == '<=' and a[2] == ln and a[3] == K(0) and not pol) or
                           (a[0] == 'cmp' and a[1] == '<' and a[2] == ln and a[3] == K(1) and not pol) or
                           (a[0] == 'cmp' and a[1] == '<=' and a[2] == K(1) and a[3] == ln and pol)
                           for a, pol in p.lits)
            node = [e for e in p.effects if e.kind == 'return'][-1].node
            if nonempty:
                check.holds(rule, site_of(fi, node), '%s() builds a translator only for a non-empty selection' % fname, key=key)
            else:
                check.violation(rule, site_of(fi, node), '%s() lets an empty selection reach the translator constructor: __new__ then hands back the '
                                'function it was given, and when that is already a translator __init__ runs on it again with func = itself '
                                '(every later call recurses)' % fname, key=key, guards=' & '.join(show_lit(l) for l in p.lits)[:200],
                                witness="autokwoargs(posoargs('a')(lambda a, b: 0))(1, 2) -> RecursionError")
    check.floor(rule, 'translator-building paths of kwoargs()/posoargs()', n, 2)


def rule_bound_copy_selection(check, rule):
    """C12.R9 (D52, known; same root as D24): "called directly or as a bound method it accepts exactly the calls that signature accepts".
    Binding consumes the first parameter.  The descriptor builds the bound copy by applying the selection of names again to the bound
    function; when it hands on the *unbound* selection unchanged (`kwargs.update(self.parameters())`), a selection that contains the
    consumed parameter -- `posoargs('self', 'a')`, the only way to make a method's parameters positional-only explicitly -- names a
    parameter the bound function does not have, and reading the attribute on an instance raises ValueError."""
    import ast
    from .index import norm
    repo = check.repo
    fi = repo.func('_util:OverrideableDataDesc.__init__')
    check.analysed(fi)
    getters = [x for x in ast.walk(fi.node) if isinstance(x, ast.FunctionDef) and x is not fi.node]
    n = 0
    for g in getters:
        builds = [c for c in ast.walk(g) if isinstance(c, ast.Call) and norm(c.func).startswith('type(') and any(k.arg is None for k in c.keywords)]
        if not builds:
            continue
        n += 1
        key = 'bound-reapplies-selection|%s.%s' % (fi.key, g.name)
        st = '%s %s' % (fi.loc(g), fi.key)
        sel = [c for c in ast.walk(g) if isinstance(c, ast.Call) and isinstance(c.func, ast.Attribute) and c.func.attr == 'parameters' and not c.args]
        filtered = any(isinstance(x, (ast.DictComp, ast.SetComp, ast.ListComp, ast.GeneratorExp)) or
                       (isinstance(x, ast.BinOp) and isinstance(x.op, ast.Sub)) or
                       (isinstance(x, ast.Call) and isinstance(x.func, ast.Attribute) and x.func.attr in ('difference', 'discard', 'remove', 'pop',
                                                                                                           'difference_update'))
                       for x in ast.walk(g))
        if sel and not filtered:
            check.violation(rule, st, 'the bound copy is built from the unbound selection as it is (%s): a selection containing the parameter that '
                            'binding consumes cannot be applied to the bound function' % norm(sel[0]), key=key,
                            witness="class C:\n    @posoargs('self', 'a')\n    def m(self, a, b=3): ...\nC().m raises ValueError: Parameters not found: self")
        else:
            check.holds(rule, st, 'the bound copy is built from a selection adjusted to the bound function', key=key)
    check.floor(rule, 'default getters of the descriptor', n, 1)


def rule_prepare_admissibility(check, rule):
    """C12.R1a (mutant sweep 5): "inadmissible selections (... positional-only after a regular parameter, star parameters) raise ValueError at
    decoration time".  In _prepare: (a) the `raise` for a positional-only request that comes after a regular parameter is guarded by a flag,
    and that flag is set to True exactly where a positional-or-keyword parameter is left unconverted; (b) the branch for parameters that
    are not positional-or-keyword raises for a selected name unless the parameter already is of the requested kind."""
    import ast
    from .index import norm
    repo = check.repo
    fi = repo.func(PT + '._prepare')
    check.analysed(fi)
    st = site_of(fi, fi.node)
    # (a)
    key = '_prepare|after-regular-flag'
    flagged = None
    for i_ in ast.walk(fi.node):
        if isinstance(i_, ast.If) and isinstance(i_.test, ast.Name) and any(isinstance(r, ast.Raise) for r in i_.body):
            # a *flag*: a name the function initialises to False (directly or in a chain `a = b = False`)
            nm = i_.test.id
            bools = set()
            for _ in range(3):
                for a in ast.walk(fi.node):
                    if isinstance(a, ast.Assign) and ((isinstance(a.value, ast.Constant) and isinstance(a.value.value, bool)) or
                                                      (isinstance(a.value, ast.Name) and a.value.id in bools)):
                        bools.update(t.id for t in a.targets if isinstance(t, ast.Name))
            if nm in bools:
                flagged = i_
                break
    if flagged is None:
        check.inconclusive(rule, st, 'the guard of the "comes after a regular parameter" raise was not found', key=key)
    else:
        flag = flagged.test.id
        sets_true = [a for a in ast.walk(fi.node) if isinstance(a, ast.Assign) and any(isinstance(t, ast.Name) and t.id == flag for t in a.targets)
                     and isinstance(a.value, ast.Constant) and a.value.value is True
                     and not any(isinstance(x, ast.For) for x in [getattr(a, '_parent', None)])]
        in_loop_true = [a for a in sets_true if any(isinstance(p_, ast.For) for p_ in _ancestors(a))]
        appends_plain = [a for a in in_loop_true if any(
            isinstance(c, ast.Call) and isinstance(c.func, ast.Attribute) and c.func.attr == 'append' and c.args and isinstance(c.args[0], ast.Name)
            for s_ in getattr(a._parent, 'body', []) + getattr(a._parent, 'orelse', []) for c in ast.walk(s_))]
        if in_loop_true and appends_plain:
            check.holds(rule, site_of(fi, in_loop_true[0]), 'the flag guarding the raise is set where a regular parameter is left unconverted', key=key)
        else:
            check.violation(rule, site_of(fi, flagged), 'the flag `%s` that guards "requested positional-only, but comes after a regular parameter" is never set to '
                            'True inside the loop: posoargs(\'b\') on f(a, b) is accepted and advertises a signature Python itself rejects' % flag, key=key,
                            witness="posoargs('b')(lambda a, b: None) must raise ValueError")
    # (b)
    key = '_prepare|non-pok-selected'
    raises = []
    for i_ in ast.walk(fi.node):
        if isinstance(i_, ast.If) and 'POSITIONAL_OR_KEYWORD' in norm(i_.test) and '.kind' in norm(i_.test) and any(isinstance(p_, ast.For) for p_ in _ancestors(i_)):
            neg = isinstance(i_.test, ast.UnaryOp) or any(isinstance(o, (ast.NotEq, ast.IsNot)) for c_ in ast.walk(i_.test) if isinstance(c_, ast.Compare) for o in c_.ops)
            other = i_.body if neg else i_.orelse
            raises += [r for s_ in other for r in ast.walk(s_) if isinstance(r, ast.Raise) and r.exc is not None]
    if raises:
        check.holds(rule, site_of(fi, raises[0]), 'a selected parameter that is neither positional-or-keyword nor already of the requested kind raises ValueError',
                    key=key)
    else:
        check.violation(rule, st, 'no ValueError for a selected parameter that is not positional-or-keyword (a star parameter, a positional-only one asked to '
                        'become keyword-only): the name is silently ignored or reported as "not found"', key=key,
                        witness="kwoargs('args')(lambda *args: None) must raise ValueError")


def _ancestors(node):
    t = getattr(node, '_parent', None)
    while t is not None:
        yield t
        t = getattr(t, '_parent', None)


def rule_anchor_getter_rederives(check, rule):
    """C12.R11 (round 9, C12-u): an anchor-based factory `f(anchor, names, func, ...)` hands the translator a getter
    `get=partial(f, <anchor>, <names>)` that re-runs the factory on the function the descriptor protocol binds.  The
    bound function has lost its first parameter, so the getter must start from what the *user* wrote -- the factory's
    own leading parameters, in their positions, unedited -- and never from the names the body resolved on the unbound
    function (they contain `self` once the anchor lies at or after it: "Parameters not found: self" on every attribute
    access through an instance).  Necessary condition of `bound method call == advertised signature`."""
    repo = check.repo
    n = 0
    for fi in repo.all_funcs():
        if fi.module.name != 'modifiers' or fi.cls is not None:
            continue
        for kw in [x for x in ast.walk(fi.node) if isinstance(x, ast.keyword) and x.arg == 'get']:
            v = kw.value
            if not (isinstance(v, ast.Call) and norm(v.func).split('.')[-1] == 'partial' and v.args
                    and isinstance(v.args[0], ast.Name) and v.args[0].id == fi.name):
                continue
            n += 1
            check.analysed(fi)
            params = [p[0] if isinstance(p, tuple) else p for p in _positional_names(fi.node)]
            stored = set()
            for x in ast.walk(fi.node):
                if isinstance(x, ast.Name) and isinstance(x.ctx, (ast.Store, ast.Del)):
                    stored.add(x.id)
                if isinstance(x, ast.Call) and isinstance(x.func, ast.Attribute) and isinstance(x.func.value, ast.Name) \
                        and x.func.attr in ('add', 'update', 'append', 'extend', 'discard', 'remove', 'pop', 'clear', 'insert', 'sort'):
                    stored.add(x.func.value.id)
                if isinstance(x, ast.AugAssign) and isinstance(x.target, ast.Name):
                    stored.add(x.target.id)
            key = '%s|getter-rederives' % fi.key
            bad = None
            if v.keywords:
                bad = None if all(k.arg in params and isinstance(k.value, ast.Name) and k.value.id == k.arg and k.arg not in stored
                                  for k in v.keywords) else 'keywords %s' % ', '.join(norm(k)[:30] for k in v.keywords)
            for i, a in enumerate(v.args[1:]):
                want = params[i] if i < len(params) else None
                core = a
                while isinstance(core, ast.Call) and isinstance(core.func, ast.Name) and core.func.id in ('tuple', 'list', 'set', 'frozenset', 'sorted') \
                        and len(core.args) == 1 and not core.keywords:
                    core = core.args[0]
                if isinstance(core, ast.Name) and core.id == want and want not in stored:
                    continue
                names = sorted(set(x.id for x in ast.walk(a) if isinstance(x, ast.Name)))
                if isinstance(core, ast.Name) and core.id in stored:
                    bad = 'argument %d of the getter is %s, which the body edits after resolving names on the unbound function' % (i + 1, norm(a)[:40])
                elif isinstance(core, ast.Name) and core.id in params:
                    bad = 'argument %d of the getter is the factory\'s parameter %r, not its parameter %r' % (i + 1, core.id, want)
                else:
                    bad = 'argument %d of the getter is %s (names %s), not the factory\'s own parameter %r' % (i + 1, norm(a)[:40], names, want)
                break
            if len(v.args) - 1 + len(v.keywords) < 2 and bad is None:
                bad = 'the getter fixes only %d of the factory\'s leading arguments' % (len(v.args) - 1)
            if bad:
                check.violation(rule, site_of(fi, kw), '%s: get=%s -- %s; on attribute access through an instance the factory then runs on the bound '
                                'function with names resolved on the unbound one' % (fi.name, norm(v)[:60], bad), key=key,
                                witness="class K:\n    @posoargs(end='a')\n    def m(self, a, b): ...\nK().m  -> ValueError: Parameters not found: self")
            else:
                check.holds(rule, site_of(fi, kw), '%s: the getter re-runs the factory with its own leading parameters %s, unedited'
                            % (fi.name, ', '.join(norm(a) for a in v.args[1:])), key=key)
    check.floor(rule, 'anchor-based getters (get=partial(<factory>, ...))', n, 2)


def _positional_names(fnode):
    a = fnode.args
    return [x.arg for x in list(a.posonlyargs) + list(a.args)]
