"""Fold coverage (C01.R5, C02.R5, C15.R1): the n-ary operations are left folds
over *all* their inputs, every step wrapped by the ValueError ->
IncompatibleSignatures conversion."""
import ast

from .index import Inconclusive, norm
from .interp import Interp, Policy, show, show_lit, walk_effects, K, NONE, subterms, mentions


def site_of(fi, node):
    return '%s %s' % (fi.loc(node), fi.key)


class Fold(object):
    """facts about `def op(*signatures, ...)` implemented as seed + loop"""

    def __init__(self, repo, key):
        self.repo = repo
        self.fi = repo.func(key)
        a = self.fi.node.args
        if a.vararg is None:
            raise Inconclusive('%s no longer takes *signatures' % key)
        self.var = ('P', a.vararg.arg)
        self.interp = Interp(repo, Policy(assume_asserts=True))
        self.paths = self.interp.run(self.fi)
        self.loops = []
        for p in self.paths:
            for e in p.effects:
                if e.kind == 'loop' and not any(l.ctx == e.ctx for l, _ in self.loops):
                    self.loops.append((e, p))

    def call_effect(self, effects, result):
        for e, g in walk_effects(effects):
            if e.kind == 'call' and e.result == result:
                return e
        return None


def rule_fold(check, rule, key, step_names, witness):
    """seed = element 0, loop ranges over exactly the rest, every element goes
    through sort_params, the accumulator is loop-carried into the step"""
    f = Fold(check.repo, key)
    fi = f.fi
    check.analysed(fi)
    check.absorb(f.interp)
    if len(f.loops) != 1:
        raise Inconclusive('%s: expected exactly one fold loop, found %d' % (key, len(f.loops)))
    loop, outer = f.loops[0]
    st = site_of(fi, loop.node)
    # (a) range of the loop
    it = loop.target
    start = None
    seq = it
    idx_start = None
    if it[0] == 'C' and it[1] == 'enumerate':
        seq = it[2][0]
        if len(it[2]) > 1:
            idx_start = it[2][1]
        for n, v in it[3]:
            if n == 'start':
                idx_start = v
        if idx_start is None:
            idx_start = K(0)
    if seq[0] == 'SL' and seq[1] == f.var:
        lo, hi = seq[2], seq[3]
        k = 'fold-range|%s' % fi.key
        if hi != NONE:
            check.violation(rule, st, 'the fold loop stops before the last input (%s)' % show(seq), key=k, witness=witness)
        elif lo == K(1):
            check.holds(rule, st, 'fold loop ranges over inputs[1:]', key=k, effect=show(it))
        elif lo[0] == 'K':
            check.violation(rule, st, 'the fold loop starts at input %r, inputs in between are ignored' % (lo[1],), key=k,
                            effect=show(it), witness=witness)
        else:
            check.inconclusive(rule, st, 'fold range not understood: %s' % show(seq), key=k)
    elif seq == f.var:
        check.inconclusive(rule, st, 'fold loop ranges over all inputs including the seed: %s' % show(seq), key='fold-range|%s' % fi.key)
    else:
        check.inconclusive(rule, st, 'fold range not understood: %s' % show(seq), key='fold-range|%s' % fi.key)
    # (b) the step
    n_steps = 0
    for sp in loop.sub:
        if sp.status in ('break', 'return'):
            kb = 'fold-early-exit|%s|%s' % (fi.key, ' & '.join(show_lit(l) for l in sp.lits)[:80])
            check.violation(rule, st, 'the fold loop can be left early (%s) under %s: the inputs after that point never take part in the '
                            'result, whatever they require' % (sp.status, ' & '.join(show_lit(l) for l in sp.lits)[:120] or 'no condition'),
                            key=kb, witness=witness)
            continue
        if sp.status == 'raise':
            continue
        carried = [(n, v) for n, v in sp.env_out.items() if sp.env_in.get(n) is not None and sp.env_in[n][0] == 'V']
        acc = None
        for n, v in carried:
            vin = sp.env_in[n]
            if v != vin and mentions(v, vin) or _step_call(f, sp, v, vin, step_names):
                acc = (n, v, vin)
        k = 'fold-step|%s' % fi.key
        if acc is None:
            if any(isinstance(l[0], tuple) and l[0][0] == 'raises' for l in sp.lits):
                continue
            check.violation(rule, st, 'no loop-carried accumulator: the result of a step is not fed into the next', key=k,
                            guards=' & '.join(show_lit(l) for l in sp.lits), witness=witness)
            continue
        n_steps += 1
        name, vout, vin = acc
        call = _step_call(f, sp, vout, vin, step_names)
        if call is None:
            check.inconclusive(rule, st, 'fold step not recognised: %s' % show(vout)[:200], key=k)
            continue
        args = [a for a in call.args]
        el = None
        for t in subterms(('T', tuple(args))):
            if t[0] == 'E' and t[2] == loop.ctx:
                el = t
            if t[0] == 'S' and t[1][0] == 'E' and t[1][2] == loop.ctx:
                el = t
        if vin not in args and not any(mentions(a, vin) for a in args):
            check.violation(rule, st, 'the step does not receive the accumulated result', key=k, effect=repr(call), witness=witness)
        elif el is None:
            check.violation(rule, st, 'the step does not receive the current input', key=k, effect=repr(call), witness=witness)
        else:
            # the current input must be classified by sort_params(sig, sources=True)
            cls = [t for t in subterms(('T', tuple(args))) if t[0] == 'C' and isinstance(t[1], str) and t[1].endswith(':sort_params')
                   and mentions(t, el)]
            if not cls:
                check.inconclusive(rule, st, 'current input does not pass through sort_params', key=k)
            elif not any(n == 'sources' and v == K(True) for n, v in cls[0][3]) and not (len(cls[0][2]) > 1 and cls[0][2][1] == K(True)):
                check.violation(rule, st, 'the current input is classified without its provenance map (sources=True missing)',
                                key=k, effect=show(cls[0])[:200])
            else:
                check.holds(rule, st, 'step receives the accumulator and the classified current input', key=k, effect=repr(call)[:300])
        # first argument of the step is the accumulator (left operand)
        if args and not (args[0] == vin or mentions(args[0], vin)):
            check.violation(rule, st, 'the accumulated result is not the left/outer operand of the step', key=k + '|order',
                            effect=repr(call)[:300], witness=witness)
        f.step_call = call
        f.loop = loop
    check.floor(rule, 'fold steps in %s' % fi.qualname, n_steps, 1)
    # (c) seed
    seeds = []
    for p in f.paths:
        for e in p.effects:
            if e is loop or (e.kind == 'loop' and e.ctx == loop.ctx):
                break
            if e.kind == 'call' and isinstance(e.op, str) and e.op.endswith(':sort_params'):
                seeds.append(e)
        break
    k = 'fold-seed|%s' % fi.key
    if not seeds:
        check.inconclusive(rule, site_of(fi, fi.node), 'seed classification not found before the loop', key=k)
    else:
        a0 = seeds[0].args[0]
        if a0 == ('S', f.var, K(0)):
            if any(n == 'sources' and v == K(True) for n, v in seeds[0].kws) or (len(seeds[0].args) > 1 and seeds[0].args[1] == K(True)):
                check.holds(rule, site_of(fi, seeds[0].node), 'seed is input 0, classified with its provenance', key=k)
            else:
                check.violation(rule, site_of(fi, seeds[0].node), 'seed classified without its provenance map', key=k)
        elif a0[0] == 'S' and a0[1] == f.var and a0[2][0] == 'K':
            check.violation(rule, site_of(fi, seeds[0].node), 'seed is input %r, not input 0' % (a0[2][1],), key=k, witness=witness)
        else:
            check.inconclusive(rule, site_of(fi, seeds[0].node), 'seed not understood: %s' % show(a0), key=k)
    # (d) result: apply_params(<input 0>, *accumulator)
    rets = [p for p in f.paths if p.status == 'return']
    k = 'fold-result|%s' % fi.key
    for p in rets:
        v = p.value
        ok = None
        if v[0] == 'C' and isinstance(v[1], str) and v[1].endswith(':apply_params'):
            stars = [a for a in v[2] if a[0] == 'STAR']
            if stars and stars[0][1][0] == 'V' and stars[0][1][3] == 'after':
                ok = True
            elif stars:
                ok = False
        node = [e for e in p.effects if e.kind == 'return'][-1].node
        if ok is not None:
            # ... on top of the first input: everything that is not a parameter (return annotation) comes from it
            base = v[2][0] if v[2] and v[2][0][0] != 'STAR' else None
            kb = 'fold-result-base|%s' % fi.key
            if base == ('S', f.var, K(0)):
                check.holds(rule, site_of(fi, node), 'the result is rebuilt on top of input 0', key=kb)
            elif base is not None and base[0] == 'S' and base[1] == f.var and base[2][0] == 'K':
                check.violation(rule, site_of(fi, node), 'the result is rebuilt on top of input %r instead of input 0: its return annotation '
                                '(and for a single input, the result itself) comes from another signature' % (base[2][1],), key=kb, witness=witness)
            else:
                check.inconclusive(rule, site_of(fi, node), 'base signature of the result not understood: %s' % (show(base)[:80] if base else None), key=kb)
        if ok is True:
            check.holds(rule, site_of(fi, node), 'result is rebuilt from the final accumulator', key=k)
        elif ok is False:
            check.violation(rule, site_of(fi, node), 'result is not rebuilt from the final accumulator: %s' % show(v)[:200], key=k)
        else:
            check.inconclusive(rule, site_of(fi, node), 'result construction not understood: %s' % show(v)[:200], key=k)
        break
    return f


def _step_call(f, sp, vout, vin, step_names):
    """the call effect of the fold step that produced vout"""
    best = None
    for e, g in walk_effects(sp.effects):
        if e.kind != 'call':
            continue
        name = str(e.op).split(':')[-1]
        if name in step_names and e.result is not None and mentions(vout, e.result):
            best = e
    return best


def rule_step_wrapped(check, rule, key, step_names, witness):
    """C15.R1: the step call sits in a try whose ValueError handler raises
    IncompatibleSignatures(sig, signatures[:i])"""
    repo = check.repo
    fi = repo.func(key)
    check.analysed(fi)
    n = 0
    for node in ast.walk(fi.node):
        if not isinstance(node, ast.Call):
            continue
        cname = norm(node.func).split('.')[-1]
        if cname not in step_names:
            continue
        n += 1
        k = 'step-wrapped|%s|%s' % (fi.key, cname)
        # enclosing try with a handler for ValueError (or a base) raising IncompatibleSignatures
        t = node
        found = None
        while t is not None and t is not fi.node:
            p = getattr(t, '_parent', None)
            if isinstance(p, ast.Try) and t in p.body:
                found = p
                break
            t = p
        if found is None:
            check.violation(rule, site_of(fi, node), 'fold step %s() is not inside a try: its ValueError escapes unconverted' % cname,
                            key=k, witness=witness)
            continue
        good = None
        for h in found.handlers:
            names = [norm(x) for x in (h.type.elts if isinstance(h.type, ast.Tuple) else [h.type])] if h.type is not None else ['BaseException']
            catches = any(x.split('.')[-1] in ('ValueError', 'Exception', 'BaseException') for x in names)
            if not catches:
                continue
            raises = [s for s in ast.walk(h) if isinstance(s, ast.Raise)]
            if any(s.exc is not None and 'IncompatibleSignatures' in norm(s.exc) for s in raises):
                good = h
                break
            good = False
            break
        if good:
            check.holds(rule, site_of(fi, node), 'fold step %s() is wrapped: ValueError -> IncompatibleSignatures' % cname, key=k)
        elif good is False:
            check.violation(rule, site_of(fi, node), 'the ValueError handler around %s() does not raise IncompatibleSignatures' % cname,
                            key=k, witness=witness)
        else:
            check.violation(rule, site_of(fi, node), 'no handler for ValueError around fold step %s()' % cname, key=k, witness=witness)
    check.floor(rule, 'fold step call sites in %s' % fi.qualname, n, 1)
