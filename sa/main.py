"""CLI: check <ID> [--tier quick|thorough] [--repo PATH] [--replay FILE]

exit 0  every rule HOLDS or is a listed known finding
exit 1  at least one VIOLATION (line `VIOLATION property=<id> replay=<path>`)
exit 2  INCONCLUSIVE / internal error (line `ANALYSIS-ERROR ...`)
"""
import argparse
import importlib
import json
import os
import sys
import traceback

HERE = os.path.dirname(os.path.abspath(__file__))
sys.path.insert(0, os.path.dirname(HERE))

from sa.index import Repo, Inconclusive  # noqa: E402
from sa import report  # noqa: E402

ALL = ['C%02d' % i for i in range(1, 21)]


def run_property(pid, repo_path, tier, replay=None, write_evidence=True, out=sys.stdout, notes=None, collect=None):
    try:
        mod = importlib.import_module('sa.props.%s' % pid.lower())
    except ImportError as e:
        out.write('ANALYSIS-ERROR property=%s rule=- reason=no checker module (%s)\n' % (pid, e))
        return 2
    try:
        repo = Repo(repo_path)
    except Inconclusive as e:
        out.write('ANALYSIS-ERROR property=%s rule=- reason=%s\n' % (pid, e.reason))
        return 2
    check = report.Check(pid, repo, tier=tier, explanation=mod.EXPLANATION, assumptions=mod.ASSUMPTIONS)
    if notes:
        check.notes.append(notes)
    try:
        mod.run(check)
    except Inconclusive as e:
        check.inconclusive(pid, '-', e.reason, key='inconclusive')
    except Exception as e:
        check.inconclusive(pid, '-', 'internal error: %s: %s | %s' % (type(e).__name__, e, traceback.format_exc()), key='internal')
    if collect is not None:
        collect['modules'] = sorted(set(k.split(':')[0] for k in check.stats['functions_analysed']))
    only = None
    if replay:
        with open(replay) as f:
            r = json.load(f)
        only = lambda o: o.rule == r.get('rule') and o.key == r.get('key')
        write_evidence = False
    return report.finish(check, out=out, write_evidence=write_evidence, only=only)


def main(argv=None):
    ap = argparse.ArgumentParser()
    ap.add_argument('prop')
    ap.add_argument('--tier', default=os.environ.get('VERIF_TIER', 'quick'), choices=['quick', 'thorough'])
    ap.add_argument('--repo', default=os.environ.get('VERIF_REPO', '/repo'))
    ap.add_argument('--replay')
    ap.add_argument('--no-evidence', action='store_true')
    ap.add_argument('--no-selftest', action='store_true')
    a = ap.parse_args(argv)
    pid = a.prop.upper()
    if pid == 'ALL':
        worst = 0
        for p in ALL:
            worst = max(worst, run_property(p, a.repo, a.tier, write_evidence=not a.no_evidence))
        return worst
    if a.tier == 'thorough' and not a.replay and not a.no_selftest:
        # thorough: the same decision, plus the checker's own validation on scratch copies of the working tree (self-test
        # corpora, the stored independent seeds, behaviour-preserving variants).  The validation is about the checker: it is
        # printed and recorded in the evidence; the exit status is the verdict on /repo alone
        import io
        got = {}
        probe = run_property(pid, a.repo, a.tier, write_evidence=False, out=io.StringIO(), collect=got)
        sc, notes = 0, {}
        if probe != 1:
            from sa import selftest
            sc = selftest.run_for_property(pid, a.repo, modules=got.get('modules'))
            notes = {'self_validation': dict(selftest.LAST)}
        if notes:
            notes['self_validation']['passed'] = (sc == 0)
        code = run_property(pid, a.repo, a.tier, write_evidence=not a.no_evidence, notes=notes)
        return code
    return run_property(pid, a.repo, a.tier, replay=a.replay, write_evidence=not a.no_evidence)


if __name__ == '__main__':
    try:
        sys.exit(main())
    except SystemExit:
        raise
    except BaseException as e:  # pragma: no cover
        sys.stdout.write('ANALYSIS-ERROR property=? rule=- reason=internal %s: %s\n' % (type(e).__name__, e))
        traceback.print_exc()
        sys.exit(2)
