"""C06 (and parts of C05/C19): translation of discovered calls into forwards()."""
import ast

from .index import Inconclusive, norm
from .interp import Interp, Policy, show, show_lit, walk_effects, K, NONE, subterms, mentions
from .callgraph import _own_nodes
from .rules_embed import _bind

AF = '_autoforwards'
VIS = AF + ':CallListerVisitor'


def site_of(fi, node):
    return '%s %s' % (fi.loc(node), fi.key)


def call_fields(repo):
    m = repo.module(AF)
    vals = m.assigns.get('Call')
    if not vals:
        raise Inconclusive('Call namedtuple declaration vanished')
    v = vals[-1]
    if not (isinstance(v, ast.Call) and norm(v.func).endswith('namedtuple') and len(v.args) >= 2):
        raise Inconclusive('Call is no longer a namedtuple')
    f = v.args[1]
    try:
        txt = ast.literal_eval(f)
    except Exception:
        raise Inconclusive('Call field list not a literal')
    if isinstance(txt, str):
        return txt.replace(',', ' ').split()
    return list(txt)


def rule_call_protocol(check, rule):
    """C06.R1: Call declaration, constructor in process_Call and destructuring in forward_signatures agree by position"""
    repo = check.repo
    fields = call_fields(repo)
    st0 = 'sigtools/_autoforwards.py Call'
    if len(fields) != 9:
        check.violation(rule, st0, 'Call declares %d fields, the protocol has 9 positions' % len(fields), key='Call|fields')
        return
    check.holds(rule, st0, 'Call declares 9 positions', key='Call|fields')
    # producer
    pc = repo.func(VIS + '.process_Call')
    check.analysed(pc)
    it = Interp(repo, Policy())
    paths = it.run(pc)
    check.absorb(it)
    selft = ('P', pc.params()[0][0])
    nodep = ('P', pc.params()[0][1])
    hh = repo.func(VIS + '.has_hide_starargs')
    rn = repo.func(VIS + '.resolve_name')
    seen = set()
    n = 0
    for p in paths:
        for e in p.effects:
            if e.kind == 'call' and show(e.target) in ('_autoforwards.Call',) or (e.kind == 'call' and e.extra == 'unresolved' and 'Call' in str(e.op)):
                a = list(e.args)
                if e.kws:
                    b = dict(e.kws)
                    a = a + [b.get(f) for f in fields[len(a):]]
                if len(a) != 9:
                    check.violation(rule, site_of(pc, e.node), 'Call constructed with %d values' % len(a), key='process_Call|arity')
                    continue
                n += 1

                def chk(i, ok, what, got):
                    key = 'process_Call|pos%d' % i
                    if key in seen:
                        return
                    seen.add(key)
                    if ok:
                        check.holds(rule, site_of(pc, e.node), 'position %d carries %s' % (i, what), key=key)
                    else:
                        check.violation(rule, site_of(pc, e.node), 'position %d of Call carries %s, expected %s' % (i, show(got)[:80] if got else got, what),
                                        key=key, witness='a wrapper calling inner(1, *args, k=2, **kwargs) is translated with crossed fields')
                chk(0, a[0][0] == 'C' and a[0][1] == rn.key and ('A', nodep, 'func') in a[0][2], 'the resolved callee expression', a[0])
                init1 = it.obj_init.get(a[1])
                chk(1, init1 is not None and init1[0] == 'G' and init1[3] and init1[3][0][0] == ('A', nodep, 'args'), 'the resolved non-starred positional arguments', init1)
                init2 = it.obj_init.get(a[2])
                chk(2, init2 is not None and any(s == ('A', nodep, 'keywords') for s in subterms(init2)), 'the resolved named arguments', init2)

                def is_star(t, getter):
                    return any(s[0] == 'C' and s[1] == rn.key and any(x[0] == 'C' and str(x[1]).split('#')[0].endswith(getter) for x in s[2])
                               for s in subterms(t))
                chk(3, is_star(a[3], 'get_starargs') or a[3] == NONE, 'the resolved *-argument', a[3])
                chk(4, is_star(a[4], 'get_kwargs') or a[4] == NONE, 'the resolved **-argument', a[4])

                def is_flag(t, which, idx, selfattr):
                    if not (t[0] == 'S' and t[2] == K(idx) and t[1][0] == 'C' and t[1][1] == hh.key):
                        return False
                    args = t[1][2]
                    return len(args) == 3 and args[1] == a[which] and args[2] == ('A', selft, selfattr)
                va, vk = _main_star_attrs(repo)
                chk(5, is_flag(a[5], 3, 0, va), 'use_varargs = has_hide_starargs(<*-argument>, <own *args>)[0]', a[5])
                chk(6, is_flag(a[6], 4, 0, vk), 'use_varkwargs = has_hide_starargs(<**-argument>, <own **kwargs>)[0]', a[6])
                chk(7, is_flag(a[7], 3, 1, va), 'hide_args = has_hide_starargs(<*-argument>, <own *args>)[1]', a[7])
                chk(8, is_flag(a[8], 4, 1, vk), 'hide_kwargs = has_hide_starargs(<**-argument>, <own **kwargs>)[1]', a[8])
    check.floor(rule, 'Call constructions in process_Call', n, 1)


def _main_star_attrs(repo):
    """attributes of the visitor holding the examined function's own *args / **kwargs markers:
    assigned under `if main:` in process_parameters"""
    fi = repo.func(VIS + '.process_parameters')
    va = vk = None
    # the locals holding the markers: bound under `if <args>.vararg:` / `if <args>.kwarg:` (whatever they are called)
    loc = {}
    for n in ast.walk(fi.node):
        if isinstance(n, ast.If) and isinstance(n.test, ast.Attribute) and n.test.attr in ('vararg', 'kwarg'):
            for s in n.body:
                if isinstance(s, ast.Assign):
                    for t in s.targets:
                        if isinstance(t, ast.Name) and isinstance(s.value, ast.Call):
                            loc[t.id] = n.test.attr
    selfn = fi.params()[0][0]
    for s in ast.walk(fi.node):
        if isinstance(s, ast.Assign) and len(s.targets) == 1 and isinstance(s.targets[0], ast.Attribute) and \
                isinstance(s.targets[0].value, ast.Name) and s.targets[0].value.id == selfn and isinstance(s.value, ast.Name):
            if loc.get(s.value.id) == 'vararg':
                va = s.targets[0].attr
            elif loc.get(s.value.id) == 'kwarg':
                vk = s.targets[0].attr
    if va is None or vk is None:
        raise Inconclusive('own star markers of the visitor not identified')
    return va, vk


def rule_translation(check, rules):
    """C06.R2 (translation), C06.R3 (skip and fallback); rules keys: translate, fallback"""
    repo = check.repo
    fi = repo.func(AF + ':forward_signatures')
    check.analysed(fi)
    it = Interp(repo, Policy(try_forks=True))
    paths = it.run(fi)
    check.absorb(it)
    pos = fi.params()[0]
    sigp = ('P', pos[4]) if len(pos) > 4 else None
    loops = []
    for p in paths:
        for e in p.effects:
            if e.kind == 'loop' and e.target == ('P', pos[1]) and e.ctx not in [l.ctx for l in loops]:
                loops.append(e)
    if not loops:
        raise Inconclusive('forward_signatures: loop over the calls not found')
    loop = loops[0]
    el = ('E', loop.target, loop.ctx)
    F = lambda i: ('S', el, K(i))
    fw = repo.func('_signatures:forwards')
    seen = set()
    n = 0
    yields = 0
    for sp in loop.sub:
        lits = dict(sp.lits)
        uv, uk = lits.get(('truthy', F(5))), lits.get(('truthy', F(6)))
        gtext = ' & '.join(show_lit(l) for l in sp.lits)[:300]
        raised = [a for a, pol in sp.lits if a[0] == 'raises' and pol]
        # ---- skip rule
        if sp.status == 'continue' and not [e for e in sp.effects if e.kind == 'yield']:
            key = 'forward_signatures|skip|%s' % gtext[:80]
            if key in seen:
                continue
            seen.add(key)
            n += 1
            if raised:
                hts = ','.join(str(a[2]) for a in raised)
                check.violation(rules['fallback'], site_of(fi, loop.node), 'a failure (%s) while translating one forwarding call is swallowed and the call '
                                'skipped: the result is built from the remaining calls only, although this call forwards *args/**kwargs too' % hts, key=key,
                                guards=gtext, witness='two forwarding calls, one to a callee that cannot be resolved / is incompatible: the plain '
                                                      'signature must be returned')
            elif uv is False and uk is False:
                check.holds(rules['fallback'], site_of(fi, loop.node), 'a call is skipped only when it forwards neither *args nor **kwargs', key=key, guards=gtext)
            else:
                check.violation(rules['fallback'], site_of(fi, loop.node), 'a call that forwards a star parameter is skipped (use_varargs=%s, use_varkwargs=%s)'
                                % (uv, uk), key=key, guards=gtext, witness='def f(*args, **kwargs): return inner(*args)')
            continue
        # ---- failures must become UnknownForwards
        if sp.status == 'raise':
            en = it._exc_name(sp.value)
            key = 'forward_signatures|raise|%s|%s' % (str(en).split(':')[-1], ','.join(sorted(str(a[2]) for a in raised)))
            if key in seen:
                continue
            seen.add(key)
            n += 1
            if str(en).endswith('UnknownForwards'):
                check.holds(rules['fallback'], site_of(fi, loop.node), 'failure %s -> UnknownForwards' % (','.join(str(a[2]) for a in raised) or '(explicit)'),
                            key=key, guards=gtext)
            else:
                check.violation(rules['fallback'], site_of(fi, loop.node), 'a failure while translating a forwarding call surfaces as %s instead of '
                                'UnknownForwards' % en, key=key, guards=gtext)
            continue
        # ---- the translating path
        ys = [e for e in sp.effects if e.kind == 'yield']
        if not ys:
            continue
        yields += 1
        calls = [e for e in sp.effects if e.kind == 'call' and e.op == fw.key]
        if not calls:
            check.violation(rules['translate'], site_of(fi, ys[0].node), 'a signature is yielded that does not come from forwards()', key='forward_signatures|forwards')
            continue
        c = calls[-1]
        part = None
        pterm = None
        for a, pol in sp.lits:
            if a[0] in ('eq', 'is') and any(show(x) == 'functools.partial' for x in a[1:]):
                part = pol
                pterm = ('COND', ('lit', a, True))
        key0 = 'forward_signatures|translate|partial=%s' % part
        b = _bind(fw, [x for x in c.args if x[0] != 'STAR'][:3], c.kws)
        stars = [x for x in c.args if x[0] == 'STAR']
        problems = []
        if b is None:
            if key0 not in seen:
                seen.add(key0)
                check.inconclusive(rules['translate'], site_of(fi, c.node), 'cannot bind the arguments of forwards()', key=key0)
            continue
        if b.get('outer') != sigp:
            problems.append('outer signature is %s, expected the examined function\'s signature' % show(b.get('outer'))[:60])
        inner = b.get('inner')
        fs_calls = [e for e in sp.effects if e.kind == 'call' and str(e.op).endswith(':forged_signature')]
        if inner is not None and inner[0] == 'S' and not fs_calls:
            problems.append('the callee signature is read from a memo (%s) instead of being retrieved with the known arguments of *this* call: '
                            'two calls through the same higher-order callee with different targets get the first target\'s parameters'
                            % show(inner)[:50])
        elif not fs_calls or inner != fs_calls[-1].result:
            problems.append('inner signature is %s, expected forged_signature(<callee>, args=..., kwargs=...)' % show(inner)[:60])
        else:
            fk = dict(fs_calls[-1].kws)
            # resolved values of the forwarded arguments are the known arguments of the recursive retrieval
            if 'args' not in fk or 'kwargs' not in fk:
                problems.append('the recursive retrieval does not receive the resolved forwarded arguments (args=/kwargs=)')
        na = b.get('num_args')
        want_len = ('C', 'len', (F(1),), ())
        if part is True:
            ok_n = na is not None and na[0] == 'B' and na[1] == 'Sub' and na[2] == want_len
        elif part is False:
            ok_n = na == want_len or (na is not None and na[0] == 'B' and na[1] == 'Sub' and na[2] == want_len)
        else:
            ok_n = na is not None and mentions(na, want_len)
        if not ok_n:
            problems.append('num_args is %s, expected len(<forwarded positionals>) - using_partial' % (show(na)[:60] if na else None))
        if not stars or stars[0][1] != F(2):
            problems.append('named arguments are %s, expected the keyword names of the call star-expanded' % (show(stars[0])[:60] if stars else None))
        for name, idx in (('hide_args', 7), ('hide_kwargs', 8), ('use_varargs', 5), ('use_varkwargs', 6)):
            got = b.get(name)
            if got != F(idx):
                # a flag decided by the path's guard is folded to a constant
                lv = lits.get(('truthy', F(idx)))
                if got is not None and got[0] == 'K' and lv is not None and bool(got[1]) == lv:
                    continue
                problems.append('%s is %s, expected field %d of the call record' % (name, show(got)[:40] if got else 'defaulted', idx))
        pv = b.get('partial')
        if part is None:
            if pv is None:
                problems.append('forwards() is not told whether the callee is functools.partial (partial= missing)')
        else:
            folded = pv is not None and pv[0] == 'K' and bool(pv[1]) == part
            if not (folded or (pv is not None and pv[0] == 'COND')):
                problems.append('partial= is %s' % (show(pv)[:40] if pv else 'defaulted'))
        # under using_partial the callee is the first forwarded positional, removed before the recursive retrieval
        if part is True:
            pops = [e for e in sp.effects if e.kind == 'mut' and e.op == 'pop' and e.args == (K(0),)]
            if not pops:
                problems.append('with functools.partial as callee, the real callee (first forwarded positional) is not taken from the resolved arguments')
            elif fs_calls and fs_calls[-1].args and fs_calls[-1].args[0] != pops[0].result:
                problems.append('with functools.partial as callee, the recursive retrieval inspects %s instead of the first forwarded positional'
                                % show(fs_calls[-1].args[0])[:60])
        kd = key0 + '|' + '|'.join(m[:30] for m in problems)
        if kd in seen:
            continue
        seen.add(kd)
        n += 1
        if problems:
            for m in problems[:3]:
                check.violation(rules['translate'], site_of(fi, c.node), m, key=key0 + '|' + m[:40], guards=gtext, effect=repr(c)[:300],
                                witness='sigtools.signature(wrapper) must equal forwards(wrapper, callee, n, *names, flags...)')
        else:
            check.holds(rules['translate'], site_of(fi, c.node), 'the call record is translated field by field into forwards() (partial=%s)' % part, key=key0,
                        guards=gtext, effect=repr(c)[:300])
    # the known-arguments mapping is what the caller bound, nothing more: BoundArguments.apply_defaults() would add the
    # defaults of every parameter the caller did not bind, and a callee passed through such a parameter at call time
    # would be resolved to the default callee
    key = 'forward_signatures|known-arguments'
    bad = None
    binds = 0
    for p in paths:
        for e, g_ in walk_effects(p.effects):
            if e.kind == 'call' and e.op == '.bind_partial':
                binds += 1
            if e.kind == 'call' and e.op == '.apply_defaults':
                bad = e
    if bad is not None:
        check.violation(rules['translate'], site_of(fi, bad.node), 'the known arguments are completed with the defaults of the unbound parameters '
                        '(apply_defaults): a callee parameter the caller leaves open is resolved to its default value, and the default callee\'s '
                        'parameters are advertised although any other callable may be passed', key=key,
                        witness='partial(w, 1) with def w(a, *args, wrapped=_default, **kwargs): wrapped(*args, **kwargs)')
    elif binds:
        check.holds(rules['translate'], site_of(fi, fi.node), 'names are resolved in exactly the arguments the caller bound (bind_partial, no defaults)',
                    key=key)
    else:
        check.inconclusive(rules['translate'], site_of(fi, fi.node), 'binding of the known arguments (sig.bind_partial) not found', key=key)
    check.floor(rules['translate'], 'translating paths of forward_signatures', yields, 1)
    check.floor(rules['fallback'], 'skip/failure paths of forward_signatures', n, 4)
    # empty result -> UnknownForwards ; merge over all calls
    aa = repo.func(AF + ':autoforwards_ast')
    check.analysed(aa)
    it2 = Interp(repo, Policy(try_forks=True))
    ps = it2.run(aa)
    check.absorb(it2)
    for p in ps:
        lits = dict(p.lits)
        nonempty = None
        for a, pol in p.lits:
            if a[0] == 'truthy' and a[1][0] == 'L':
                nonempty = pol
        key = 'autoforwards_ast|nonempty=%s|%s' % (nonempty, p.status)
        if key in seen:
            continue
        seen.add(key)
        st = site_of(aa, aa.node)
        if nonempty is False:
            if p.status == 'raise' and str(it2._exc_name(p.value)).endswith('UnknownForwards'):
                check.holds(rules['fallback'], st, 'no usable forwarding call -> UnknownForwards (plain signature)', key=key)
            else:
                check.violation(rules['fallback'], st, 'no usable forwarding call, yet autoforwards_ast %s' % p.status, key=key,
                                witness='a function that forwards nothing must get its plain signature')
        elif nonempty is True and p.status == 'return':
            v = p.value
            if v[0] == 'C' and str(v[1]).endswith(':merge') and v[2] and v[2][0][0] == 'STAR':
                check.holds(rules['translate'], st, 'the signatures of all forwarding calls are merged', key=key)
            else:
                check.violation(rules['translate'], st, 'the result is %s, expected merge(*<all forwarding calls>)' % show(v)[:80], key=key,
                                witness='two forwarding calls on different branches must both count')


def rule_hint_protocol(check, rule):
    """C06.R4: the hint triple and both of its consumers; C06.R5 method route"""
    repo = check.repo
    prod = repo.func('modifiers:_PokTranslator._sigtools__autoforwards_hint')
    check.analysed(prod)
    it = Interp(repo, Policy())
    paths = it.run(prod)
    check.absorb(it)
    selft = ('P', prod.params()[0][0])
    for p in paths:
        if p.status != 'return':
            continue
        v = p.value
        lits = dict(p.lits)
        key = 'hint|producer|%s' % ('none' if v == NONE else 'triple')
        st = site_of(prod, prod.node)
        if v == NONE:
            noast = any(a[0] == 'isnone' and pol and a[1][0] == 'C' and str(a[1][1]).endswith(':get_ast') for a, pol in p.lits)
            if noast:
                check.holds(rule, st, 'no source -> None', key=key)
            else:
                check.violation(rule, st, 'the hint is None although source is available', key=key)
        elif v[0] == 'T' and len(v[1]) == 3:
            f, a, s = v[1]
            ok = f == ('A', selft, 'func') and a[0] == 'C' and str(a[1]).endswith(':get_ast') and a[2] == (('A', selft, 'func'),) \
                and s == ('A', selft, '__signature__')
            if ok:
                check.holds(rule, st, 'hint = (wrapped function, its AST, the rewritten __signature__)', key=key)
            else:
                check.violation(rule, st, 'hint triple is %s, expected (self.func, get_ast(self.func), self.__signature__)' % show(v)[:120], key=key,
                                witness='a kwoargs-decorated forwarding function must be analysed with its rewritten signature')
        else:
            check.violation(rule, st, 'the hint is %s, not a triple' % show(v)[:80], key=key)
    aa = repo.func(AF + ':autoforwards_ast')
    apos = aa.params()[0]
    # consumers
    for key_f in (AF + ':autoforwards_hint', '_specifiers:forged_signature'):
        fi = repo.func(key_f)
        check.analysed(fi)
        it2 = Interp(repo, Policy(try_forks=False))
        ps = it2.run(fi)
        check.absorb(it2)
        done = False
        pnames = fi.params()[0]
        for p in ps:
            for e, g in walk_effects(p.effects):
                if e.kind == 'call' and e.op == aa.key and not done:
                    done = True
                    key = 'hint|consumer|%s' % fi.key
                    h = None
                    for x in p.effects:
                        if x.kind == 'call' and '_sigtools__autoforwards_hint' in str(x.op):
                            h = x.result
                    args = list(e.args)
                    kws = dict(e.kws)
                    first3 = None
                    if args and args[0][0] == 'STAR' and args[0][1] == h:
                        first3 = 'star'
                        rest = args[1:]
                    elif len(args) >= 3 and [a_ for a_ in args[:3]] == [('S', h, K(0)), ('S', h, K(1)), ('S', h, K(2))]:
                        first3 = 'indexed'
                        rest = args[3:]
                    else:
                        rest = []
                    a_arg = kws.get(apos[3]) if len(apos) > 3 else None
                    k_arg = kws.get(apos[4]) if len(apos) > 4 else None
                    if rest:
                        a_arg = a_arg or rest[0]
                        if len(rest) > 1:
                            k_arg = k_arg or rest[1]
                    want_a = ('P', 'args') if 'args' in pnames else None
                    want_k = ('P', 'kwargs') if 'kwargs' in pnames else None
                    if first3 is None:
                        check.violation(rule, site_of(fi, e.node), 'the hint triple is not passed on in order (function, AST, signature): %s' % repr(e)[:160],
                                        key=key, witness='modifiers-wrapped forwarding functions')
                    elif a_arg != want_a or k_arg != want_k:
                        check.violation(rule, site_of(fi, e.node), 'the known arguments are not passed on to the analysis of the hinted function '
                                        '(args=%s, kwargs=%s): a callee passed in as an argument can no longer be resolved'
                                        % (show(a_arg) if a_arg else 'defaulted', show(k_arg) if k_arg else 'defaulted'), key=key,
                                        witness='partial(kwoargs("b")(wrapper), callee): the callee is a bound positional')
                    else:
                        check.holds(rule, site_of(fi, e.node), 'hint triple and the known arguments are passed to autoforwards_ast', key=key)
        if not done:
            check.violation(rule, site_of(fi, fi.node), '%s no longer analyses the hinted function' % fi.name, key='hint|consumer|%s' % fi.key)
    # method route
    fi = repo.func(AF + ':autoforwards_method')
    check.analysed(fi)
    it3 = Interp(repo, Policy())
    ps = it3.run(fi)
    check.absorb(it3)
    m = ('P', fi.params()[0][0])
    for p in ps:
        if p.status != 'return':
            continue
        v = p.value
        key = 'autoforwards_method|route'
        ok = False
        if v[0] == 'C' and str(v[1]).endswith(':mask') and len(v[2]) >= 2 and v[2][1] == K(1):
            inner = v[2][0]
            if inner[0] == 'C' and str(inner[1]).endswith(':autoforwards') and inner[2] and inner[2][0] == ('A', m, '__func__'):
                known = inner[2][1] if len(inner[2]) > 1 else None
                if known is not None and mentions(known, ('A', m, '__self__')) and known[0] in ('B', 'T') and \
                        (known[0] == 'T' and known[1] and known[1][0] == ('A', m, '__self__') or known[0] == 'B' and known[2][0] == 'T'
                         and known[2][1] == (('A', m, '__self__'),)):
                    ok = True
        if ok:
            check.holds(rule, site_of(fi, fi.node), 'bound methods: __self__ is the first known positional and one positional is masked', key=key)
        else:
            check.violation(rule, site_of(fi, fi.node), 'bound-method route is %s' % show(v)[:160], key=key,
                            witness='sigtools.signature(obj.method) must drop self and resolve self.other')


def rule_get_ast_duck_typed(check, rule):
    """C06.R4b: what reaches get_ast() is whatever carries the code object: a function, but also the *bound method* a
    translated method's hint hands over (`self.func` of a bound translator).  get_ast must decide by the presence of
    `__code__`, not by a type test (`inspect.isfunction`, `isinstance(func, FunctionType)`): such a test turns discovery off
    for modifiers-wrapped methods looked up on an instance or class."""
    repo = check.repo
    fi = repo.func('_util:get_ast', required=False)
    if fi is None:
        raise Inconclusive('_util.get_ast vanished')
    check.analysed(fi)
    pname = fi.params()[0][0]
    key = '_util:get_ast|duck-typed'
    bad = None
    for n in ast.walk(fi.node):
        if isinstance(n, ast.Call):
            f = norm(n.func)
            if (f.split('.')[-1] in ('isfunction', 'ismethod', 'isroutine') or (f == 'isinstance' and len(n.args) == 2 and 'Function' in norm(n.args[1]))) \
                    and n.args and isinstance(n.args[0], ast.Name) and n.args[0].id == pname:
                bad = n
    reads_code = any(isinstance(n, ast.Attribute) and n.attr == '__code__' for n in ast.walk(fi.node))
    if bad is not None:
        check.violation(rule, site_of(fi, bad), 'get_ast decides by %s whether its argument has source: the bound method handed over by the hint of a '
                        'translated method is not a function, so discovery is switched off for kwoargs/posoargs-wrapped methods looked up on an '
                        'instance or class' % norm(bad)[:50], key=key,
                        witness="class K:\n    @kwoargs('k')\n    def m(self, *args, k=1, **kwargs): return target(*args, **kwargs)\nsigtools.signature(K().m)")
    elif reads_code:
        check.holds(rule, site_of(fi, fi.node), 'get_ast accepts anything that exposes __code__', key=key)
    else:
        check.inconclusive(rule, site_of(fi, fi.node), 'get_ast no longer reads __code__', key=key)


def rule_subject_search(check, rule):
    """C06.R4c: which object forged_signature examines.  (a) The first search asks get_introspectable to stop at an autoforwards hint only
    when discovery is on (`af_hint=auto`): with auto=False the hint is not consulted, so stopping at it would hide what lies under
    the object's __call__.  (b) When the hint was consulted and gave nothing, discovery goes on with the object found *without*
    regard to hints (`get_introspectable(subject, af_hint=False)`): handing the hinted object itself to autoforwards() asks the same
    hint again and falls back, although the function underneath may forward."""
    repo = check.repo
    fi = repo.func('_specifiers:forged_signature')
    check.analysed(fi)
    gi = repo.func('_util:get_introspectable', required=False)
    if gi is None:
        raise Inconclusive('_util.get_introspectable vanished')
    it = Interp(repo, Policy(try_forks=True))
    paths = it.run(fi)
    check.absorb(it)
    pos = fi.params()[0] + fi.params()[2]
    objp = ('P', fi.params()[0][0])
    autop = ('P', 'auto') if 'auto' in pos else None
    n = 0
    seen = set()
    for p in paths:
        searches = [e for e in p.effects if e.kind == 'call' and e.op == gi.key]
        if not searches:
            continue
        first = searches[0]
        b = _bind_call(gi, first)
        key = 'forged_signature|first-search'
        if key not in seen:
            seen.add(key)
            n += 1
            st = site_of(fi, first.node)
            if b is None or b.get(gi.params()[0][0]) != objp:
                check.violation(rule, st, 'the first search does not start from the object given', key=key)
            elif autop is not None and b.get('af_hint', K(True)) != autop:
                check.violation(rule, st, 'the first search stops at an autoforwards hint %s, not exactly when discovery is on (af_hint=auto): with '
                                'auto=False a hinted object hides the callable under its __call__'
                                % ('always' if b.get('af_hint', K(True)) == K(True) else 'under ' + show(b.get('af_hint'))[:30]), key=key,
                                witness='signature(obj, auto=False) for a callable object that carries a hint but whose __call__ has a forger')
            else:
                check.holds(rule, st, 'the first search starts from the object and stops at a hint only when discovery is on', key=key)
        # (b) paths on which the hint was consulted, gave nothing, and discovery goes on
        hint_calls = [e for e in p.effects if e.kind == 'call' and str(e.op).endswith('_sigtools__autoforwards_hint')]
        af = [e for e in p.effects if e.kind == 'call' and str(e.op).endswith(':autoforwards')]
        if hint_calls and af:
            key = 'forged_signature|after-hint'
            subj = af[-1].args[0] if af[-1].args else None
            st = site_of(fi, af[-1].node)
            ok = subj is not None and subj[0] == 'C' and subj[1] == gi.key
            b2 = None
            if ok:
                class _E(object):
                    pass
                e2 = _E()
                e2.args, e2.kws = subj[2], subj[3]
                b2 = _bind_call(gi, e2)
                ok = b2 is not None and b2.get('af_hint') == K(False)
            k2 = key + ('|ok' if ok else '|bad')
            if k2 in seen:
                continue
            seen.add(k2)
            n += 1
            if ok:
                check.holds(rule, st, 'after a hint that gave nothing, discovery examines the object found without regard to hints', key=key)
            else:
                check.violation(rule, st, 'after a hint that gave nothing, autoforwards() is handed %s: the same hint is asked again and discovery falls '
                                'back, whatever the function underneath forwards' % show(subj)[:70], key=key,
                                witness='a modifiers-wrapped method whose hint returns None (source unavailable for the wrapper) over a forwarding function')
    check.floor(rule, 'subject searches of forged_signature', n, 2)


def _bind_call(fi, e):
    pos, vararg, kwonly, kwarg = fi.params()
    out = {}
    for i, a in enumerate(e.args):
        if i < len(pos):
            out[pos[i]] = a
    for k_, v_ in e.kws:
        out[k_] = v_
    return out
