"""Bucket-protocol agreement and classification round trip (C09.R2), provenance
helper contracts (C08.R4-R6), kind changes are restrictions (C10.R3)."""
import ast

from .index import Inconclusive, norm
from .interp import Interp, Policy, show, show_lit, walk_effects, K, NONE, subterms, mentions
from .algebra import Protocol, KINDS, kind_of_attr_term, SIG
from .rules_merge import site, lits_text


def rule_round_trip(check, proto, rule):
    repo = check.repo
    sp = repo.func(SIG + ':sort_params')
    check.analysed(sp)
    check.absorb(proto.sort_interp)
    st = site(None, sp.node)
    # (a) dispatch
    n = 0
    for i, want in enumerate(KINDS):
        got = proto.kind_at(i)
        key = '_signatures:sort_params|position%d' % i
        n += 1
        if got == want:
            check.holds(rule, st, 'position %d of the classification holds exactly the %s parameters' % (i, want), key=key)
        elif got is None:
            ks = set()
            for row in proto.pos_kinds:
                if i < len(row) and row[i]:
                    ks |= row[i]
            if ks:
                check.violation(rule, st, 'position %d of the classification receives kinds %s' % (i, sorted(ks)), key=key,
                                witness="apply_params(s, *sort_params(s)) must equal s")
            else:
                check.violation(rule, st, 'no parameter kind is stored at position %d (%s parameters are lost)' % (i, want), key=key,
                                witness="apply_params(s, *sort_params(s)) must equal s")
        else:
            check.violation(rule, st, 'position %d of the classification holds %s parameters, but apply_params concatenates the '
                                      'positions in order, which must be the order %s' % (i, got, ' < '.join(KINDS)), key=key,
                            witness="apply_params(s, *sort_params(s)) must equal s")
    # every arm stores the parameter itself under exactly one kind test
    for spath, kt, kf, elem in proto.sort_loop_paths:
        key = '_signatures:sort_params|arm|%s' % ','.join(kt)
        if len(kt) == 1:
            puts = [e for e in spath.effects if e.kind == 'mut' and e.op in ('append', 'setitem', 'add', 'insert', 'extend')]
            carried = [v for v in spath.env_out.values() if v == elem]
            if len(puts) + len(carried) != 1:
                check.violation(rule, st, 'a %s parameter is stored %d times by the classification' % (kt[0], len(puts) + len(carried)), key=key)
            elif puts and puts[0].args[-1] != elem:
                check.violation(rule, st, 'the %s arm stores %s instead of the parameter' % (kt[0], show(puts[0].args[-1])[:60]), key=key)
            elif puts and puts[0].op == 'setitem' and puts[0].args[0] != ('A', elem, 'name'):
                check.violation(rule, st, 'keyword-only parameters are keyed by %s instead of their name' % show(puts[0].args[0])[:60], key=key)
            else:
                check.holds(rule, st, 'the %s arm stores the parameter once' % kt[0], key=key, guards=lits_text(spath.lits))
        elif len(kt) > 1:
            check.violation(rule, st, 'one arm of the classification is taken for several kinds: %s' % kt, key=key)
    arm = proto.sort_unknown_arm
    key = '_signatures:sort_params|unknown-arm'
    if arm is None:
        check.violation(rule, st, 'a parameter of an unknown kind is silently dropped (no raising arm)', key=key)
    elif arm.status != 'raise':
        check.violation(rule, st, 'the unknown-kind arm does not raise', key=key)
    else:
        check.holds(rule, st, 'the unknown-kind arm raises', key=key)
    # the two return shapes agree on the first five positions
    shapes = [items for p, items in proto.sort_returns]
    key = '_signatures:sort_params|shapes'
    if len(shapes) >= 2:
        a, b = shapes[0], shapes[1]
        if [x for x in a[:5]] != [x for x in b[:5]]:
            check.violation(rule, st, 'the plain and the with-sources return shapes disagree on the bucket order', key=key)
        elif sorted(set(len(x) for x in shapes)) != [5, 6]:
            check.violation(rule, st, 'return shapes have lengths %s, expected 5 and 6' % sorted(set(len(x) for x in shapes)), key=key)
        else:
            check.holds(rule, st, 'both return shapes list the five buckets in the same order', key=key)
    if len(proto.fields) != 6:
        check.violation(rule, st, 'SortedParameters declares %d fields, the protocol has 6 positions' % len(proto.fields),
                        key='_signatures:SortedParameters|fields')
    # loop covers all parameters of the (upgraded) signature
    # (b) apply_params
    ap = repo.func(SIG + ':apply_params')
    check.analysed(ap)
    it = Interp(repo, Policy())
    paths = it.run(ap)
    check.absorb(it)
    pos = ap.params()[0]
    if len(pos) < 7:
        raise Inconclusive('apply_params takes fewer than 7 positional parameters')
    bucket_params = [('P', x) for x in pos[1:6]]
    n2 = 0
    seen = set()
    for p in paths:
        if p.status != 'return':
            continue
        lits = dict(p.lits)
        # the list handed to replace(parameters=...)
        lst = None
        for e in p.effects:
            if e.kind == 'call' and e.op == '.replace':
                for name, v in e.kws:
                    if name == 'parameters':
                        lst = v
        key = '_signatures:apply_params|%s' % lits_text([l for l in p.lits if l[0][0] == 'truthy'])
        if key in seen:
            continue
        seen.add(key)
        n2 += 1
        stp = site(None, ap.node)
        if lst is None:
            # built with the class constructor instead of sig.replace(): everything replace() would have kept
            # (return annotation and its upgraded twin) has to be handed over explicitly
            sigp = ('P', pos[0])
            ctor = [e for e in p.effects if e.kind == 'call' and e.extra == 'new' and str(e.op).endswith(':UpgradedSignature')]
            if not ctor:
                check.inconclusive(rule, stp, 'apply_params: no `sig.replace(parameters=...)` on this path', key=key)
                continue
            c = ctor[-1]
            kws = dict(c.kws)
            lst = c.args[0] if c.args else kws.get('parameters')
            lost = []
            for attr in ('return_annotation', 'upgraded_return_annotation'):
                v = kws.get(attr)
                if v is None or not any(isinstance(x, tuple) and x[0] == 'A' and x[2] == attr for x in subterms(v)):
                    lost.append(attr)
            if lost:
                check.violation(rule, site(None, c.node), 'apply_params rebuilds the signature with the constructor and does not hand over %s of the '
                                'signature it is based on: the result of the round trip differs from its input' % ' and '.join(lost),
                                key=key + '|ctor', guards=lits_text(p.lits),
                                witness="apply_params(s, *sort_params(s)) == s for a signature with a return annotation")
            if lst is None:
                continue
        seq = []
        for e in p.effects:
            if e.kind == 'mut' and e.target == lst:
                a = e.args[0] if e.args else None
                if a is not None and a[0] == 'M' and a[2] == 'values':
                    a = a[1]
                seq.append((e.op, a))
        exp = []
        for i, bp in enumerate(bucket_params):
            if i in (2, 4):
                t = lits.get(('truthy', bp))
                if t is None:
                    nn = lits.get(('isnone', bp))
                    t = (not nn) if nn is not None else None
                if t is True:
                    exp.append(('append', bp))
                elif t is None:
                    exp.append(('append?', bp))
            else:
                exp.append(('extend', bp))
        ok = len(seq) == len(exp) and all(s == e or (e[0] == 'append?' and s == ('append', e[1])) for s, e in zip(seq, exp))
        if any(e[0] == 'append?' for e in exp):
            check.violation(rule, stp, 'a star parameter is appended without testing that it is present', key=key, guards=lits_text(p.lits))
        elif ok:
            check.holds(rule, stp, 'the five buckets are concatenated in protocol order', key=key, guards=lits_text(p.lits),
                        effect=', '.join('%s(%s)' % (o, show(a)) for o, a in seq))
        else:
            check.violation(rule, stp, 'apply_params builds the parameter list as [%s], expected [%s]'
                            % (', '.join('%s(%s)' % (o, show(a)) for o, a in seq), ', '.join('%s(%s)' % (o, show(a)) for o, a in exp)),
                            key=key, guards=lits_text(p.lits), witness="apply_params(s, *sort_params(s)) must equal s")
    check.floor(rule, 'apply_params paths', n2, 2)
    # (c) consumers/producers of the six-position tuple
    for key_f, what in ((SIG + ':_embed', 'embed'), (SIG + ':_mask', 'mask')):
        fi = repo.func(key_f)
        for node in ast.walk(fi.node):
            if isinstance(node, ast.Assign) and isinstance(node.targets[0], ast.Tuple):
                v = node.value
                src = norm(v)
                if src in ('outer',) or 'sort_params(' in src or src.startswith('_Merger('):
                    k = '%s|destructure|%s' % (key_f, src[:30])
                    if len(node.targets[0].elts) == 6:
                        check.holds(rule, site(None, node), 'six-position destructuring', key=k)
                    else:
                        check.violation(rule, site(None, node), 'the bucket tuple is destructured into %d names' % len(node.targets[0].elts), key=k)


def rule_kind_restrictions(check, rule, merge_model=None, embed_model=None, mask_model=None):
    """C10.R3: every `.replace(kind=K)` has source kind POK (or K itself) and K in {PO, KWO}"""
    n = 0
    seen = set()

    def judge(node, src_kind, tgt, where, descr):
        key = '%s|kindchange|%s' % (where, norm(node) if node is not None else descr)
        if key in seen:
            return
        seen.add(key)
        st = site(None, node)
        if tgt is None or src_kind is None:
            check.inconclusive(rule, st, 'kind change not understood: %s (source kind %s, target %s)' % (descr[:80], src_kind, tgt), key=key)
        elif src_kind == tgt:
            check.holds(rule, st, 'kind unchanged (%s)' % tgt, key=key)
        elif src_kind == 'POK' and tgt in ('PO', 'KWO'):
            check.holds(rule, st, 'positional-or-keyword restricted to %s' % tgt, key=key, effect=descr[:120])
        else:
            check.violation(rule, st, 'a parameter of kind %s is turned into %s: not a restriction' % (src_kind, tgt), key=key,
                            effect=descr[:160], witness="a keyword-only parameter must never become positional")

    if merge_model is not None:
        m = merge_model
        for p in m.paths:
            for e, g in walk_effects(p.effects):
                for t in list(e.args) + [v for _, v in e.kws]:
                    for s in subterms(t):
                        if s[0] == 'M' and s[2] == 'replace' and 'kind' in dict(s[4]):
                            n += 1
                            tgt = kind_of_attr_term(dict(s[4])['kind'])
                            v = m.val(s[1])
                            judge(e.node, None if v.unknown else v.kind, tgt, '_signatures:_Merger', show(s))
    if embed_model is not None:
        m = embed_model
        for p, items in m.ret_paths:
            contents = None
            for e in p.effects:
                for t in list(e.args):
                    for s in subterms(t):
                        if s[0] == 'M' and s[2] == 'replace' and 'kind' in dict(s[4]):
                            n += 1
                            tgt = kind_of_attr_term(dict(s[4])['kind'])
                            base = s[1]
                            sk = None
                            if base[0] == 'E':
                                b = m.sides.bucket(base[1])
                                if b is not None:
                                    sk = m.proto.kind_at(b[1])
                                elif base[1][0] in ('L', 'D'):
                                    # elements of an output bucket built so far: the kind its runs have (when they agree)
                                    if contents is None:
                                        contents = m.bucket_contents(p)
                                    segs = contents.get(base[1]) or []
                                    kinds_ = set(s_.kind for s_ in segs if not s_.unknown)
                                    if segs and len(kinds_) == 1 and not any(s_.unknown for s_ in segs):
                                        sk = list(kinds_)[0]
                                    elif not segs:
                                        continue          # an empty bucket: nothing is converted
                            judge(e.node, sk, tgt, '_signatures:_embed', show(s))
    if mask_model is not None:
        m = mask_model
        proto = m.proto

        def kind_of(t):
            b0 = m.sides.bucket(t)
            if b0 is not None and b0[1] < 5:
                return proto.kind_at(b0[1])
            if t[0] == 'E':
                return kind_of(t[1])
            if t[0] in ('SL',):
                return kind_of(t[1])
            if t[0] == 'S':
                b = m.sides.bucket(t[1])
                if b is not None and b[1] < 5:
                    return proto.kind_at(b[1])
                return kind_of(t[1])
            if t[0] == 'V' and isinstance(t[3], tuple):
                return kind_of(t[3])
            if m.is_empty_fresh(t):
                return 'VACUOUS'
            b = m.sides.bucket(t)
            if b is not None and b[1] < 5:
                return proto.kind_at(b[1])
            return None
        for p in m.paths:
            for e, g in walk_effects(p.effects):
                for t in list(e.args) + [v for _, v in e.kws]:
                    for s in subterms(t):
                        if s[0] == 'M' and s[2] == 'replace' and 'kind' in dict(s[4]):
                            n += 1
                            tgt = kind_of_attr_term(dict(s[4])['kind'])
                            sk = kind_of(s[1])
                            if sk == 'VACUOUS':
                                continue    # elements of a bucket a hide flag emptied
                            judge(e.node, sk, tgt, '_signatures:_mask', show(s))
    check.floor(rule, 'kind-changing replace() sites', len(seen), 6)


def rule_source_helpers(check, rules):
    """contracts of default_sources, copy_sources, merge_depths, _add_sources, _add_all_sources.
    rules: depths (C08.R4), arith (C08.R5), dedup (C08.R6), complete (C08.R1)"""
    repo = check.repo
    # default_sources
    fi = repo.func(SIG + ':default_sources')
    check.analysed(fi)
    it = Interp(repo, Policy())
    paths = it.run(fi)
    check.absorb(it)
    pos = fi.params()[0]
    obj = ('P', pos[1]) if len(pos) > 1 else None
    for p in paths:
        if p.status != 'return':
            continue
        st = site(None, fi.node)
        ret = p.value
        sets = [e for e in p.effects if e.kind == 'mut' and e.target == ret and e.op == 'setitem' and e.args[0] == K('+depths')]
        key = '_signatures:default_sources|depths'
        if not sets:
            check.violation(rules['depths'], st, "default_sources returns a map without '+depths'", key=key,
                            witness="signatures.signature(f).sources['+depths'] == {f: 0}")
        else:
            check.holds(rules['depths'], st, "'+depths' assigned", key=key)
            v = sets[-1].args[1]
            init = it.obj_init.get(v)
            key = '_signatures:default_sources|depth0'
            if init is not None and init[0] == 'T' and init[1] == (('T', (obj, K(0))),):
                check.holds(rules['arith'], st, 'the inspected object gets depth 0', key=key)
            else:
                check.violation(rules['arith'], st, "the inspected object's depth entry is %s, expected {obj: 0}" % show(init if init else v)[:80],
                                key=key, witness="signatures.signature(f).sources['+depths'] == {f: 0}")
        init = it.obj_init.get(ret)
        key = '_signatures:default_sources|entries'
        ok = False
        if init is not None:
            for s in subterms(init):
                if s[0] == 'G' and len(s[3]) == 1:
                    src = s[3][0][0]
                    elt = s[2]
                    x = ('E', src, s[3][0][2])
                    if src[0] in ('A', 'M') and 'parameters' in show(src) and elt[0] == 'T' and len(elt[1]) == 2 and elt[1][0] == x:
                        lst = it.obj_init.get(elt[1][1])
                        if lst is not None and lst[0] == 'T' and lst[1] == (obj,):
                            ok = True
        if ok:
            check.holds(rules['complete'], st, 'one entry [obj] per parameter name', key=key)
        else:
            check.violation(rules['complete'], st, 'default_sources does not build one [obj] entry per parameter: %s' % show(init)[:120],
                            key=key, witness="signatures.signature(f).sources[p] == [f] for every parameter p")
    # copy_sources
    fi = repo.func(SIG + ':copy_sources')
    check.analysed(fi)
    it = Interp(repo, Policy())
    paths = it.run(fi)
    check.absorb(it)
    pos = fi.params()[0]
    if len(pos) < 3:
        raise Inconclusive('copy_sources signature changed')
    src, swap, inc = ('P', pos[0]), ('P', pos[1]), ('P', pos[2])
    for p in paths:
        if p.status != 'return':
            continue
        st = site(None, fi.node)
        ret = p.value
        init = it.obj_init.get(ret)
        lists_swapped = lists_fresh = False
        if init is not None:
            for s in subterms(init):
                if s[0] == 'L' and s in it.obj_init:
                    g = it.obj_init[s]
                    lists_fresh = True
                    if g[0] == 'G' and g[2][0] == 'M' and g[2][1] == swap and g[2][2] == 'get':
                        x = ('E', g[3][0][0], g[3][0][2])
                        if g[2][3] == (x, x):
                            lists_swapped = True
        key = '_signatures:copy_sources|lists'
        if lists_swapped:
            check.holds(rules['arith'], st, 'per-parameter lists are rebuilt with the function swap applied', key=key)
        elif lists_fresh:
            check.violation(rules['arith'], st, 'the function swap is not applied to the per-parameter lists', key=key,
                            witness="kwoargs('b')(f).__signature__.sources must name the wrapper, not f")
        else:
            check.violation(rules['arith'], st, 'per-parameter lists are not rebuilt (shared with the input map)', key=key,
                            witness="copy_sources(m)['a'] is not m['a']")
        sets = [e for e in p.effects if e.kind == 'mut' and e.target == ret and e.op == 'setitem' and e.args[0] == K('+depths')]
        key = '_signatures:copy_sources|depths'
        if not sets:
            check.violation(rules['depths'], st, "copy_sources returns a map without its own '+depths'", key=key)
            continue
        check.holds(rules['depths'], st, "'+depths' assigned", key=key)
        d = sets[-1].args[1]
        dinit = it.obj_init.get(d)
        swapped = plus = False
        if dinit is not None:
            for s in subterms(dinit):
                if s[0] == 'M' and s[1] == swap and s[2] == 'get':
                    swapped = True
                if s[0] == 'B' and s[1] == 'Add' and inc in (s[2], s[3]):
                    plus = True
        key = '_signatures:copy_sources|depthkeys'
        if swapped and plus:
            check.holds(rules['arith'], st, "depth keys are swapped and every depth gets `increase` added", key=key)
        elif not swapped:
            check.violation(rules['arith'], st, "the function swap is not applied to the '+depths' keys", key=key,
                            witness="kwoargs('b')(f).__signature__.sources['+depths'] must name the wrapper")
        else:
            check.violation(rules['arith'], st, "depths are not increased by `increase`", key=key,
                            witness="signature(partial(f)).sources['+depths'][f] must be 1")
    # merge_depths
    fi = repo.func(SIG + ':merge_depths')
    check.analysed(fi)
    it = Interp(repo, Policy())
    paths = it.run(fi)
    check.absorb(it)
    pos = fi.params()[0]
    lft, rgt = ('P', pos[0]), ('P', pos[1])
    for p in paths:
        st = site(None, fi.node)
        ret = p.value
        if p.status != 'return':
            continue
        init = it.obj_init.get(ret)
        key = '_signatures:merge_depths|copy'
        if ret[0] == 'D' and init is not None and init[0] == 'C' and init[2] == (lft,):
            check.holds(rules['arith'], st, 'result starts as a private copy of the first map', key=key)
        else:
            check.violation(rules['arith'], st, 'merge_depths does not start from a private copy of its first map: %s' % show(ret)[:80], key=key,
                            witness="merge(a, b) must not edit a.sources['+depths']")
        for e in p.effects:
            if e.kind != 'loop':
                continue
            for sp in e.sub:
                lits = dict(sp.lits)
                sets = [x for x in sp.effects if x.kind == 'mut' and x.target == ret and x.op == 'setitem']
                isin = None
                larger = None
                for atom, pol in sp.lits:
                    if atom[0] == 'in' and atom[2] == ret:
                        isin = pol
                    if atom[0] == 'cmp':
                        # ret[func] < depth  (normalised from depth > ret[func])
                        if atom[1] == '<' and atom[2][0] == 'S' and atom[2][1] == ret:
                            larger = pol
                        elif atom[1] == '<=' and atom[2][0] == 'S' and atom[2][1] == ret:
                            larger = pol
                        elif atom[1] in ('<', '<=') and atom[3][0] == 'S' and atom[3][1] == ret:
                            larger = (not pol)
                key = '_signatures:merge_depths|%s' % lits_text(sp.lits)
                blind = [x for x in sp.effects if x.kind == 'mut' and x.target == ret and x.op in ('setdefault', 'update', 'ior')]
                if blind:
                    # (round 8) an entry written without looking at the depth that is there: setdefault keeps the left one also when the
                    # right one is smaller, update takes the right one also when it is larger
                    check.violation(rules['arith'], st, 'an entry is written with .%s(), which does not compare the two depths: a callable reached twice '
                                    'does not end up with the smaller one' % blind[0].op, key=key, guards=lits_text(sp.lits),
                                    witness="merge_depths({f: 3}, {f: 1}) == {f: 1} and merge_depths({f: 1}, {f: 3}) == {f: 1}")
                    continue
                if isin is True and larger is True:
                    if sets:
                        check.violation(rules['arith'], st, 'an existing smaller depth is overwritten by a larger one', key=key,
                                        guards=lits_text(sp.lits), witness="a callable reached twice keeps its smallest depth")
                    else:
                        check.holds(rules['arith'], st, 'a larger depth does not replace the smaller one', key=key, guards=lits_text(sp.lits))
                elif sets and (isin is None or (isin is True and larger is None)):
                    check.violation(rules['arith'], st, 'an entry is written without knowing that the depth already recorded for that callable is not '
                                    'smaller (%s): a callable reached twice can end up with the larger depth'
                                    % ('no membership test' if isin is None else 'no depth comparison'), key=key, guards=lits_text(sp.lits),
                                    witness="merge_depths({f: 1}, {f: 3}) == {f: 1}")
                elif not sets and isin is True and larger is None:
                    check.violation(rules['arith'], st, 'an existing entry is never updated, also when the new depth is smaller', key=key,
                                    guards=lits_text(sp.lits), witness="merge_depths({f: 3}, {f: 1}) == {f: 1}")
                else:
                    if not sets and (isin is False or larger is False):
                        check.violation(rules['arith'], st, 'a new or smaller depth is not recorded', key=key, guards=lits_text(sp.lits),
                                        witness="merge_depths({}, {f: 1}) == {f: 1}")
                    elif sets:
                        x = sets[-1]
                        el = ('E', e.target, e.ctx)
                        if x.args[0] == ('S', el, K(0)) and x.args[1] == ('S', el, K(1)):
                            check.holds(rules['arith'], st, 'new or not-larger depth recorded', key=key, guards=lits_text(sp.lits))
                        else:
                            check.inconclusive(rules['arith'], st, 'recorded entry %s' % repr(x)[:80], key=key)
    # _add_sources / _add_all_sources: completeness and de-duplication
    for name in ('_add_sources', '_add_all_sources'):
        fi = repo.func(SIG + ':' + name)
        check.analysed(fi)
        it = Interp(repo, Policy())
        paths = it.run(fi)
        check.absorb(it)
        st = site(None, fi.node)
        key = '_signatures:%s|dedup' % name
        txt = norm(fi.node)
        # structural facts from the AST of the helper
        extends = [n for n in ast.walk(fi.node) if isinstance(n, ast.Call) and isinstance(n.func, ast.Attribute) and n.func.attr in ('extend', 'append')]
        membership = [n for n in ast.walk(fi.node) if isinstance(n, ast.Compare) and any(isinstance(o, (ast.In, ast.NotIn)) for o in n.ops)]
        dedup_call = [n for n in ast.walk(fi.node) if isinstance(n, ast.Call) and norm(n.func).split('.')[-1] in
                      ('_dedup', '_unique', 'dict.fromkeys', 'fromkeys', 'OrderedDict.fromkeys')]
        delegates = [n for n in ast.walk(fi.node) if isinstance(n, ast.Call) and norm(n.func) == '_add_sources'] if name != '_add_sources' else []
        if not extends and delegates:
            check.holds(rules['dedup'], st, '%s delegates to _add_sources' % name, key=key)
        elif not extends:
            check.inconclusive(rules['dedup'], st, '%s: no extend/append found' % name, key=key)
        elif membership or dedup_call:
            check.holds(rules['dedup'], st, '%s adds a callable only if it is not listed yet' % name, key=key)
        else:
            check.violation(rules['dedup'], st, '%s concatenates provenance lists of different inputs without removing duplicates' % name,
                            key=key, witness="merge(s, s).sources['a'] == [f, f]; two forwarding calls to one callee list it twice")
        # completeness: every from_source is consulted under the same name
        key = '_signatures:%s|complete' % name
        a = fi.node.args
        if name == '_add_sources':
            if a.vararg is None:
                check.violation(rules['complete'], st, '_add_sources no longer takes a variable number of provenance maps', key=key)
            else:
                va = a.vararg.arg
                loops = [n for n in ast.walk(fi.node) if isinstance(n, (ast.For, ast.comprehension)) and norm(n.iter) == va]
                sliced = [n for n in ast.walk(fi.node) if isinstance(n, ast.Subscript) and norm(n.value) == va]
                if loops and not sliced:
                    check.holds(rules['complete'], st, 'every provenance map given is consulted', key=key)
                else:
                    check.violation(rules['complete'], st, 'not every provenance map given to _add_sources is consulted', key=key,
                                    witness="merge(s('a'), s('a')).sources['a'] lists both callables")
        else:
            loops = [n for n in ast.walk(fi.node) if isinstance(n, ast.For)]
            if loops and norm(loops[0].iter) == a.args[1].arg:
                check.holds(rules['complete'], st, 'every parameter given is registered', key=key)
            else:
                check.violation(rules['complete'], st, '_add_all_sources does not range over all given parameters', key=key)


def rule_direct_concat(check, rule):
    """C08.R6: provenance lists of two inputs chained directly into one entry"""
    repo = check.repo
    ci = repo.cls(SIG + ':_Merger')
    n = 0
    for fi in ci.methods.values():
        for node in ast.walk(fi.node):
            if isinstance(node, ast.Call) and norm(node.func).split('.')[-1] in ('chain', 'from_iterable'):
                txt = norm(node)
                if txt.count('.sources') >= 2 or txt.count('sources.get') >= 2:
                    n += 1
                    key = '%s|chain' % fi.key
                    # wrapped in a de-duplicating call?
                    p = getattr(node, '_parent', None)
                    dd = False
                    while p is not None and not isinstance(p, ast.stmt):
                        if isinstance(p, ast.Call) and norm(p.func).split('.')[-1] in ('_dedup', '_unique', 'fromkeys'):
                            dd = True
                        p = getattr(p, '_parent', None)
                    if dd:
                        check.holds(rule, site(None, node), 'chained provenance lists pass through a de-duplication', key=key)
                    else:
                        check.violation(rule, site(None, node), 'provenance lists of both inputs are chained into one entry without removing duplicates',
                                        key=key, witness="merge(s, s).sources['k'] == [f, f] for a keyword-only parameter k")
    return n
