"""Argument-flow (E9) and class-protocol (E10) rules for declared forwarding and wrappers (C04, C13)."""
import ast

from .index import Inconclusive, norm
from .interp import Interp, Policy, show, show_lit, walk_effects, K, NONE, subterms, mentions
from .algebra import KIND_ATTR, kind_of_attr_term
from .callgraph import _own_nodes, local_names
from .rules_embed import _bind
from .rules_merge import lits_text

SIG = '_signatures'
WRAPPER_CLASSES = ['wrappers:_SimpleWrapped', 'wrappers:_Wrapped', 'specifiers:_ForgerWrapper']


def site_of(fi, node):
    return '%s %s' % (fi.loc(node), fi.key)


# ---------------------------------------------------------------------------
# C04

def rule_forwards_is_embed_mask(check, rule, rule_partial):
    """C04.R1, C04.R2"""
    repo = check.repo
    fi = repo.func(SIG + ':forwards')
    check.analysed(fi)
    it = Interp(repo, Policy())
    paths = it.run(fi)
    check.absorb(it)
    emb = repo.func(SIG + ':embed')
    msk = repo.func(SIG + ':mask')
    P = lambda n: ('P', n)
    n = 0
    seen = set()
    for p in paths:
        if p.status != 'return':
            continue
        lits = dict(p.lits)
        part = lits.get(('truthy', P('partial')))
        key = 'forwards|partial=%s' % part
        if key in seen:
            continue
        seen.add(key)
        n += 1
        v = p.value
        node = [e for e in p.effects if e.kind == 'return'][-1].node
        st = site_of(fi, node)
        problems = []
        if not (v[0] == 'C' and v[1] == emb.key):
            check.violation(rule, st, 'forwards() returns %s, not the result of embed()' % show(v)[:80], key=key,
                            witness='forwards(o, i, n, *names) == embed(o, mask(i, n, *names))')
            continue
        eargs = [a for a in v[2] if a[0] != 'STAR']
        ek = dict(v[3])
        if len(eargs) != 2 or eargs[0] != P('outer'):
            problems.append('embed() is not called as embed(outer, <masked inner>)')
        m = eargs[1] if len(eargs) > 1 else None
        if m is None or not (m[0] == 'C' and m[1] == msk.key):
            problems.append('the second operand of embed() is %s, not the result of mask()' % (show(m)[:60] if m else None))
        else:
            mpos = [a for a in m[2] if a[0] != 'STAR']
            mstar = [a for a in m[2] if a[0] == 'STAR']
            mk = dict(m[3])
            inner_arg = mpos[0] if mpos else None
            if part is True:
                ok_inner = inner_arg is not None and inner_arg[0] == 'M' and inner_arg[1] == P('inner') and inner_arg[2] == 'replace' \
                    and 'parameters' in dict(inner_arg[4])
                if not ok_inner:
                    problems.append('in partial mode mask() receives %s instead of the rebuilt inner signature' % (show(inner_arg)[:60] if inner_arg else None))
            elif part is False:
                if inner_arg != P('inner'):
                    problems.append('mask() receives %s instead of inner' % (show(inner_arg)[:60] if inner_arg else None))
            if len(mpos) < 2 or mpos[1] != P('num_args'):
                problems.append('num_args does not reach mask() (got %s)' % (show(mpos[1])[:40] if len(mpos) > 1 else 'nothing'))
            if not mstar or mstar[0][1] != P('named_args'):
                problems.append('the named arguments do not reach mask() star-expanded')
            for name in ('hide_args', 'hide_kwargs'):
                if mk.get(name) != P(name):
                    problems.append('%s reaches mask() as %s' % (name, show(mk.get(name)) if mk.get(name) else 'its default'))
            for name in ('hide_varargs', 'hide_varkwargs'):
                if mk.get(name) not in (K(False), None):
                    problems.append('mask() is called with %s=%s; forwards() never hides a star on its own' % (name, show(mk.get(name))))
        for name in ('use_varargs', 'use_varkwargs'):
            if ek.get(name) != P(name):
                problems.append('%s reaches embed() as %s' % (name, show(ek.get(name)) if ek.get(name) else 'its default'))
        if problems:
            for m_ in problems[:3]:
                check.violation(rule, st, m_, key=key + '|' + m_[:40], effect=show(v)[:300],
                                witness='forwards(o, i, 1, "x", hide_args=True) == embed(o, mask(i, 1, "x", hide_args=True))')
        else:
            check.holds(rule, st, 'forwards() = embed(outer, mask(inner, num_args, *named_args, hide flags), use flags)', key=key, effect=show(v)[:300])
    check.floor(rule, 'returning paths of forwards()', n, 1)
    # ---- partial rewrite: every non-star parameter becomes optional, stars are kept
    outcomes = _partial_rewrite_outcomes(it, paths)
    if outcomes is None:
        check.inconclusive(rule_partial, site_of(fi, fi.node), 'partial-mode rewrite of the inner parameters not recognised', key='forwards|partial-rewrite')
    else:
        for kind in ['PO', 'POK', 'VP', 'KWO', 'VK']:
            got = outcomes.get(kind)
            want = 'kept' if kind in ('VP', 'VK') else 'optional'
            key = 'forwards|partial-rewrite|%s' % kind
            if got == want:
                check.holds(rule_partial, site_of(fi, fi.node), 'partial mode: %s parameters are %s' % (kind, want), key=key)
            else:
                check.violation(rule_partial, site_of(fi, fi.node), 'partial mode: %s parameters are %s, expected %s' % (kind, got, want), key=key,
                                witness='forwards_to_function(inner, 1, partial=True) with def inner(a, b, /, c, *, d): b must be optional')


def _partial_rewrite_outcomes(it, paths):
    """kind -> kept | optional | dropped | other, for the list handed to inner.replace(parameters=...)"""
    plist = None
    path = None
    for p in paths:
        if p.status == 'return' and p.value[0] == 'C':
            for s in subterms(p.value):
                if s[0] == 'M' and s[2] == 'replace' and s[1] == ('P', 'inner') and 'parameters' in dict(s[4]):
                    plist = dict(s[4])['parameters']
                    path = p
    if plist is None:
        return None
    kinds = ['PO', 'POK', 'VP', 'KWO', 'VK']

    def eval_cond(c, el, kind):
        """three-valued evaluation of a condition tree / literal list for parameter kind `kind`"""
        if c[0] == 'const':
            return c[1]
        if c[0] == 'lit':
            v = eval_atom(c[1], el, kind)
            return None if v is None else (v == c[2])
        if c[0] in ('and', 'or'):
            vals = [eval_cond(x, el, kind) for x in c[1]]
            if c[0] == 'and':
                return False if any(v is False for v in vals) else (None if any(v is None for v in vals) else True)
            return True if any(v is True for v in vals) else (None if any(v is None for v in vals) else False)
        if c[0] == 'not':
            v = eval_cond(c[1], el, kind)
            return None if v is None else (not v)
        return None

    def kinds_in(t):
        init = it.obj_init.get(t, t)
        out = set()
        for s in subterms(init):
            k = kind_of_attr_term(s)
            if k:
                out.add(k)
        return out

    def eval_atom(a, el, kind):
        if a[0] == 'in' and a[1] == ('A', el, 'kind'):
            return kind in kinds_in(a[2])
        if a[0] in ('eq', 'is') and ('A', el, 'kind') in a[1:]:
            other = [x for x in a[1:] if x != ('A', el, 'kind')][0]
            k = kind_of_attr_term(other)
            return None if k is None else (k == kind)
        return None

    def classify(val, el):
        if val == el:
            return 'kept'
        if val[0] == 'M' and val[2] == 'replace' and val[1] == el:
            kws = dict(val[4])
            if set(kws) == set(['default']) and kws['default'] == NONE:
                return 'optional'
        return 'other'
    out = {}
    init = it.obj_init.get(plist)
    # (a) list built by appends inside a loop
    loops = [e for e in path.effects if e.kind == 'loop']
    for lp in loops:
        el = ('E', lp.target, lp.ctx)
        if not any(x.kind == 'mut' and x.target == plist for sp in lp.sub for x in sp.effects):
            continue
        if not mentions(lp.target, ('P', 'inner')):
            return None
        for kind in kinds:
            res = set()
            for sp in lp.sub:
                ok = True
                for atom, pol in sp.lits:
                    v = eval_atom(atom, el, kind)
                    if v is None:
                        ok = None if ok else ok
                    elif v != pol:
                        ok = False
                if ok is False:
                    continue
                apps = [x for x in sp.effects if x.kind == 'mut' and x.target == plist and x.op == 'append']
                if not apps:
                    res.add('dropped')
                for x in apps:
                    res.add(classify(x.args[0], el))
            out[kind] = list(res)[0] if len(res) == 1 else 'ambiguous(%s)' % ','.join(sorted(res))
        return out
    # (b) comprehension
    if init is not None and init[0] == 'G' and len(init[3]) == 1:
        src, conds, lid = init[3][0]
        if not mentions(src, ('P', 'inner')):
            return None
        el = ('E', src, lid)
        for kind in kinds:
            keep = True
            for c in conds:
                v = eval_cond(c, el, kind)
                if v is False:
                    keep = False
                elif v is None:
                    keep = None
            if keep is False:
                out[kind] = 'dropped'
                continue
            elt = init[2]
            while elt[0] == 'IF':
                v = eval_cond(elt[1], el, kind)
                if v is None:
                    break
                elt = elt[2] if v else elt[3]
            out[kind] = classify(elt, el) if elt[0] != 'IF' else 'ambiguous'
        return out
    return None


DECL_FUNCS = ['specifiers:forwards', 'specifiers:forwards_to_function', 'specifiers:forwards_to_method', 'specifiers:forwards_to_super',
              'specifiers:apply_forwards_to_super', 'specifiers:_apply_forwards_to_super']


def rule_declaration_params_used(check, rule):
    """C04.R3: every declared parameter flows into the forwards() call (is used at all)"""
    repo = check.repo
    n = 0
    for k in DECL_FUNCS:
        fi = repo.func(k)
        check.analysed(fi)
        pos, vararg, kwonly, kwarg = fi.params()
        allp = pos + kwonly + [x for x in (vararg, kwarg) if x]
        used = set()
        for node in ast.walk(fi.node):
            if isinstance(node, ast.Name) and isinstance(node.ctx, ast.Load):
                used.add(node.id)
        for pname in allp:
            n += 1
            key = '%s|param-used|%s' % (fi.key, pname)
            if pname in used:
                check.holds(rule, site_of(fi, fi.node), 'declaration parameter %r is used' % pname, key=key)
            else:
                check.violation(rule, site_of(fi, fi.node), '%s() accepts the declaration parameter %r and never uses it: the value the user declares is '
                                'silently replaced' % (fi.name, pname), key=key,
                                witness="@apply_forwards_to_super('func', num_args=1) on a body calling super().func(1, *args, **kwargs) reports the "
                                        "parameter the body already supplies")
    check.floor(rule, 'declaration parameters', n, 15)
    # the flow itself for the three forger bodies: forwards(obj, <target>, *args, **kwargs)
    fwd = repo.func('specifiers:forwards')
    for k in ('specifiers:forwards_to_function', 'specifiers:forwards_to_method', 'specifiers:forwards_to_super'):
        fi = repo.func(k)
        it = Interp(repo, Policy(try_forks=False))
        paths = it.run(fi)
        check.absorb(it)
        pos, vararg, kwonly, kwarg = fi.params()
        ok = None
        for p in paths:
            for e, g in walk_effects(p.effects):
                if e.kind == 'call' and (e.op == fwd.key or str(e.op).endswith(':forwards')):
                    stars = [a for a in e.args if a[0] == 'STAR']
                    dstars = [v for n_, v in e.kws if n_ is None]
                    first = e.args[0] if e.args else None
                    good = first == ('P', pos[0]) and stars and stars[0][1] == ('P', vararg) and dstars and dstars[0] == ('P', kwarg)
                    ok = good if ok is None else (ok and good)
                    enode = e.node
        key = '%s|flow' % fi.key
        if ok:
            check.holds(rule, site_of(fi, enode), 'forwards(obj, <target>, *args, **kwargs): the declaration reaches the algebra unchanged', key=key)
        elif ok is False:
            check.violation(rule, site_of(fi, enode), 'the declaration arguments do not reach forwards() as (obj, <target>, *args, **kwargs)', key=key,
                            witness='forwards_to_function(inner, 1, "x") must mask one positional and x')
        else:
            check.violation(rule, site_of(fi, fi.node), '%s no longer calls forwards()' % fi.name, key=key)
    # apply_forwards_to_super: (num_args,) + named_args, kwargs reach forwards_to_super via _apply_forwards_to_super
    fi = repo.func('specifiers:apply_forwards_to_super')
    it = Interp(repo, Policy())
    paths = it.run(fi)
    for p in paths:
        if p.status != 'return':
            continue
        v = p.value
        key = '%s|flow' % fi.key
        ok = False
        if v[0] == 'C' and str(v[1]).endswith('partial') and len(v[2]) == 4:
            tgt, names, margs, mkw = v[2]
            if names == ('P', 'member_names') and mkw[0] in ('D', 'P') and margs[0] == 'T' and margs[1] and margs[1][0] == ('P', 'num_args') \
                    and any(x == ('STAR', ('P', 'named_args')) for x in margs[1][1:]):
                ok = True
            if margs[0] == 'B' and margs[1] == 'Add' and margs[2] == ('T', (('P', 'num_args'),)) and margs[3] == ('P', 'named_args'):
                ok = names == ('P', 'member_names')
        if ok:
            check.holds(rule, site_of(fi, fi.node), 'apply_forwards_to_super passes (num_args,) + named_args and the keyword arguments on', key=key)
        else:
            check.violation(rule, site_of(fi, fi.node), 'apply_forwards_to_super builds %s: the declared num_args/named_args do not reach forwards_to_super'
                            % show(v)[:160], key=key, witness="@apply_forwards_to_super('func', num_args=1)")


def rule_forger_protocol(check, rule):
    """C04.R4: forgers are called with obj=, wrappers forward the wrapped object, bound-only forgers return None when unbound"""
    repo = check.repo
    fw = repo.func('specifiers:_ForgerWrapper._sigtools__forger')
    check.analysed(fw)
    it = Interp(repo, Policy())
    paths = it.run(fw)
    check.absorb(it)
    selft = ('P', fw.params()[0][0])
    init = repo.func('specifiers:_ForgerWrapper.__init__')
    stored = _init_stores(init)
    forger_attr = stored.get(init.params()[0][2]) if len(init.params()[0]) > 2 else None
    for p in paths:
        if p.status != 'return':
            continue
        v = p.value
        key = '%s|call' % fw.key
        ok = v[0] in ('C', 'M') and (v[1] == ('A', selft, forger_attr) or (v[0] == 'M' and v[1] == selft and v[2] == forger_attr)) \
            and dict(v[3] if v[0] == 'C' else v[4]) == {'obj': ('A', selft, '__wrapped__')} and not (v[2] if v[0] == 'C' else v[3])
        if ok:
            check.holds(rule, site_of(fw, fw.node), 'the wrapper calls its forger as forger(obj=<wrapped object>)', key=key)
        else:
            check.violation(rule, site_of(fw, fw.node), '_ForgerWrapper calls its forger as %s, expected <stored forger>(obj=self.__wrapped__)' % show(v)[:120],
                            key=key, witness='forwards_to_function(inner, emulate=True): the forged signature is computed for the wrapped function')
    # bound-only forgers
    for k in ('specifiers:forwards_to_method', 'specifiers:forwards_to_super'):
        fi = repo.func(k)
        check.analysed(fi)
        it2 = Interp(repo, Policy(try_forks=True))
        ps = it2.run(fi)
        check.absorb(it2)
        objp = ('P', fi.params()[0][0])
        none_on_unbound = False
        bad = None
        for p in ps:
            missing = any(a[0] == 'raises' and 'AttributeError' in str(a[2]) and pol for a, pol in p.lits[:1])
            isnone = any(a[0] == 'isnone' and pol and a[1] == ('A', objp, '__self__') for a, pol in p.lits)
            if (missing or isnone):
                if p.status == 'return' and p.value == NONE:
                    none_on_unbound = True
                elif p.status in ('return', 'raise') and not (missing and len([l for l in p.lits if l[0][0] == 'raises']) > 1):
                    bad = p
        key = '%s|unbound' % fi.key
        if none_on_unbound and bad is None:
            check.holds(rule, site_of(fi, fi.node), 'an unbound function (no __self__ / None) makes the forger return None: discovery takes over', key=key)
        elif not none_on_unbound:
            check.violation(rule, site_of(fi, fi.node), '%s does not return None for an unbound function' % fi.name, key=key,
                            witness='sigtools.signature(Cls.method) through the class')
        else:
            check.holds(rule, site_of(fi, fi.node), 'unbound functions return None', key=key)
    # every forger call in the package passes the subject by the keyword obj
    n = 0
    for m in repo.modules.values():
        for fi in m.funcs.values():
            for node in _own_nodes(fi.node):
                if isinstance(node, ast.Call) and any(kw.arg == 'obj' for kw in node.keywords):
                    fn = norm(node.func)
                    # (the forger protocol is "called with obj=<subject>": a call of a *value* -- a local, or an attribute of
                    # self -- passing obj= is a forger call whatever the local is named)
                    is_value = isinstance(node.func, ast.Name) and node.func.id in local_names(fi.node)
                    if fn.endswith('forger') or fn.endswith('_signature_forger') or is_value:
                        n += 1
                        key = '%s|forger-call|%s' % (fi.key, 'local' if is_value else fn)
                        if node.args:
                            check.violation(rule, site_of(fi, node), 'a forger is called with positional arguments', key=key)
                        else:
                            check.holds(rule, site_of(fi, node), 'forger called with obj= only', key=key)
    check.floor(rule, 'forger call sites', n, 2)


def _init_stores(init):
    """constructor parameter -> attribute of self it is stored in (self.attr = param)"""
    out = {}
    selfn = init.params()[0][0]
    for n in ast.walk(init.node):
        if isinstance(n, ast.Assign) and isinstance(n.value, ast.Name):
            for t in n.targets:
                if isinstance(t, ast.Attribute) and isinstance(t.value, ast.Name) and t.value.id == selfn:
                    out[n.value.id] = t.attr
    return out


# ---------------------------------------------------------------------------
# C13

def rule_wrapper_hygiene(check, rule):
    """C04.R5 / C13.R3"""
    repo = check.repo
    for ck in WRAPPER_CLASSES:
        ci = repo.cls(ck)
        init = ci.methods.get('__init__')
        st0 = '%s:%d %s' % (ci.module.relpath, ci.node.lineno, ci.key)
        key = '%s|__signature__' % ci.key
        v = ci.assigns.get('__signature__')
        if v is not None and norm(v).endswith('as_forged'):
            check.holds(rule, st0, '%s.__signature__ is the as_forged descriptor: inspect.signature sees the forged signature' % ci.name, key=key)
        else:
            check.violation(rule, st0, '%s does not expose __signature__ = as_forged' % ci.name, key=key,
                            witness='inspect.signature(decorated) must equal sigtools.signature(decorated)')
        if init is None:
            check.violation(rule, st0, '%s has no __init__' % ci.name, key='%s|init' % ci.key)
            continue
        check.analysed(init)
        selfn = init.params()[0][0]
        body = init.main_body
        uw = None
        for i, stmt in enumerate(body):
            for n in ast.walk(stmt):
                if isinstance(n, ast.Call) and norm(n.func).endswith('update_wrapper') and n.args and norm(n.args[0]) == selfn:
                    uw = i
        key = '%s|update_wrapper' % ci.key
        if uw is None:
            check.violation(rule, site_of(init, init.node), '%s.__init__ does not call update_wrapper(self, ...)' % ci.name, key=key)
            continue
        # what is copied from: the object that ends up as self.__wrapped__ (the decorated callable), not the decorator function
        uwc = [n for n in ast.walk(body[uw]) if isinstance(n, ast.Call) and norm(n.func).endswith('update_wrapper') and n.args and norm(n.args[0]) == selfn][0]
        wrapped_src = [norm(a_.value) for st_ in body for a_ in ast.walk(st_) if isinstance(a_, ast.Assign)
                       and any(isinstance(t_, ast.Attribute) and t_.attr == '__wrapped__' and isinstance(t_.value, ast.Name) and t_.value.id == selfn
                               for t_ in a_.targets)]
        kuw = '%s|update_wrapper-from' % ci.key
        if len(uwc.args) >= 2 and wrapped_src:
            if norm(uwc.args[1]) in wrapped_src:
                check.holds(rule, site_of(init, uwc), '%s copies name, docstring and attributes from the object it wraps' % ci.name, key=kuw)
            else:
                check.violation(rule, site_of(init, uwc), '%s.__init__ copies the metadata of %s, but wraps %s: the decorated callable shows up under the '
                                'decorator function\'s name, docstring and attributes (a forger or __signature__ among them)'
                                % (ci.name, norm(uwc.args[1]), wrapped_src[0]), key=kuw,
                                witness='decorated.__name__ / the attributes copied onto the wrapper come from the wrapped function')
        # attributes assigned before update_wrapper can be overwritten by the copied __dict__
        slots = set()
        sv = ci.assigns.get('__slots__')
        if sv is not None:
            for n in ast.walk(sv):
                if isinstance(n, ast.Constant) and isinstance(n.value, str):
                    slots.add(n.value)
        early = []
        for stmt in body[:uw]:
            for n in ast.walk(stmt):
                if isinstance(n, ast.Attribute) and isinstance(n.ctx, ast.Store) and isinstance(n.value, ast.Name) and n.value.id == selfn \
                        and n.attr not in slots:
                    early.append(n)
        if early:
            check.violation(rule, site_of(init, early[0]), '%s.__init__ assigns self.%s before update_wrapper(self, ...): update_wrapper copies the '
                            '__dict__ of the wrapped object, which for stacked wrappers holds an attribute of the same name and overwrites it'
                            % (ci.name, early[0].attr), key=key, witness='stacking two @decorator wrappers: the outer one calls the inner one\'s func')
        else:
            check.holds(rule, site_of(init, body[uw]), 'every instance attribute is assigned after update_wrapper(self, ...)', key=key)
        # the copied __signature__ / _sigtools__forger are deleted afterwards
        for attr in ('__signature__', '_sigtools__forger'):
            dels = [n for stmt in body[uw + 1:] for n in ast.walk(stmt) if isinstance(n, ast.Delete)
                    and any(isinstance(t, ast.Attribute) and t.attr == attr and isinstance(t.value, ast.Name) and t.value.id == selfn for t in n.targets)]
            key = '%s|del:%s' % (ci.key, attr)
            skipped = None
            for d in dels:
                # the deletion must not be skippable: inside a try whose handler absorbs AttributeError, an earlier
                # statement of the same try body that can raise it (another `del self.x`) jumps over this one
                par = getattr(d, '_parent', None)
                if isinstance(par, ast.Try) and d in par.body:
                    for prev in par.body[:par.body.index(d)]:
                        if isinstance(prev, ast.Delete) or any(isinstance(x, ast.Attribute) and isinstance(x.ctx, (ast.Load, ast.Del))
                                                                for x in ast.walk(prev)):
                            skipped = (d, prev)
                    tgts = [t for t in d.targets]
                    if len(tgts) > 1:
                        idx = [i for i, t in enumerate(tgts) if isinstance(t, ast.Attribute) and t.attr == attr][0]
                        if idx > 0:
                            skipped = (d, d)
            if dels and skipped is not None and len(dels) == 1:
                check.violation(rule, site_of(init, skipped[0]), 'the deletion of the copied %s shares a try block with an earlier statement (%s) that '
                                'raises AttributeError when its attribute is absent: the deletion is then skipped and the copied instance attribute '
                                'shadows the class-level %s' % (attr, norm(skipped[1])[:50], 'descriptor' if attr == '__signature__' else 'forger'),
                                key=key, witness='emulate=True forger on a function that carries its own __signature__ but no forger: '
                                                 'inspect.signature shows the raw signature')
            elif dels:
                check.holds(rule, site_of(init, dels[0]), 'the copied instance attribute %s is deleted after update_wrapper' % attr, key=key)
            else:
                check.violation(rule, site_of(init, init.node), '%s.__init__ keeps the %s copied from the wrapped object: it shadows the class-level '
                                '%s' % (ci.name, attr, 'descriptor' if attr == '__signature__' else 'forger'), key=key,
                                witness='wrapping an object that already carries a forger / __signature__')


def rule_pure_forwarding(check, rule):
    """C13.R1"""
    repo = check.repo
    for ck in WRAPPER_CLASSES:
        ci = repo.cls(ck)
        call = ci.methods.get('__call__')
        if call is None:
            check.violation(rule, '%s:%d' % (ci.module.relpath, ci.node.lineno), '%s has no __call__' % ci.name, key='%s|call' % ci.key)
            continue
        check.analysed(call)
        it = Interp(repo, Policy())
        paths = it.run(call)
        check.absorb(it)
        pos, vararg, kwonly, kwarg = call.params()
        selft = ('P', pos[0])
        key = '%s|__call__' % ci.key
        # (a try/finally without handlers propagates every exception: only handlers can swallow or convert one)
        trys = [n for n in ast.walk(call.node) if isinstance(n, ast.Try) and n.handlers]
        paths = [p_ for p_ in paths if p_.status != 'raise' or p_.value is not None]
        ok = len([p_ for p_ in paths if p_.status == 'return']) == 1 and len(paths) == 1 and paths[0].status == 'return' and not trys and vararg and kwarg and len(pos) == 1
        if ok:
            v = paths[0].value
            ok = v[0] in ('C', 'M')
            if ok:
                callee = v[1] if v[0] == 'C' else ('A', v[1], v[2])
                args = v[2] if v[0] == 'C' else v[3]
                kws = v[3] if v[0] == 'C' else v[4]
                ok = callee[0] == 'A' and callee[1] == selft and tuple(args) == (('STAR', ('P', vararg)),) and tuple(kws) == ((None, ('P', kwarg)),)
                target_attr = callee[2] if ok else None
        if not ok:
            check.violation(rule, site_of(call, call.node), '%s.__call__ is not `return self.<callable>(*args, **kwargs)` without a handler'
                            % ci.name, key=key, witness='the decorated object must return what the composition returns and propagate its exceptions')
            continue
        check.holds(rule, site_of(call, call.node), '%s.__call__ returns self.%s(*args, **kwargs) unchanged' % (ci.name, target_attr), key=key)
        # what is self.<target_attr>?
        init = ci.methods.get('__init__')
        if init is None:
            continue
        it2 = Interp(repo, Policy(try_forks=False))
        ps = it2.run(init)
        ipos = init.params()[0]
        stored = None
        for p in ps:
            for e in p.effects:
                if e.kind == 'store_attr' and e.target == ('P', ipos[0]) and e.op == target_attr:
                    stored = e.args[0]
        key = '%s|callable' % ci.key
        if target_attr == '__wrapped__':
            names = [x for x in ipos[1:]]
            if stored is not None and stored[0] == 'P':
                check.holds(rule, site_of(init, init.node), 'the callable is the wrapped object itself', key=key)
            else:
                check.violation(rule, site_of(init, init.node), 'self.__wrapped__ is %s' % (show(stored)[:60] if stored else None), key=key)
        else:
            # partial(wrapper, wrapped) in that order
            wr = [x for x in ipos if x == 'wrapper']
            wd = [x for x in ipos if x == 'wrapped']
            ok2 = stored is not None and stored[0] == 'C' and str(stored[1]).endswith('partial') and len(stored[2]) == 2 and \
                stored[2][0][0] == 'P' and stored[2][1][0] == 'P'
            if ok2 and wr and wd:
                ok2 = stored[2] == (('P', 'wrapper'), ('P', 'wrapped'))
            if ok2:
                # the second operand is what ends up in __wrapped__
                wrapped_store = None
                for p in ps:
                    for e in p.effects:
                        if e.kind == 'store_attr' and e.op == '__wrapped__':
                            wrapped_store = e.args[0]
                if wrapped_store == stored[2][1]:
                    check.holds(rule, site_of(init, init.node), 'self.%s = partial(<wrapper>, <wrapped>): the wrapped callable is the wrapper\'s first argument'
                                % target_attr, key=key)
                else:
                    check.violation(rule, site_of(init, init.node), 'partial(...) binds %s but __wrapped__ is %s' % (show(stored[2][1]), show(wrapped_store)), key=key)
            else:
                check.violation(rule, site_of(init, init.node), 'self.%s is %s, expected partial(<wrapper>, <wrapped>)' % (target_attr, show(stored)[:80] if stored else None),
                                key=key, witness='decorator(f)(g)(*a) must equal f(g, *a)')
    # Combination
    ci = repo.cls('wrappers:Combination')
    call = ci.methods.get('__call__')
    check.analysed(call)
    it = Interp(repo, Policy())
    paths = it.run(call)
    check.absorb(it)
    pos, vararg, kwarg = call.params()[0], call.params()[1], call.params()[3]
    selft = ('P', pos[0])
    key = '%s|__call__' % ci.key
    ok = False
    why = 'not recognised'
    for p in paths:
        loops = [e for e in p.effects if e.kind == 'loop']
        if p.status == 'return' and len(loops) == 1 and len(pos) == 2:
            lp = loops[0]
            el = ('E', lp.target, lp.ctx)
            if lp.target != ('A', selft, 'functions'):
                why = 'iterates %s instead of self.functions in order' % show(lp.target)[:40]
                continue
            if len(lp.sub) == 1 and lp.sub[0].status == 'continue':
                sp = lp.sub[0]
                out = sp.env_out.get(pos[1])
                vin = sp.env_in.get(pos[1])
                if out is not None and out[0] == 'C' and out[1] == el and tuple(out[2]) == (vin, ('STAR', ('P', vararg))) and tuple(out[3]) == ((None, ('P', kwarg)),):
                    if p.value[0] == 'V' and p.value[1] == pos[1]:
                        ok = True
                    else:
                        why = 'returns %s instead of the last result' % show(p.value)[:40]
                else:
                    why = 'each step computes %s' % (show(out)[:80] if out else None)
            else:
                why = 'the loop body has several exits'
    if ok and not [n for n in ast.walk(call.node) if isinstance(n, ast.Try) and n.handlers]:
        check.holds(rule, site_of(call, call.node), 'Combination.__call__ threads the first argument through self.functions in order, other arguments '
                    'unchanged, and returns the last result', key=key)
    else:
        check.violation(rule, site_of(call, call.node), 'Combination.__call__: %s' % why, key=key,
                        witness='Combination(f, g)(x, *a) must equal g(f(x, *a), *a)')
    # __init__ flattens nested combinations in order
    init = ci.methods.get('__init__')
    it = Interp(repo, Policy())
    paths = it.run(init)
    key = '%s|__init__' % ci.key
    ok = False
    for p in paths:
        for e in p.effects:
            if e.kind == 'loop' and e.target == ('P', init.params()[1]):
                el = ('E', e.target, e.ctx)
                kinds = {}
                for sp in e.sub:
                    isc = None
                    for a, pol in sp.lits:
                        if a[0] == 'isinstance' and a[1] == el and 'Combination' in str(a[2]):
                            isc = pol
                    muts = [x for x in sp.effects if x.kind == 'mut']
                    if isc is True and len(muts) == 1 and muts[0].op == 'extend' and muts[0].args[0] == ('A', el, 'functions'):
                        kinds['nested'] = True
                    if isc is False and len(muts) == 1 and muts[0].op == 'append' and muts[0].args[0] == el:
                        kinds['plain'] = True
                if kinds.get('nested') and kinds.get('plain'):
                    ok = True
    if ok:
        check.holds(rule, site_of(init, init.node), 'Combination.__init__ keeps the functions in order and flattens nested combinations', key=key)
    else:
        check.violation(rule, site_of(init, init.node), 'Combination.__init__ does not collect its functions in order (append / extend of nested ones)', key=key,
                        witness='Combination(Combination(f, g), h) calls f, g, h in that order')


def _via_own_helper(repo, ci, a, inst, owner):
    """safe_get(self.<helper>(...), instance, owner) where <helper> is a method of the same class that returns
    self.__wrapped__ (possibly after normalising and storing it back) on every path"""
    if not (a[0] == 'C' and a[1] == '_util:safe_get' and len(a[2]) == 3 and a[2][1] == inst and a[2][2] == owner):
        return False
    h = a[2][0]
    if not (h[0] == 'C' and isinstance(h[1], str) and h[1].startswith(ci.key + '.')):
        return False
    m = ci.methods.get(h[1].split('.')[-1])
    if m is None:
        return False
    it = Interp(repo, Policy(try_forks=False))
    hs = ('P', m.params()[0][0])
    ok = False
    for p in it.run(m):
        if p.status != 'return':
            continue
        stored = [e.args[0] for e in p.effects if e.kind == 'store_attr' and e.target == hs and e.op == '__wrapped__']
        if p.value == ('A', hs, '__wrapped__') or p.value in stored:
            ok = True
        else:
            return False
    return ok


def _no_descriptor_evidence(atom, pol, o):
    """a guard saying that type(obj) has no __get__: getattr(type(obj), '__get__', None) is None / not hasattr(type(obj), '__get__')"""
    t = atom[1] if len(atom) > 1 and isinstance(atom[1], tuple) else None
    if t is None or not (t[0] == 'C' and t[1] in ('getattr', 'hasattr') and len(t[2]) >= 2 and t[2][0] == ('C', 'type', (o,), ())
                         and t[2][1] == K('__get__')):
        return False
    if t[1] == 'getattr':
        return atom[0] == 'isnone' and pol and len(t[2]) == 3 and t[2][2] == NONE
    return atom[0] == 'truthy' and not pol


def rule_descriptor_rebinding(check, rule, classes=None, only_safe_get=False):
    """C13.R2: __get__ rebuilds an instance of the same type from the same stored parts and the re-bound wrapped object"""
    repo = check.repo
    for ck in ([] if only_safe_get else (classes or WRAPPER_CLASSES)):
        ci = repo.cls(ck)
        get = ci.methods.get('__get__')
        init = ci.methods.get('__init__')
        if get is None or init is None:
            check.violation(rule, '%s:%d' % (ci.module.relpath, ci.node.lineno), '%s lacks __get__/__init__' % ci.name, key='%s|__get__' % ci.key)
            continue
        check.analysed(get)
        stores = _init_stores(init)
        ipos = init.params()[0][1:]
        # helper methods of the same class are inlined, so that a refactoring which extracts part of __get__ is still read
        it = Interp(repo, Policy(inline=lambda f_, d_, n_, _ci=ci: f_.cls is _ci and f_.name != '__init__', try_forks=False))
        paths = it.run(get)
        check.absorb(it)
        gpos = get.params()[0]
        selft, inst, owner = ('P', gpos[0]), ('P', gpos[1]), ('P', gpos[2])
        n = 0
        for p in paths:
            if p.status != 'return':
                continue
            n += 1
            v = p.value
            key = '%s|__get__' % ci.key
            node = [e for e in p.effects if e.kind == 'return'][-1].node
            # type(self)(...)
            ctor_ok = v[0] == 'C' and isinstance(v[1], tuple) and v[1] == ('C', 'type', (selft,), ())
            if not ctor_ok:
                check.violation(rule, site_of(get, node), '%s.__get__ returns %s, not a new type(self)(...) built from its own parts' % (ci.name, show(v)[:100]),
                                key=key, witness='accessing the decorated method through an instance loses the decorator arguments')
                continue
            args = list(v[2])
            if len(args) != len(ipos) or v[3]:
                check.violation(rule, site_of(get, node), '%s.__get__ rebuilds with %d arguments, the constructor takes %d' % (ci.name, len(args), len(ipos)), key=key)
                continue
            problems = []
            for a, pname in zip(args, ipos):
                attr = stores.get(pname)
                if attr == '__wrapped__' or (attr is None and pname in ('wrapped', 'obj')):
                    want = ('C', '_util:safe_get', (('A', selft, '__wrapped__'), inst, owner), ())
                    # the wrapped object may have been normalised and stored back on this path
                    stored_back = [e.args[0] for e in p.effects if e.kind == 'store_attr' and e.target == selft and e.op == '__wrapped__']
                    alt = [('C', '_util:safe_get', (x, inst, owner), ()) for x in stored_back if mentions(x, ('A', selft, '__wrapped__'))]
                    if a != want and a not in alt and not _via_own_helper(repo, ci, a, inst, owner):
                        problems.append('constructor argument %r is %s, expected safe_get(self.__wrapped__, instance, owner)' % (pname, show(a)[:60]))
                elif attr is None:
                    problems.append('constructor parameter %r is not stored by __init__' % pname)
                elif a != ('A', selft, attr):
                    problems.append('constructor argument %r is %s, expected self.%s (what __init__ stored for it)' % (pname, show(a)[:60], attr))
            if problems:
                for m_ in problems[:2]:
                    check.violation(rule, site_of(get, node), '%s.__get__: %s' % (ci.name, m_), key=key + '|' + m_[:40],
                                    witness='binding as a method must only remove the first parameter')
            else:
                check.holds(rule, site_of(get, node), '%s.__get__ -> type(self)(<same parts>, safe_get(self.__wrapped__, instance, owner))' % ci.name, key=key)
        check.floor(rule, 'returning paths of %s.__get__' % ci.name, n, 1)
    # safe_get itself
    sg = repo.func('_util:safe_get')
    check.analysed(sg)
    it = Interp(repo, Policy(try_forks=True))
    paths = it.run(sg)
    o, i, w = [('P', x) for x in sg.params()[0]]
    ok_bind = ok_plain = False
    other = []
    for p in paths:
        if p.status == 'return':
            v = p.value
            if v == o and any((a[0] == 'raises' and pol) or _no_descriptor_evidence(a, pol, o) for a, pol in p.lits):
                ok_plain = True
            elif v[0] == 'C' and v[2] == (o, i, w) and mentions(v[1], ('C', 'type', (o,), ())):
                ok_bind = True
            elif v[0] == 'M' and v[1] == ('C', 'type', (o,), ()) and v[2] == '__get__' and v[3] == (o, i, w):
                ok_bind = True
            else:
                other.append(p)
    key = '_util:safe_get|table'
    for p in other[:1]:
        node = [e for e in p.effects if e.kind == 'return'][-1].node
        check.violation(rule, site_of(sg, node), 'safe_get returns %s when %s: every descriptor must be bound through type(obj).__get__(obj, instance, '
                        'owner), whatever instance and owner are (a classmethod looked up on the class binds to the owner)'
                        % (show(p.value)[:40], lits_text(p.lits)[:120] or 'always'), key=key + '|other',
                        witness='wrapper_decorator over a classmethod: Cls.meth must be bound to Cls')
    if other:
        pass
    elif ok_bind and ok_plain:
        check.holds(rule, site_of(sg, sg.node), 'safe_get: type(obj).__get__(obj, instance, owner), or obj itself when it is no descriptor', key=key)
    else:
        check.violation(rule, site_of(sg, sg.node), 'safe_get no longer binds through type(obj).__get__(obj, instance, owner) / returns obj otherwise', key=key)


def rule_wrapped_forger(check, rule):
    """C13.R4"""
    repo = check.repo
    fi = repo.func('wrappers:_Wrapped._sigtools__forger')
    check.analysed(fi)
    it = Interp(repo, Policy())
    paths = it.run(fi)
    check.absorb(it)
    selft = ('P', fi.params()[0][0])
    for p in paths:
        if p.status != 'return':
            continue
        v = p.value
        key = '%s|forwards' % fi.key
        ok = v[0] == 'C' and str(v[1]).endswith(':forwards') and len(v[2]) == 3 and v[2][0] == ('A', selft, 'func') and v[2][1] == ('A', selft, '__wrapped__') \
            and v[2][2] == ('STAR', ('A', ('A', selft, 'decorator'), 'f_args')) and tuple(v[3]) == ((None, ('A', ('A', selft, 'decorator'), 'f_kwargs')),)
        if ok:
            check.holds(rule, site_of(fi, fi.node), 'forwards(self.func, self.__wrapped__, *decorator.f_args, **decorator.f_kwargs)', key=key)
        else:
            check.violation(rule, site_of(fi, fi.node), '_Wrapped forges its signature as %s' % show(v)[:160], key=key,
                            witness='wrapper_decorator(1)(w)(f): one positional of f is supplied by w')
    # specifiers.forwards(wrapper, wrapped, ...): the wrapper's own *plain* signature (its forged one is what is being computed) and the
    # wrapped callable's *full* signature -- forged and, failing that, discovered: cutting discovery off (`auto=False`) advertises the
    # bare (*args, **kwargs) of a wrapped function that itself forwards
    sf = repo.func('specifiers:forwards', required=False)
    if sf is not None:
        check.analysed(sf)
        it3 = Interp(repo, Policy())
        key = 'specifiers:forwards|operands'
        for p in it3.run(sf):
            if p.status != 'return':
                continue
            v = p.value
            pos_ = sf.params()[0]
            msg = None
            if not (v[0] == 'C' and str(v[1]).endswith('_signatures:forwards') and len(v[2]) >= 2):
                msg = 'specifiers.forwards returns %s' % show(v)[:80]
            else:
                a0, a1 = v[2][0], v[2][1]
                if not (a0[0] == 'C' and str(a0[1]).endswith('_signatures:signature') and a0[2] == (('P', pos_[0]),)):
                    msg = 'the outer operand is %s, expected the plain signature of the wrapper' % show(a0)[:60]
                elif not (a1[0] == 'C' and str(a1[1]).endswith(':forged_signature') and a1[2][:1] == (('P', pos_[1]),)):
                    msg = 'the inner operand is %s, expected the full signature of the wrapped callable' % show(a1)[:60]
                else:
                    kws_ = dict(a1[3])
                    extra_pos = a1[2][1:]
                    if ('auto' in kws_ and kws_['auto'] != K(True)) or (extra_pos and extra_pos[0] != K(True)):
                        msg = 'the wrapped callable\'s signature is retrieved with auto=%s: what it forwards itself is not discovered' \
                              % show(kws_.get('auto', extra_pos[0] if extra_pos else None))
                    elif not any(x[0] == 'STAR' for x in v[2][2:]) or not any(k is None for k, _v in v[3]):
                        msg = 'the positional / named arguments of the declaration are not handed on'
            if msg:
                check.violation(rule, site_of(sf, sf.node), 'specifiers.forwards: %s' % msg, key=key,
                                witness='wrapper_decorator over def inner(*a, **k): return target(*a, **k) must advertise target\'s parameters')
            else:
                check.holds(rule, site_of(sf, sf.node), 'specifiers.forwards(plain signature of the wrapper, full signature of the wrapped, *args, **kwargs)',
                            key=key)
    # _WrapperDecorator stores what wrapper_decorator was given
    fi = repo.func('wrappers:Combination.get_signature')
    check.analysed(fi)
    it = Interp(repo, Policy())
    paths = it.run(fi)
    selft = ('P', fi.params()[0][0])
    for p in paths:
        if p.status != 'return':
            continue
        v = p.value
        key = '%s|merge' % fi.key
        ok = False
        why = show(v)[:160]
        if v[0] == 'C' and str(v[1]).endswith(':merge') and len(v[2]) == 2:
            own, rest = v[2]
            own_ok = own[0] == 'C' and str(own[1]).endswith('_signatures:signature') and own[2] == (selft,)
            rest_ok = False
            if rest[0] == 'STAR' and rest[1][0] == 'G':
                g = rest[1]
                src = g[3][0][0]
                el = ('E', src, g[3][0][2])
                rest_ok = src == ('A', selft, 'functions') and not g[3][0][1] and g[2][0] == 'C' and str(g[2][1]).endswith(':forged_signature') \
                    and g[2][2] == (el,)
            ok = own_ok and rest_ok
            if not own_ok:
                why = 'the combination\'s own (arg, *args, **kwargs) signature is not merged in: %s' % show(own)[:60]
            elif not rest_ok:
                why = 'not every element\'s forged signature is merged: %s' % show(rest)[:80]
        if ok:
            check.holds(rule, site_of(fi, fi.node), 'merge(plain signature of the combination, forged signature of every element)', key=key)
        else:
            check.violation(rule, site_of(fi, fi.node), 'Combination.get_signature: %s' % why, key=key,
                            witness='Combination(f)(value=1) fails: __call__ takes its first argument positionally as `arg`')


def _same_tuple_as_before(sp):
    for a, pol in sp.lits:
        if a[0] == 'is' and pol:
            x, y = a[1], a[2]
            for u, v in ((x, y), (y, x)):
                if u[0] == 'A' and u[2] == '_sigtools__wrappers' and v[0] == 'V':
                    return True
    return False


def _layers_build_their_own_tuple(repo):
    """every store to ._sigtools__wrappers in the package assigns a tuple display (a new object per layer)"""
    n = 0
    for fi in repo.all_funcs():
        for node in _own_nodes(fi.node):
            if isinstance(node, ast.Assign):
                for t in node.targets:
                    if isinstance(t, ast.Attribute) and t.attr == '_sigtools__wrappers':
                        n += 1
                        if not (isinstance(node.value, ast.Tuple) and node.value.elts):
                            return False
    return n > 0


def rule_wrappers_enumeration(check, rule):
    """C13.R5"""
    repo = check.repo
    fi = repo.func('wrappers:wrappers')
    check.analysed(fi)
    it = Interp(repo, Policy(try_forks=True))
    paths = it.run(fi)
    check.absorb(it)
    obj = ('P', fi.params()[0][0])
    key = '%s|order' % fi.key
    ok_yield = ok_follow = ok_stop = False
    skipping = []
    for p in paths:
        for e in p.effects:
            if e.kind == 'loop' and e.extra == 'while':
                for sp in e.sub:
                    miss = any(a[0] == 'raises' and 'AttributeError' in str(a[2]) and pol for a, pol in sp.lits)
                    if miss and sp.status == 'return':
                        ok_stop = True
                    ys = [x for x, g in walk_effects(sp.effects) if x.kind == 'yield']
                    if not miss and not ys and sp.status != 'raise':
                        # a layer whose wrapper tuple is there, and nothing of it is listed
                        if _same_tuple_as_before(sp) and _layers_build_their_own_tuple(repo):
                            # the very tuple object of an earlier layer: an attribute copied by functools.wraps, not a layer
                            continue
                        skipping.append(sp)
                    if ys and not miss:
                        y = ys[0].target
                        cur = sp.env_in.get(fi.params()[0][0])
                        if y[0] == 'E' and y[1][0] == 'A' and y[1][2] == '_sigtools__wrappers' and y[1][1] == cur:
                            ok_yield = True
                        nxt = sp.env_out.get(fi.params()[0][0])
                        if nxt is not None and nxt[0] == 'A' and nxt[2] == '__wrapped__':
                            # the yield must precede following __wrapped__
                            ok_follow = True
    for sp in skipping[:1]:
        node = None
        for x, g in walk_effects(sp.effects):
            if x.node is not None:
                node = x.node
                break
        check.violation(rule, site_of(fi, node or fi.node), 'wrappers(): a layer that has a _sigtools__wrappers tuple can be passed over without '
                        'listing its wrapping functions (%s)' % lits_text(sp.lits)[:200], key=key + '|skips',
                        witness='@trace @trace def f: wrappers(f) must list trace twice, one entry per layer')
    if skipping:
        pass
    elif ok_yield and ok_follow and ok_stop:
        check.holds(rule, site_of(fi, fi.node), 'wrappers(): yields the current object\'s _sigtools__wrappers, then follows __wrapped__, stops at the first '
                    'object without the attribute (outermost first)', key=key)
    else:
        check.violation(rule, site_of(fi, fi.node), 'wrappers(): yield=%s follow=%s stop=%s' % (ok_yield, ok_follow, ok_stop), key=key,
                        witness='wrappers(decorated) lists the wrapping functions outermost first')


def rule_as_forged_get(check, rule):
    """C13.R6: _AsForged.__get__ returns signature(<instance or owner>)"""
    repo = check.repo
    fi = repo.func('specifiers:_AsForged.__get__')
    check.analysed(fi)
    it = Interp(repo, Policy(try_forks=False))
    paths = it.run(fi)
    check.absorb(it)
    gpos = fi.params()[0]
    inst, owner = ('P', gpos[1]), ('P', gpos[2])
    n = 0
    for p in paths:
        if p.status != 'return':
            continue
        n += 1
        v = p.value
        key = '%s|returns' % fi.key
        subj = None
        if v[0] == 'C' and str(v[1]).endswith(':forged_signature') and len(v[2]) == 1:
            subj = v[2][0]
        lits = dict(p.lits)
        isn = lits.get(('isnone', inst))
        ok = subj is not None and (subj == ('IF', ('lit', ('isnone', inst), True), owner, inst) or subj == ('IF', ('lit', ('isnone', inst), False), inst, owner)
                                   or (isn is True and subj == owner) or (isn is False and subj == inst))
        if ok:
            check.holds(rule, site_of(fi, fi.node), 'as_forged returns signature(instance, or the owner class when accessed on the class)', key=key)
        else:
            check.violation(rule, site_of(fi, fi.node), 'as_forged returns %s' % show(v)[:120], key=key)
    check.floor(rule, 'returning paths of _AsForged.__get__', n, 1)


def rule_forger_dispatch(check, rule):
    """C04.R4e: set_signature_forger(obj, forger, emulate): without emulation the forger is stored on the object, which is returned; when
    that fails and emulation is ruled out (`emulate is False`) the error is re-raised; otherwise the object is wrapped --
    `_ForgerWrapper(obj, forger)` for None/True, `emulate(obj, forger)` for a callable, arguments in that order (documented)."""
    repo = check.repo
    fi = repo.func('specifiers:set_signature_forger')
    check.analysed(fi)
    it = Interp(repo, Policy(try_forks=True))
    paths = it.run(fi)
    check.absorb(it)
    pos = fi.params()[0]
    obj, forger, emulate = [('P', x) for x in pos[:3]]
    seen = set()
    n = 0
    for p in paths:
        lits = dict(p.lits)
        failed = any(a[0] == 'raises' and pol for a, pol in p.lits)
        em_truthy = lits.get(('truthy', emulate))
        is_false = lits.get(('is', K(False), emulate), lits.get(('is', emulate, K(False))))
        key = 'set_signature_forger|truthy=%s,failed=%s,isfalse=%s|%s' % (em_truthy, failed, is_false, p.status)
        node = [e for e in p.effects if e.kind in ('return', 'raise')][-1].node if [e for e in p.effects if e.kind in ('return', 'raise')] else fi.node
        st = site_of(fi, node)
        msg = None
        if p.status == 'return':
            v = p.value
            if v == obj:
                stores = [e for e in p.effects if e.kind == 'store_attr' and e.target == obj and e.op == '_sigtools__forger']
                if failed:
                    msg = 'the object is returned although storing the forger on it failed'
                elif not stores or stores[-1].args[0] != forger:
                    msg = 'the object is returned without the forger stored as _sigtools__forger'
                elif em_truthy is True:
                    msg = 'emulate=True must wrap the object, not store the forger on it'
            else:
                calls = [e for e in p.effects if e.kind == 'call' and e.result == v]
                if not calls:
                    msg = 'returns %s' % show(v)[:60]
                else:
                    c = calls[-1]
                    a = tuple(c.args)
                    if a[:2] != (obj, forger) or c.kws:
                        msg = 'the wrapper is built from (%s), expected (obj, forger) in that order' % ', '.join(show(x)[:20] for x in a)
                    elif is_false is True:
                        msg = 'emulate=False must not wrap the object'
            if msg is None and is_false is True and failed:
                msg = 'emulate=False: a failure to store the forger must be re-raised'
        elif p.status == 'raise':
            if not (failed and is_false is True):
                msg = 'raises on a path where the object could be wrapped'
        if key in seen and msg is None:
            continue
        seen.add(key)
        n += 1
        if msg:
            check.violation(rule, st, 'set_signature_forger: %s' % msg, key=key, guards=' & '.join(show_lit(l) for l in p.lits)[:200],
                            witness='set_signature_forger(obj, forger, emulate=callable) calls emulate(obj, forger)')
        else:
            check.holds(rule, st, 'set_signature_forger path conforms (store / wrap / re-raise)', key=key, guards=' & '.join(show_lit(l) for l in p.lits)[:200])
    check.floor(rule, 'paths of set_signature_forger', n, 4)


def rule_known_arguments_threaded(check, rule):
    """C06.R9 / C19.R5: the known arguments of the examined call (`args`, `kwargs`: bound positionals of a partial, `self` of a method) travel
    from forged_signature through the discovery dispatch to forward_signatures under their own names: at every call between package
    functions that both have parameters named `args` and `kwargs`, the callee's `args` is computed from the caller's `args` (and not
    from its `kwargs`), and the callee's `kwargs` is the caller's `kwargs`."""
    repo = check.repo
    n = 0
    for fi in repo.all_funcs():
        if fi.module.name not in ('_autoforwards', '_specifiers'):
            continue
        pos, vararg, kwonly, kwarg = fi.params()
        if not ('args' in pos + kwonly and 'kwargs' in pos + kwonly):
            continue
        it = Interp(repo, Policy())
        try:
            paths = it.run(fi)
        except Inconclusive:
            continue
        check.analysed(fi)
        A, K_ = ('P', 'args'), ('P', 'kwargs')
        seen = set()
        for p in paths:
            for e, g in walk_effects(p.effects):
                if e.kind != 'call' or not isinstance(e.op, str) or ':' not in e.op:
                    continue
                callee = repo.func(e.op, required=False)
                if callee is None:
                    continue
                cpos, cvar, ckw, ckwarg = callee.params()
                if not ('args' in cpos + ckw and 'kwargs' in cpos + ckw):
                    continue
                b = _bind(callee, e.args, e.kws)
                if b is None:
                    continue
                key = 'known-args|%s->%s' % (fi.key, callee.key)
                if key in seen:
                    continue
                seen.add(key)
                n += 1
                ba, bk = b.get('args'), b.get('kwargs')
                problems = []
                if ba is not None and mentions(ba, K_) and not mentions(ba, A):
                    problems.append('the callee\'s `args` is computed from `kwargs` (%s)' % show(ba)[:40])
                if bk is not None and mentions(bk, A) and not mentions(bk, K_):
                    problems.append('the callee\'s `kwargs` is computed from `args` (%s)' % show(bk)[:40])
                if ba is not None and not mentions(ba, A) and not mentions(ba, K_) and ba[0] == 'P':
                    problems.append('the callee\'s `args` is %s' % show(ba)[:40])
                st = site_of(fi, e.node)
                if problems:
                    check.violation(rule, st, '%s -> %s: %s' % (fi.name, callee.name, '; '.join(problems)), key=key,
                                    witness='partial(wrapper, callee): the bound positional must resolve the callee parameter')
                else:
                    check.holds(rule, st, '%s hands its known arguments on to %s under their own names' % (fi.name, callee.name), key=key)
    check.floor(rule, 'calls threading the known arguments', n, 5)


def rule_forged_visible_to_inspect(check, rule):
    """C13.R7 (D46): "its reported signature, also as seen by inspect.signature".  inspect knows nothing of sigtools' forgers; an object shows
    inspect its forged signature through `__signature__ = specifiers.as_forged`.  Every class of wrappers.py whose instances carry a forger
    -- it calls set_signature_forger on itself, or defines/assigns `_sigtools__forger` -- and are callable has that class attribute
    (its own or inherited from a class of the package)."""
    import ast as _ast
    repo = check.repo
    m = repo.module('wrappers')
    n = 0
    for ci in m.classes.values():
        callable_ = repo.lookup_method(ci, '__call__') is not None
        forged = False
        for meth in ci.methods.values():
            pos = meth.params()[0]
            selfn = pos[0] if pos else None
            for x in _ast.walk(meth.node):
                if isinstance(x, _ast.Call) and norm(x.func).split('.')[-1] == 'set_signature_forger' and x.args and isinstance(x.args[0], _ast.Name) \
                        and x.args[0].id == selfn:
                    forged = True
                if isinstance(x, _ast.Attribute) and x.attr == '_sigtools__forger' and isinstance(x.ctx, _ast.Store) and isinstance(x.value, _ast.Name) \
                        and x.value.id == selfn:
                    forged = True
        if '_sigtools__forger' in ci.methods or '_sigtools__forger' in ci.assigns:
            forged = True
        if not (forged and callable_):
            continue
        n += 1
        check.analysed(ci.methods.get('__call__') or list(ci.methods.values())[0])
        key = 'inspect-visible|%s' % ci.name
        st = '%s:%d %s' % (m.relpath, ci.node.lineno, ci.key)
        has = False
        for c in repo.mro(ci):
            v = c.assigns.get('__signature__')
            if v is not None and norm(v).split('.')[-1] == 'as_forged':
                has = True
        if has:
            check.holds(rule, st, '%s carries a forger and shows it to inspect through __signature__ = as_forged' % ci.name, key=key)
        else:
            check.violation(rule, st, '%s carries a forger but has no `__signature__ = specifiers.as_forged`: inspect.signature reports the signature of '
                            'its __call__ (*args/**kwargs), which accepts calls the combined functions reject' % ci.name, key=key,
                            witness='inspect.signature(wrappers.Combination(f, g)) is (arg, *args, **kwargs) for f(arg, y), g(arg, y)')
    check.floor(rule, 'forger-carrying callable classes of wrappers.py', n, 2)


def rule_transparent_receiver(check, rule, module, classes=None):
    """(D53, known) "accepts exactly the calls that signature accepts" / "returns exactly what the hand-written composition returns for every
    call".  A pass-through `__call__(self, ..., *args, **kwargs)` that hands `**kwargs` on to the user's function takes every keyword the
    advertised signature accepts -- except the names of its own positional-or-keyword parameters: `f(self=1)` for a function with a
    parameter (or a **kwargs) that takes `self` fails with "got multiple values for argument 'self'" before the body runs.  Each such
    method declares its own parameters positional-only (`/`), or takes them out of `*args` itself."""
    import ast as _ast
    repo = check.repo
    m = repo.module(module)
    n = 0
    for ci in m.classes.values():
        if classes is not None and ci.name not in classes:
            continue
        meth = ci.methods.get('__call__')
        if meth is None:
            continue
        a = meth.node.args
        if a.kwarg is None:
            continue
        forwards = any(isinstance(c, _ast.Call) and any(k.arg is None and isinstance(k.value, _ast.Name) and k.value.id == a.kwarg.arg for k in c.keywords)
                       for c in _ast.walk(meth.node))
        if not forwards:
            continue
        n += 1
        check.analysed(meth)
        named = [x.arg for x in a.args]
        key = 'receiver-name|%s.%s' % (ci.name, meth.name)
        st = '%s %s' % (meth.loc(), meth.key)
        if named:
            check.violation(rule, st, '%s.__call__(%s, *%s, **%s) hands **%s on, but a keyword named %s can never reach the wrapped function: it collides '
                            'with the method\'s own parameter' % (ci.name, ', '.join(named), a.vararg.arg if a.vararg else '', a.kwarg.arg, a.kwarg.arg,
                                                                  ' / '.join(repr(x) for x in named)), key=key,
                            witness="@kwoargs('b')\ndef g(a, b, **kwargs): ...\ng(1, b=2, self=3) raises TypeError: got multiple values for argument 'self'")
        else:
            check.holds(rule, st, '%s.__call__ has no positional-or-keyword parameter of its own: every keyword reaches the wrapped function' % ci.name,
                        key=key)
    check.floor(rule, 'pass-through __call__ methods of %s.py' % module, n, 1)
