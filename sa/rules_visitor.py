"""C05/C06 -- the AST visitor of automatic discovery as an object of analysis.

`CallListerVisitor` is itself a static analyser; its soundness is an
exhaustiveness question over the Python grammar (E11) plus a handful of guard
tables (E3)."""
import ast
import re
import sys

from .index import Inconclusive, norm
from .interp import Interp, Policy, show, show_lit, walk_effects, K, NONE, subterms, mentions
from .callgraph import _own_nodes, resolve_once
from .rules_embed import _bind

AF = '_autoforwards'
VIS = AF + ':CallListerVisitor'


def site_of(fi, node):
    return '%s %s' % (fi.loc(node), fi.key)


# ---------------------------------------------------------------------------
# E11 grammar metadata of the interpreter that runs the checker

def grammar():
    """node class name -> [(field, type, quantifier)] from the ASDL signature"""
    out = {}
    for name, c in sorted(vars(ast).items()):
        if not (isinstance(c, type) and issubclass(c, ast.AST)) or not getattr(c, '_fields', None):
            continue
        ft = getattr(c, '_field_types', None)
        fields = []
        if ft:
            for f in c._fields:
                t = ft.get(f)
                txt = getattr(t, '__name__', None) or str(t)
                q = ''
                s = str(t)
                if 'list[' in s:
                    q = '*'
                elif 'None' in s or 'Optional' in s:
                    q = '?'
                m = re.search(r'(identifier|str|arg|expr|stmt|arguments|alias|pattern|type_param)', s)
                base = m.group(1) if m else txt
                if base == 'str':
                    base = 'identifier'
                fields.append((f, base, q))
        else:
            doc = (c.__doc__ or '').replace('\n', ' ')
            m = re.match(r'\s*%s\((.*)\)\s*$' % re.escape(name), doc)
            if not m:
                continue
            for part in m.group(1).split(','):
                part = part.strip()
                if not part:
                    continue
                ty, fn = part.rsplit(' ', 1)
                q = ''
                if ty.endswith('*') or ty.endswith('?'):
                    q = ty[-1]
                    ty = ty[:-1]
                fields.append((fn, ty, q))
        out[name] = fields
    return out


# every identifier-typed field of the grammar must be classified here; an
# unclassified one (new Python) makes the rule INCONCLUSIVE, never a pass
IDENT_FIELDS = {
    ('FunctionDef', 'name'): ('binds', 'a nested `def NAME` rebinds NAME in the enclosing scope'),
    ('AsyncFunctionDef', 'name'): ('binds', 'a nested `async def NAME` rebinds NAME'),
    ('ClassDef', 'name'): ('binds', 'a nested `class NAME` rebinds NAME'),
    ('ExceptHandler', 'name'): ('binds', '`except E as NAME` rebinds NAME and deletes it afterwards'),
    ('alias', 'name'): ('binds', '`import NAME` rebinds NAME'),
    ('alias', 'asname'): ('binds', '`import x as NAME` rebinds NAME'),
    ('MatchAs', 'name'): ('binds', '`case ... as NAME` / capture pattern rebinds NAME'),
    ('MatchStar', 'name'): ('binds', '`case [*NAME]` rebinds NAME'),
    ('MatchMapping', 'rest'): ('binds', '`case {**NAME}` rebinds NAME'),
    ('Name', 'id'): ('generic', 'reached through visit_Name (Store/Del context)'),
    ('arg', 'arg'): ('params', 'handled by process_parameters'),
    ('Global', 'names'): ('nobind', 'declares module scope; a parameter cannot be declared global (SyntaxError)'),
    ('Nonlocal', 'names'): ('nonlocal', 'handled by visit_Nonlocal'),
    ('Attribute', 'attr'): ('nobind', 'attribute name'),
    ('ImportFrom', 'module'): ('nobind', 'module path'),
    ('MatchClass', 'kwd_attrs'): ('nobind', 'attribute names looked up on the subject'),
    ('keyword', 'arg'): ('nobind', 'keyword name at a call site'),
    ('TypeVar', 'name'): ('typeparam', 'type parameter of a nested def/class: binds in its annotation scope'),
    ('ParamSpec', 'name'): ('typeparam', 'type parameter'),
    ('TypeVarTuple', 'name'): ('typeparam', 'type parameter'),
}

SCOPE_OPENERS = ['FunctionDef', 'AsyncFunctionDef', 'Lambda', 'ClassDef', 'ListComp', 'SetComp', 'DictComp', 'GeneratorExp']
LOOPS = ['For', 'AsyncFor', 'While']
COMPREHENSIONS = ['ListComp', 'SetComp', 'DictComp', 'GeneratorExp']


class VisitorFacts(object):
    def __init__(self, repo):
        self.repo = repo
        self.ci = repo.cls(VIS)
        self.handlers = {}     # node class name -> FuncInfo
        self._inlined = {}
        for name, fi in self.ci.methods.items():
            if name.startswith('visit_'):
                self.handlers[name[6:]] = fi
        for name, v in self.ci.assigns.items():
            # visit_Lambda = visit_FunctionDef
            if name.startswith('visit_') and isinstance(v, ast.Name) and v.id.startswith('visit_') and v.id[6:] in self.handlers:
                self.handlers[name[6:]] = self.handlers[v.id[6:]]

    def handler(self, cls):
        h = self.handlers.get(cls)
        if h is not None and id(h) not in self._inlined:
            self._inlined[id(h)] = self._inline_delegation(h)
        return self._inlined[id(h)] if h is not None else None

    def _inline_delegation(self, h):
        """a handler that hands the node to another method of the visitor (`self.helper(node, [node.elt])`, possibly between other
        statements: a namespace pushed before and popped in a `finally`) is read as that method's body, with the arguments put in place
        of its parameters, spliced in where the call stands (one level; the rules look at what is done with `node.<field>`)"""
        from .index import FuncInfo
        pos = h.params()[0]
        if len(pos) < 2:
            return h
        fresh_h = ast.parse(ast.unparse(h.node)).body[0]
        sites = []
        for par in ast.walk(fresh_h):
            for field in ('body', 'orelse', 'finalbody'):
                blk = getattr(par, field, None)
                if not isinstance(blk, list):
                    continue
                for i, st in enumerate(blk):
                    if isinstance(st, (ast.Expr, ast.Return)) and isinstance(st.value, ast.Call):
                        call = st.value
                        if isinstance(call.func, ast.Attribute) and isinstance(call.func.value, ast.Name) and call.func.value.id == pos[0] \
                                and call.func.attr not in ('visit', 'generic_visit') and call.func.attr in self.ci.methods \
                                and self.ci.methods[call.func.attr] is not h and call.args and norm(call.args[0]) == pos[1]:
                            sites.append((blk, i, call))
        if len(sites) != 1:
            return h
        blk, i, call = sites[0]
        m = self.ci.methods[call.func.attr]
        if any(isinstance(a_, ast.Starred) for a_ in call.args) or any(k.arg is None for k in call.keywords):
            return h
        mpos = m.params()[0]
        if m.params()[1] or m.params()[3]:
            return h
        subst = dict(zip(mpos[1:], call.args))
        for k in call.keywords:
            if k.arg not in mpos[1:] or k.arg in subst:
                return h
            subst[k.arg] = k.value
        if set(subst) != set(mpos[1:]):
            return h
        fresh = ast.parse(ast.unparse(m.node)).body[0]
        stored = set(n.id for n in ast.walk(fresh) if isinstance(n, ast.Name) and isinstance(n.ctx, ast.Store))
        if stored & set(subst):
            return h          # the helper rebinds a parameter: not a plain substitution

        class Sub(ast.NodeTransformer):
            def visit_Name(self, n):
                if n.id in subst and isinstance(n.ctx, ast.Load):
                    return ast.parse(ast.unparse(subst[n.id]), mode='eval').body
                if n.id == mpos[0]:
                    n.id = pos[0]
                return n
        fresh = Sub().visit(fresh)
        body = [s_ for s_ in fresh.body if not (isinstance(s_, ast.Expr) and isinstance(s_.value, ast.Constant))]
        # positions: those of the helper, which is where the code is
        off = m.node.lineno - 1
        for s_ in body:
            for n in ast.walk(s_):
                if hasattr(n, 'lineno'):
                    n.lineno += off
                if getattr(n, 'end_lineno', None) is not None:
                    n.end_lineno += off
        off_h = h.node.lineno - 1
        for n in ast.walk(fresh_h):
            if hasattr(n, 'lineno'):
                n.lineno += off_h
            if getattr(n, 'end_lineno', None) is not None:
                n.end_lineno += off_h
        blk[i:i + 1] = body
        ast.fix_missing_locations(fresh_h)
        for par in ast.walk(fresh_h):
            for ch in ast.iter_child_nodes(par):
                ch._parent = par
        fresh_h._parent = getattr(h.node, '_parent', None)
        return FuncInfo(h.module, h.qualname, fresh_h, cls=h.cls, parent=h.parent)

    def reads_field(self, fi, field):
        nodep = fi.params()[0][1] if len(fi.params()[0]) > 1 else None
        for n in ast.walk(fi.node):
            if isinstance(n, ast.Attribute) and n.attr == field and isinstance(n.value, ast.Name) and n.value.id == nodep:
                return True
            # getattr(node, 'name', ...) style
            if isinstance(n, ast.Call) and isinstance(n.func, ast.Name) and n.func.id == 'getattr' and len(n.args) >= 2 \
                    and isinstance(n.args[1], ast.Constant) and n.args[1].value == field:
                return True
        return False

    def writes_namespace(self, fi, _depth=0):
        selfn = fi.params()[0][0]
        # through a helper method of the visitor that records the rebinding
        if _depth == 0:
            for n in ast.walk(fi.node):
                if isinstance(n, ast.Call) and isinstance(n.func, ast.Attribute) and isinstance(n.func.value, ast.Name) and n.func.value.id == selfn:
                    m = self.ci.methods.get(n.func.attr)
                    if m is not None and m is not fi and not n.func.attr.startswith('visit') and n.func.attr != 'generic_visit' \
                            and self.writes_namespace(m, 1):
                        return True
        for n in ast.walk(fi.node):
            if isinstance(n, ast.Subscript) and isinstance(n.ctx, ast.Store) and norm(n.value) == '%s.namespace' % selfn:
                return True
            if isinstance(n, ast.Call) and isinstance(n.func, ast.Attribute) and norm(n.func.value) == '%s.namespace' % selfn \
                    and n.func.attr in ('add_nonlocal', '__setitem__', 'update', 'invalidate', 'set'):
                return True
            if isinstance(n, ast.Call) and isinstance(n.func, ast.Attribute) and isinstance(n.func.value, ast.Name) and n.func.value.id == selfn \
                    and n.func.attr in ('invalidate', '_invalidate', 'rebind', '_rebind', 'bind_name', '_bind_name', 'process_parameters'):
                return True
        return False

    def continues_traversal(self, fi):
        """does the handler visit children (generic_visit / self.visit on fields)?"""
        selfn = fi.params()[0][0]
        for n in ast.walk(fi.node):
            if isinstance(n, ast.Call) and isinstance(n.func, ast.Attribute) and isinstance(n.func.value, ast.Name) and n.func.value.id == selfn \
                    and n.func.attr in ('generic_visit', 'visit'):
                return True
        return False

    def pushes_namespace(self, fi):
        selfn = fi.params()[0][0]
        for n in ast.walk(fi.node):
            if isinstance(n, ast.Assign) and any(norm(t) == '%s.namespace' % selfn for t in n.targets) and isinstance(n.value, ast.Call) \
                    and norm(n.value.func).endswith('Namespace'):
                return True
        return False


def rule_binders(check, rule):
    """C05.R1"""
    vf = VisitorFacts(check.repo)
    check.analysed(check.repo.func(VIS + '.__init__'))
    g = grammar()
    n = 0
    for cname, fields in sorted(g.items()):
        for fn, ty, q in fields:
            if ty != 'identifier':
                continue
            n += 1
            key = 'binder|%s.%s' % (cname, fn)
            cl = IDENT_FIELDS.get((cname, fn))
            st = '%s:%d %s' % (vf.ci.module.relpath, vf.ci.node.lineno, vf.ci.key)
            if cl is None:
                check.inconclusive(rule, st, 'identifier field %s.%s of this interpreter\'s grammar (Python %d.%d) is not classified as binding / '
                                   'not binding' % (cname, fn, sys.version_info[0], sys.version_info[1]), key=key)
                continue
            kind, why = cl
            if kind in ('nobind', 'generic', 'params', 'typeparam'):
                if kind == 'generic':
                    h = vf.handler('Name')
                    if h is None:
                        check.violation(rule, st, 'no visit_Name handler: assignments to *args/**kwargs are not noticed', key=key,
                                        witness='kwargs = {} before inner(*args, **kwargs)')
                    else:
                        check.holds(rule, site_of(h, h.node), 'Name.id: reached through visit_Name', key=key)
                else:
                    check.holds(rule, st, '%s.%s does not bind a name that can alias an outer star parameter (%s)' % (cname, fn, why), key=key,
                                nontrivial=False)
                continue
            if kind == 'nonlocal':
                h = vf.handler(cname)
                if h is not None and vf.reads_field(h, fn) and vf.writes_namespace(h):
                    check.holds(rule, site_of(h, h.node), 'visit_%s links the declared names to the defining namespace' % cname, key=key)
                else:
                    check.violation(rule, st, 'nonlocal declarations are not linked to the defining namespace', key=key,
                                    witness='nested def with `nonlocal kwargs; kwargs = {}` before the forwarding call')
                continue
            h = vf.handler(cname)
            if h is None:
                check.violation(rule, st, 'the visitor has no handler for %s, whose field %r binds a name: %s; the generic traversal never looks at '
                                'identifier fields, so the rebinding goes unnoticed and the callee\'s parameters are still advertised' % (cname, fn, why),
                                key=key, witness=_BIND_WITNESS.get((cname, fn), why))
            elif not vf.reads_field(h, fn):
                check.violation(rule, site_of(h, h.node), 'visit_%s never reads node.%s, which binds a name: %s' % (cname, fn, why), key=key,
                                witness=_BIND_WITNESS.get((cname, fn), why))
            elif not vf.writes_namespace(h):
                check.violation(rule, site_of(h, h.node), 'visit_%s reads node.%s but does not record the rebinding in the namespace' % (cname, fn), key=key,
                                witness=_BIND_WITNESS.get((cname, fn), why))
            else:
                check.holds(rule, site_of(h, h.node), 'visit_%s records the name bound by node.%s' % (cname, fn), key=key)
    check.floor(rule, 'identifier fields of the grammar', n, 15)
    # no handler may cut the generic traversal above a Name without a reviewed reason
    for cname in sorted(vf.handlers):
        h = vf.handler(cname)
        if cname in ('Name', 'Nonlocal', 'Global'):
            continue
        key = 'traversal|visit_%s' % cname
        leaf = all(ty in ('identifier', 'int', 'string', 'constant', 'expr_context', 'boolop', 'operator', 'unaryop', 'cmpop')
                   for fn, ty, q in g.get(cname, []))
        if leaf:
            check.holds(rule, site_of(h, h.node), '%s nodes have no child nodes to traverse' % cname, key=key, nontrivial=False)
        elif vf.continues_traversal(h) or _calls_method(h, ('process_Call', 'process_parameters')):
            check.holds(rule, site_of(h, h.node), 'visit_%s continues the traversal of its children' % cname, key=key)
        elif cname == 'Attribute':
            # (until D41 this rule accepted a visit_Attribute that stops, on the belief that reading an attribute of *args/**kwargs cannot
            # change it: `pop = kwargs.pop; pop('a')` does, and the object of the access may be a forwarding call)
            check.violation(rule, site_of(h, h.node), 'visit_Attribute stops: an attribute taken from **kwargs without being called (pop = kwargs.pop) '
                            'goes unnoticed, and so does whatever the object of the access is (a forwarding call: inner(*args, **kwargs).real)',
                            key=key, witness="def f(*args, **kwargs):\n    pop = kwargs.pop\n    pop('a', None)\n    return inner(*args, **kwargs)")
        else:
            check.violation(rule, site_of(h, h.node), 'visit_%s neither visits its children nor calls generic_visit: names rebound below a %s node '
                            'go unnoticed' % (cname, cname), key=key, witness='a rebinding nested inside a %s node' % cname)


_BIND_WITNESS = {
    ('ExceptHandler', 'name'): 'try: ... except E as kwargs: pass  -- before inner(*args, **kwargs)',
    ('alias', 'name'): 'import kwargs  -- before inner(*args, **kwargs)',
    ('alias', 'asname'): 'import os as kwargs  -- before inner(*args, **kwargs)',
    ('FunctionDef', 'name'): 'def args(): ...  -- before inner(*args, **kwargs)',
    ('AsyncFunctionDef', 'name'): 'async def args(): ...  -- before inner(*args, **kwargs)',
    ('ClassDef', 'name'): 'class kwargs: ...  -- before inner(*args, **kwargs)',
    ('MatchAs', 'name'): 'match x: case kwargs: inner(*args, **kwargs)',
    ('MatchStar', 'name'): 'match x: case [*args]: inner(*args, **kwargs)',
    ('MatchMapping', 'rest'): 'match x: case {**kwargs}: inner(*args, **kwargs)',
}


def _calls_method(fi, names):
    selfn = fi.params()[0][0]
    for n in ast.walk(fi.node):
        if isinstance(n, ast.Call) and isinstance(n.func, ast.Attribute) and isinstance(n.func.value, ast.Name) and n.func.value.id == selfn \
                and n.func.attr in names:
            return True
    return False


def rule_parameter_fields(check, rule):
    """C05.R2: process_parameters reads every arg-typed field of ast.arguments"""
    repo = check.repo
    fi = repo.func(VIS + '.process_parameters')
    check.analysed(fi)
    g = grammar()
    argsp = fi.params()[0][1]
    n = 0
    for fn, ty, q in g.get('arguments', []):
        if ty != 'arg':
            continue
        n += 1
        key = 'process_parameters|%s' % fn
        reads = [x for x in ast.walk(fi.node) if isinstance(x, ast.Attribute) and x.attr == fn and isinstance(x.value, ast.Name) and x.value.id == argsp]
        reads += [x for x in ast.walk(fi.node) if isinstance(x, ast.Call) and isinstance(x.func, ast.Name) and x.func.id == 'getattr' and len(x.args) >= 2
                  and isinstance(x.args[0], ast.Name) and x.args[0].id == argsp and isinstance(x.args[1], ast.Constant) and x.args[1].value == fn]
        # a read that sits in a branch dead on this interpreter does not count
        live = [x for x in reads if not _dead_on_this_version(x)]
        if live:
            check.holds(rule, site_of(fi, live[0]), 'parameters in arguments.%s are entered into the namespace' % fn, key=key)
        else:
            check.violation(rule, site_of(fi, fi.node), 'process_parameters never reads arguments.%s: a nested function\'s %s shadowing *args/'
                            '**kwargs is treated as the outer star parameter' % (fn, 'positional-only parameter' if fn == 'posonlyargs' else fn),
                            key=key, witness='def outer(*args, **kwargs):\n    def sub(args, /): inner(*args, **kwargs)')
    check.floor(rule, 'arg-typed fields of ast.arguments', n, 5)
    # named parameters of a *nested* function are not arguments of the examined function: their marker must not be an Arg, or a
    # nested parameter spelled like a known argument (partial(outer, target), self of a bound method) resolves to that value (round 8)
    mainp = fi.params()[0][2] if len(fi.params()[0]) > 2 else None
    from .rules_classes import dominated_by
    for lp in [x for x in ast.walk(fi.node) if isinstance(x, ast.For)]:
        fields = [a.attr for a in ast.walk(lp.iter) if isinstance(a, ast.Attribute) and a.attr in ('posonlyargs', 'args', 'kwonlyargs')]
        fields += [c.args[1].value for c in ast.walk(lp.iter) if isinstance(c, ast.Call) and norm(c.func) == 'getattr' and len(c.args) >= 2
                   and isinstance(c.args[1], ast.Constant) and c.args[1].value in ('posonlyargs', 'args', 'kwonlyargs')]
        if not fields or _dead_on_this_version(lp):
            continue
        for st_ in ast.walk(lp):
            if not (isinstance(st_, ast.Assign) and any(isinstance(t, ast.Subscript) and norm(t.value).endswith('.namespace') for t in st_.targets)):
                continue
            key = 'process_parameters|nested-marker|%s' % '+'.join(sorted(set(fields)))
            v = st_.value
            by_main = mainp is not None and ((isinstance(v, ast.IfExp) and mainp in norm(v.test)) or
                                             dominated_by(fi, st_, lambda t, pol: mainp in norm(t)))
            makes_arg = any(isinstance(c, ast.Call) and norm(c.func) == 'Arg' for c in ast.walk(v))
            if isinstance(v, ast.IfExp) and mainp is not None and mainp in norm(v.test):
                # the arm taken for the examined function itself makes the Arg, the other one does not
                neg = isinstance(v.test, ast.UnaryOp) and isinstance(v.test.op, ast.Not)
                main_arm, nested_arm = (v.orelse, v.body) if neg else (v.body, v.orelse)
                if any(isinstance(c, ast.Call) and norm(c.func) == 'Arg' for c in ast.walk(nested_arm)) or not any(
                        isinstance(c, ast.Call) and norm(c.func) == 'Arg' for c in ast.walk(main_arm)):
                    by_main = False
            if makes_arg and not by_main:
                check.violation(rule, site_of(fi, st_), 'parameters in arguments.%s are entered as known arguments (Arg) also for a nested function: a nested '
                                'parameter spelled like a known argument of the examined function is resolved to that argument\'s value'
                                % '/'.join(sorted(set(fields))), key=key,
                                witness='partial(outer, target) with def outer(target, *args, **kwargs): run = lambda *, target=other: target(*args, **kwargs)')
            else:
                check.holds(rule, site_of(fi, st_), 'parameters in arguments.%s of a nested function are entered as unknown values'
                            % '/'.join(sorted(set(fields))), key=key)
    # only *args gets the immutable marker
    it = Interp(repo, Policy())
    paths = it.run(fi)
    check.absorb(it)
    imm = []
    for p in paths:
        for e, g_ in walk_effects(p.effects):
            if e.kind == 'call' and e.op == '.set_immutable_value' or (e.kind == 'call' and str(e.op).endswith('set_immutable_value')):
                imm.append(e)
    key = 'process_parameters|immutable'
    argst = ('P', argsp)
    bad = [e for e in imm if not any(mentions(a, ('A', argst, 'vararg')) for a in e.args)]
    if bad:
        check.violation(rule, site_of(fi, bad[0].node), 'a parameter other than *args is marked immutable: **kwargs (a dict) can be mutated in place, '
                        'and named parameters are not star parameters', key=key, witness='kwargs.pop("x") before inner(*args, **kwargs)')
    elif imm:
        check.holds(rule, site_of(fi, imm[0].node), 'only *args (a tuple) is marked immutable', key=key)
    else:
        check.holds(rule, site_of(fi, fi.node), 'nothing is marked immutable (conservative)', key=key, nontrivial=False)


def _dead_on_this_version(node):
    n = node
    while n is not None:
        p = getattr(n, '_parent', None)
        if isinstance(p, ast.If):
            from .interp import _version_compare
            v = _version_compare(p.test) if isinstance(p.test, ast.Compare) else None
            if v is True and n in p.orelse:
                return True
            if v is False and n in p.body:
                return True
        n = p
    return False


def rule_scopes(check, rule):
    """C05.R3: every scope-opening node class pushes a namespace or is conservative"""
    vf = VisitorFacts(check.repo)
    g = grammar()
    for cname in SCOPE_OPENERS:
        if cname not in g and cname != 'Lambda':
            continue
        key = 'scope|%s' % cname
        h = vf.handler(cname)
        st = '%s:%d %s' % (vf.ci.module.relpath, vf.ci.node.lineno, vf.ci.key)
        if cname in ('FunctionDef', 'AsyncFunctionDef', 'Lambda'):
            if h is None:
                check.violation(rule, st, 'no handler for %s: its parameters are never entered into a namespace of their own, so a parameter named '
                                'like the outer *args/**kwargs is taken for the outer one' % cname, key=key,
                                witness='async def sub(args): return inner(*args, **kwargs)  inside the examined function' if cname == 'AsyncFunctionDef'
                                else 'nested %s with a parameter named args' % cname)
            elif not vf.pushes_namespace(h) or not _calls_method(h, ('process_parameters',)):
                check.violation(rule, site_of(h, h.node), 'visit_%s does not push a namespace and process the parameters' % cname, key=key,
                                witness='def sub(args): inner(*args)')
            else:
                # the namespace must be popped again
                pops = [n for n in ast.walk(h.node) if isinstance(n, ast.Assign) and any(norm(t).endswith('.namespace') for t in n.targets)
                        and norm(n.value).endswith('.namespace.parent')]
                if pops:
                    check.holds(rule, site_of(h, h.node), 'visit_%s: namespace pushed, parameters processed, namespace popped' % cname, key=key)
                else:
                    check.violation(rule, site_of(h, h.node), 'visit_%s pushes a namespace but never pops it' % cname, key=key,
                                    witness='a rebinding after a nested def is recorded in the wrong scope')
        elif cname == 'ClassDef':
            if h is None:
                check.holds(rule, st, 'class bodies are visited in the enclosing namespace: bindings there only over-approximate rebinding (conservative)',
                            key=key)
            elif vf.continues_traversal(h):
                check.holds(rule, site_of(h, h.node), 'visit_ClassDef keeps traversing the body', key=key)
            else:
                check.violation(rule, site_of(h, h.node), 'visit_ClassDef skips the class body', key=key)
        else:
            # comprehensions: targets are Name(Store) nodes reached generically -> conservative for *binding*
            if h is None or vf.continues_traversal(h):
                check.holds(rule, st if h is None else site_of(h, h.node), '%s targets are Name(Store) nodes: invalidated in the enclosing namespace '
                            '(conservative); evaluation order is rule R4' % cname, key=key)
            else:
                check.violation(rule, site_of(h, h.node), 'visit_%s does not traverse its generators/element' % cname, key=key)


def rule_evaluation_order(check, rule):
    """C05.R4: comprehensions (element visited before the binding Python evaluates first) and loop back-edges"""
    vf = VisitorFacts(check.repo)
    st0 = '%s:%d %s' % (vf.ci.module.relpath, vf.ci.node.lineno, vf.ci.key)
    for cname in COMPREHENSIONS:
        cls = getattr(ast, cname)
        fields = list(cls._fields)
        key = 'order|%s' % cname
        h = vf.handler(cname)
        gen_first_generic = fields.index('generators') < min(fields.index(f) for f in fields if f in ('elt', 'key', 'value'))
        if h is None:
            if gen_first_generic:
                check.holds(rule, st0, '%s._fields lists generators first: generic traversal follows evaluation order' % cname, key=key)
            else:
                check.violation(rule, st0, 'no handler for %s: generic_visit follows _fields %s and reaches the element (a possible forwarding call) '
                                'before the `for` targets that Python binds first, so `[inner(*args, **kwargs) for args in xs]` still advertises '
                                'inner\'s parameters' % (cname, tuple(fields)), key=key,
                                witness='[inner(*args, **kwargs) for args in xs]')
        else:
            order = _visit_order(h)
            gi = [i for i, f in enumerate(order) if f == 'generators']
            ei = [i for i, f in enumerate(order) if f in ('elt', 'key', 'value')]
            if gi and ei and min(gi) < min(ei) or (gi and not ei and _prescans_stores(h)):
                check.holds(rule, site_of(h, h.node), 'visit_%s visits the generators before the element' % cname, key=key)
            elif _prescans_stores(h):
                check.holds(rule, site_of(h, h.node), 'visit_%s invalidates the names the comprehension binds before traversing it' % cname, key=key)
            else:
                check.violation(rule, site_of(h, h.node), 'visit_%s does not visit the generators before the element' % cname, key=key,
                                witness='[inner(*args, **kwargs) for args in xs]')
    # a comprehension is a loop too: its element (and conditions) run once per item, so what a later part of the element does to a name
    # has happened when a forwarding call earlier in it runs for the second item (D40)
    for cname in COMPREHENSIONS:
        h = vf.handler(cname)
        key = 'order|%s|backedge' % cname
        if h is None:
            continue        # (reported above)
        order = _visit_order(h)
        elems = [f for f in getattr(ast, cname)._fields if f in ('elt', 'key', 'value')]
        twice = all(order.count(f) >= 2 for f in elems) or _visits_body_twice(h)
        dels = [d_ for d_ in ast.walk(h.node) if isinstance(d_, ast.Delete) and any('calls' in norm(t_) for t_ in d_.targets)]
        trunc = [a_ for a_ in ast.walk(h.node) if isinstance(a_, ast.Assign) and any(isinstance(t_, ast.Subscript) and 'calls' in norm(t_.value)
                                                                                    for t_ in a_.targets)]
        marks = [a_ for a_ in ast.walk(h.node) if isinstance(a_, ast.Assign) and any('len(' in norm(a_.value) and 'calls' in norm(a_.value) for _ in [0])]
        visits = [c_ for c_ in ast.walk(h.node) if isinstance(c_, ast.Call) and isinstance(c_.func, ast.Attribute) and c_.func.attr in ('visit', 'generic_visit')]
        early = [c_ for c_ in visits if marks and c_.lineno < min(m_.lineno for m_ in marks)
                 and not (c_.args and norm(c_.args[0]).endswith('.iter'))]
        whole_c = [t_ for d_ in ast.walk(h.node) if isinstance(d_, ast.Delete) for t_ in d_.targets if isinstance(t_, ast.Attribute)]
        if whole_c:
            check.violation(rule, site_of(h, whole_c[0]), 'visit_%s deletes the attribute %s itself instead of truncating the list: the next use of it raises '
                            'AttributeError' % (cname, norm(whole_c[0])), key=key, witness='any function with a comprehension')
        elif twice and (dels or trunc) and early:
            # (D40b) what is visited before the mark is taken survives the discard and is visited again: recorded twice
            check.violation(rule, site_of(h, early[0]), 'visit_%s visits %s before it notes where the recorded calls end, and again in the second traversal: a '
                            'forwarding call there (a condition of the comprehension) is recorded twice' % (cname, norm(early[0].args[0]) if early[0].args else '?'),
                            key=key, witness='[x for x in xs if callee(*args, **kwargs)]: every source listed twice')
        elif not twice:
            check.violation(rule, site_of(h, h.node), 'visit_%s looks at the element once: a later part of it that mutates a name or hands it to other '
                            'code does not reach the forwarding call earlier in it, although it does from the second item on' % cname, key=key,
                            witness="[(inner(*args, **kwargs), kwargs.pop('b', None)) for _ in range(2)]")
        elif not (dels or trunc):
            check.violation(rule, site_of(h, h.node), 'visit_%s traverses the element twice and keeps the calls of both traversals' % cname, key=key)
        else:
            check.holds(rule, site_of(h, h.node), 'visit_%s accounts for the back-edge: the element is traversed twice and the calls of the first '
                        'traversal are dropped' % cname, key=key)
    for cname in LOOPS:
        key = 'order|%s' % cname
        h = vf.handler(cname)
        if h is None:
            check.violation(rule, st0, 'no handler for %s: the body is visited once in source order, so a rebinding later in the body does not reach '
                            'a forwarding call earlier in the body, although it does on the next iteration' % cname, key=key,
                            witness='for x in xs:\n    inner(*args, **kwargs)\n    kwargs = {}')
        elif _visits_body_twice(h):
            check.holds(rule, site_of(h, h.node), 'visit_%s accounts for the back-edge: the body is traversed twice, so the calls are recorded with '
                        'the names as a whole iteration leaves them' % cname, key=key)
            # the calls recorded by the first traversal must be dropped, or every forwarding call of a loop counts twice
            k2 = 'order|%s|discard' % cname
            dels = [d_ for d_ in ast.walk(h.node) if isinstance(d_, ast.Delete) and any('calls' in norm(t_) for t_ in d_.targets)]
            trunc = [a_ for a_ in ast.walk(h.node) if isinstance(a_, ast.Assign) and any(isinstance(t_, ast.Subscript) and 'calls' in norm(t_.value)
                                                                                        for t_ in a_.targets)]
            whole = [t_ for d_ in ast.walk(h.node) if isinstance(d_, ast.Delete) for t_ in d_.targets if isinstance(t_, ast.Attribute)]
            sliced = [norm(t_.value) for d_ in ast.walk(h.node) if isinstance(d_, ast.Delete) for t_ in d_.targets
                      if isinstance(t_, ast.Subscript) and isinstance(t_.slice, ast.Slice)]
            sliced += [norm(t_.value) for a_ in trunc for t_ in a_.targets if isinstance(t_, ast.Subscript)]
            deferred = sorted(set(norm(c_.func.value) for m_ in vf.ci.methods.values() for c_ in ast.walk(m_.node)
                                  if isinstance(c_, ast.Call) and isinstance(c_.func, ast.Attribute) and c_.func.attr == 'append'
                                  and isinstance(c_.func.value, ast.Attribute) and m_.name == 'visit_Call'))
            if whole:
                check.violation(rule, site_of(h, whole[0]), 'visit_%s deletes the attribute %s itself instead of truncating the list: the next use of it '
                                'raises AttributeError' % (cname, norm(whole[0])), key=k2, witness='any function with a loop')
            elif (dels or trunc) and all(any(d_.split('.')[-1] == s_.split('.')[-1] for s_ in sliced) for d_ in deferred):
                check.holds(rule, site_of(h, (dels or trunc)[0]), 'visit_%s drops what the first traversal recorded (calls%s)'
                            % (cname, ''.join(', ' + d_.split('.')[-1] for d_ in deferred)), key=k2)
            elif dels or trunc:
                check.violation(rule, site_of(h, (dels or trunc)[0]), 'visit_%s drops the calls of the first traversal but keeps what it deferred (%s): every '
                                'forwarding call inside a nested function in a loop is processed twice' % (cname, ', '.join(deferred)), key=k2)
            else:
                check.violation(rule, site_of(h, h.node), 'visit_%s traverses the body twice and keeps the calls of both traversals' % cname, key=k2)
        elif _prescans_stores(h):
            check.violation(rule, site_of(h, h.node), 'visit_%s invalidates up front only the names *rebound* in the loop: a later statement of the body '
                            'that mutates a name or hands it to other code (which invalidates it in straight-line code) does not reach the '
                            'forwarding call earlier in the body, although it does from the second iteration on' % cname, key=key,
                            witness="for i in range(2):\n    r = inner(*a, **k)\n    k['z'] = 1")
        else:
            check.violation(rule, site_of(h, h.node), 'visit_%s visits the body once without invalidating names rebound later in it' % cname, key=key,
                            witness='for x in xs:\n    inner(*args, **kwargs)\n    kwargs = {}')


def _visit_order(fi):
    """order in which a handler *visits* node.<field>: the field is named in the argument of a visit call, or in the iterable of a loop
    whose body visits what it iterates over (a loop emptied of its visit does not count)"""
    pos = fi.params()[0]
    selfn = pos[0] if pos else None
    nodep = pos[1] if len(pos) > 1 else None
    order = []

    def fields_in(expr):
        return [n.attr for n in ast.walk(expr) if isinstance(n, ast.Attribute) and isinstance(n.value, ast.Name) and n.value.id == nodep]

    def is_visit(c):
        return isinstance(c, ast.Call) and isinstance(c.func, ast.Attribute) and isinstance(c.func.value, ast.Name) and c.func.value.id == selfn \
            and c.func.attr in ('visit', 'generic_visit')

    def walk(stmts, bound):
        for st in stmts:
            if isinstance(st, ast.For):
                names = set(n.id for n in ast.walk(st.target) if isinstance(n, ast.Name))
                fs = fields_in(st.iter)
                inner_bound = dict(bound)
                for nm in names:
                    inner_bound[nm] = fs or [f for src in (n.id for n in ast.walk(st.iter) if isinstance(n, ast.Name)) for f in bound.get(src, [])]
                walk(st.body, inner_bound)
                walk(st.orelse, bound)
                continue
            if isinstance(st, (ast.If, ast.While)):
                walk(st.body, bound)
                walk(st.orelse, bound)
                continue
            if isinstance(st, ast.Try):
                for blk in [st.body, st.orelse, st.finalbody] + [h.body for h in st.handlers]:
                    walk(blk, bound)
                continue
            if isinstance(st, (ast.With, ast.AsyncWith)):
                walk(st.body, bound)
                continue
            for c in ast.walk(st):
                if is_visit(c) and c.args:
                    a = c.args[0]
                    if c.func.attr == 'generic_visit' and isinstance(a, ast.Name) and a.id == nodep:
                        order.extend(getattr(fi, '_generic_fields', []) or ['*'])
                    order.extend(fields_in(a))
                    for n in ast.walk(a):
                        if isinstance(n, ast.Name) and n.id in bound:
                            order.extend(bound[n.id])
    walk(fi.main_body, {})
    return order


def _prescans_stores(fi):
    """the handler invalidates every name bound anywhere below the node before it
    traverses it: a loop over ast.walk(node) (directly or in a helper it calls)
    feeding a namespace write, placed before generic_visit"""
    def walks(fnode):
        return any(isinstance(n, ast.Call) and norm(n.func) in ('ast.walk', 'walk') for n in ast.walk(fnode))
    selfn = fi.params()[0][0]
    nodep = fi.params()[0][1] if len(fi.params()[0]) > 1 else None
    for i, stmt in enumerate(fi.main_body):
        if not isinstance(stmt, ast.For):
            continue
        it = stmt.iter
        ok_iter = False
        if isinstance(it, ast.Call):
            if norm(it.func) in ('ast.walk', 'walk'):
                ok_iter = True
            elif isinstance(it.func, ast.Name):
                helper = fi.module.funcs.get(it.func.id)
                if helper is not None and walks(helper.node) and it.args and norm(it.args[0]) == nodep:
                    ok_iter = True
        vf = VisitorFacts(fi.module.repo)
        writes = any(isinstance(n, ast.Call) and isinstance(n.func, ast.Attribute) and isinstance(n.func.value, ast.Name) and n.func.value.id == selfn
                     and (n.func.attr == 'visit' or (vf.ci.methods.get(n.func.attr) is not None and vf.writes_namespace(vf.ci.methods[n.func.attr], 1)))
                     for n in ast.walk(stmt)) or \
            any(isinstance(n, ast.Subscript) and isinstance(n.ctx, ast.Store) and norm(n.value) == '%s.namespace' % selfn for n in ast.walk(stmt))
        later_traversal = any(isinstance(n, ast.Call) and norm(n.func) == '%s.generic_visit' % selfn for later in fi.main_body[i + 1:] for n in ast.walk(later))
        if ok_iter and writes and later_traversal:
            return True
    return False


def _visits_body_twice(fi):
    nodep = fi.params()[0][1] if len(fi.params()[0]) > 1 else None
    c = 0
    for n in ast.walk(fi.node):
        if isinstance(n, (ast.For,)) and norm(n.iter) in ('%s.body' % nodep,):
            c += 1
        if isinstance(n, ast.Call) and norm(n.func).endswith('generic_visit'):
            c += 1
    return c >= 2


def rule_invalidation_tables(check, rule, precision_rule=None):
    """C05.R5: visit_Name, taint, deferred calls, nonlocal"""
    repo = check.repo
    # visit_Name: invalidation skipped only under immutable and Load
    fi = repo.func(VIS + '.visit_Name')
    check.analysed(fi)
    it = Interp(repo, Policy())
    paths = it.run(fi)
    check.absorb(it)
    nodep = ('P', fi.params()[0][1])
    n = 0
    for p in paths:
        n += 1
        sets = [e for e in p.effects if e.kind == 'mut' and e.op == 'setitem']
        imm = None
        load = None
        for a, pol in p.lits:
            if a[0] == 'truthy' and a[1][0] == 'C' and str(a[1][1]).endswith('is_immutable_value') or (a[0] == 'truthy' and a[1][0] == 'M' and a[1][2] == 'is_immutable_value'):
                imm = pol
            if a[0] == 'isinstance' and a[1] == ('A', nodep, 'ctx'):
                if 'Load' in str(a[2]) and 'Store' not in str(a[2]):
                    load = pol
                elif 'Store' in str(a[2]) or 'Del' in str(a[2]):
                    load = (not pol) if ('Store' in str(a[2]) and 'Del' in str(a[2])) else None
        key = 'visit_Name|%s' % ' & '.join(show_lit(l) for l in p.lits)[:120]
        skip = not sets
        st = site_of(fi, fi.node)
        # the other way of invalidating: the marker of an enclosing scope is tainted (nested def/lambda reading a
        # variable of the enclosing function); accepted only for a marker obtained from the namespace by this very name
        tstores = [e for e in p.effects if e.kind == 'store_attr' and e.op == 'tainted']
        if skip and tstores:
            tgt = tstores[0].target
            ok_t = any(isinstance(s_, tuple) and s_ == ('A', nodep, 'id') for s_ in subterms(tgt)) and 'namespace' in show(tgt)
            if ok_t and load is not False:
                check.holds(rule, st, 'a variable of an enclosing scope read inside a nested function: its marker in the enclosing scope is tainted',
                            key=key, guards=' & '.join(show_lit(l) for l in p.lits))
            else:
                check.violation(rule, st, 'visit_Name taints %s instead of invalidating the name' % show(tgt)[:60], key=key,
                                guards=' & '.join(show_lit(l) for l in p.lits))
            continue
        known = None
        for a, pol in p.lits:
            if a[0] == 'in' and a[1] == ('A', nodep, 'id') and a[2][0] == 'A' and a[2][2] == 'namespace':
                known = pol
        if skip:
            if imm is True and load is True:
                check.holds(rule, st, 'a name is left alone only when it holds an immutable value and is merely read', key=key)
            elif known is False and load is True:
                # (D44) a name no scope of the function knows -- a global, a builtin -- is not a parameter or local variable, so not one of
                # the containers being forwarded, and no reader can rebind it
                check.holds(rule, st, 'a name the namespace does not know (a global, a builtin) is left alone when it is merely read', key=key)
            else:
                check.violation(rule, st, 'visit_Name leaves a name untouched although it is %s' % (
                    'not known to hold an immutable value' if imm is not True else 'not merely read (store/delete context)'), key=key,
                    guards=' & '.join(show_lit(l) for l in p.lits), witness='kwargs read by other code / args = () before inner(*args, **kwargs)')
        else:
            v = sets[0].args[1]
            if sets[0].args[0] == ('A', nodep, 'id') and (v[0] == 'O' and v[1].endswith(':Unknown')):
                check.holds(rule, st, 'any other occurrence of a name replaces it by Unknown', key=key)
            else:
                check.violation(rule, st, 'visit_Name stores %s under %s instead of marking the name unknown' % (show(v)[:40], show(sets[0].args[0])[:30]), key=key)
    check.floor(rule, 'paths of visit_Name', n, 2)
    if precision_rule:
        # (D44) completeness: the callee of functools.partial(callee, *args, **kwargs) is an argument, so it is read like any name; if that
        # makes the global unknown, a second such call -- or the second look at a loop body -- cannot resolve it and discovery is abandoned
        kept = False
        for p in paths:
            lits = dict(p.lits)
            if lits.get(('in', ('A', nodep, 'id'), ('A', ('P', fi.params()[0][0]), 'namespace'))) is False \
                    and not [e for e in p.effects if e.kind == 'mut' and e.op == 'setitem']:
                kept = True
        st = site_of(fi, fi.node)
        if kept:
            check.holds(precision_rule, st, 'reading a name the namespace does not know (a global) leaves it as it is', key='visit_Name|global-read-kept')
        else:
            check.violation(precision_rule, st, 'visit_Name makes every name that is read unknown, globals included: the callee handed to '
                            'functools.partial(callee, *args, **kwargs) is lost for a second such call or inside a loop (whose body is looked at '
                            'twice), and discovery falls back to the plain signature', key='visit_Name|global-read-kept',
                            witness='def w(p, *args, **kwargs):\n    for _ in range(2):\n        r = partial(callee, 1, *args, **kwargs)\n    return r')
    # Marker.get_untainted
    fi = repo.func(AF + ':Marker.get_untainted')
    check.analysed(fi)
    it = Interp(repo, Policy())
    paths = it.run(fi)
    selft = ('P', fi.params()[0][0])
    for p in paths:
        if p.status != 'return':
            continue
        tainted = None
        for a, pol in p.lits:
            if a[0] == 'isnone' and a[1] == ('A', selft, 'tainted'):
                tainted = not pol
            if a[0] == 'truthy' and a[1] == ('A', selft, 'tainted'):
                tainted = pol
        key = 'get_untainted|tainted=%s' % tainted
        v = p.value
        if tainted is True and not (v[0] == 'O' and v[1].endswith(':Unknown')):
            check.violation(rule, site_of(fi, fi.node), 'a tainted marker is still returned as usable', key=key,
                            witness='kwargs.update(x=1) before inner(*args, **kwargs)')
        elif tainted is False and v != selft:
            check.violation(rule, site_of(fi, fi.node), 'an untainted marker is not returned as itself', key=key)
        elif tainted is None:
            check.violation(rule, site_of(fi, fi.node), 'get_untainted does not depend on the taint mark', key=key)
        else:
            check.holds(rule, site_of(fi, fi.node), 'get_untainted: %s' % ('Unknown when tainted' if tainted else 'itself otherwise'), key=key)
    # process_Call: callee resolved read-only+tainted, attribute callee taints the base argument, arguments resolved with visiting
    fi = repo.func(VIS + '.process_Call')
    check.analysed(fi)
    it = Interp(repo, Policy())
    paths = it.run(fi)
    check.absorb(it)
    selft = ('P', fi.params()[0][0])
    nodep = ('P', fi.params()[0][1])
    rn = repo.func(VIS + '.resolve_name')
    seen = set()
    taint_seen = False
    for p in paths:
        calls = [e for e in p.effects if e.kind == 'call' and e.op == rn.key]
        gens = []
        for e, g_ in walk_effects(p.effects):
            pass
        # the first resolve_name call resolves node.func
        if calls:
            b = _bind(rn, calls[0].args, calls[0].kws)
            key = 'process_Call|callee'
            if key not in seen:
                seen.add(key)
                if b and b.get(rn.params()[0][1]) == ('A', nodep, 'func') and b.get('ro') == K(True) and b.get('tainted') == K(True):
                    check.holds(rule, site_of(fi, calls[0].node), 'the callee expression is resolved read-only and regardless of taint', key=key)
                else:
                    check.violation(rule, site_of(fi, calls[0].node), 'the callee is resolved as %s' % repr(calls[0])[:120], key=key)
        for e in p.effects:
            if e.kind == 'store_attr' and e.op == 'tainted':
                taint_seen = True
                key = 'process_Call|taint'
                if key in seen:
                    continue
                seen.add(key)
                lits = dict(p.lits)
                guards = [a for a, pol in p.lits if a[0] == 'isinstance' and pol]
                ok = any('Attribute' in str(a[2]) for a in guards) and any('Arg' in str(a[2]) for a in guards)
                # taint must precede the resolution of the arguments
                ti = p.effects.index(e)
                later = [x for x in p.effects[ti:] if (x.kind == 'call' and x.op == rn.key) or x.kind == 'new']
                if ok:
                    check.holds(rule, site_of(fi, e.node), 'a method call on *args/**kwargs (attribute chain on an argument) taints that argument', key=key)
                else:
                    check.violation(rule, site_of(fi, e.node), 'taint is applied under %s' % ' & '.join(show_lit(l) for l in p.lits)[:160], key=key)
    if not taint_seen:
        # the marking may have been moved into a helper of the namespace class: `self.namespace.<helper>(name, node)`
        ns_cls = repo.cls(AF + ':Namespace', required=False)
        helper = None
        hcall = None
        if ns_cls is not None:
            for n_ in ast.walk(fi.node):
                if isinstance(n_, ast.Call) and isinstance(n_.func, ast.Attribute) and n_.func.attr in ns_cls.methods \
                        and norm(n_.func.value).endswith('.namespace'):
                    m_ = ns_cls.methods[n_.func.attr]
                    if any(isinstance(x, ast.Attribute) and x.attr == 'tainted' and isinstance(x.ctx, ast.Store) for x in ast.walk(m_.node)):
                        helper, hcall = m_, n_
        if helper is None:
            check.violation(rule, site_of(fi, fi.node), 'process_Call no longer taints an argument whose method is called', key='process_Call|taint',
                            witness='kwargs.pop("x"); inner(*args, **kwargs)')
        else:
            check.analysed(helper)
            hself = helper.params()[0][0]
            stores = [x for x in ast.walk(helper.node) if isinstance(x, ast.Attribute) and x.attr == 'tainted' and isinstance(x.ctx, ast.Store)]
            direct = [x for x in stores if isinstance(x.value, ast.Subscript) and isinstance(x.value.value, ast.Attribute)
                      and x.value.value.attr == 'names']
            walking = [x for x in stores if isinstance(x.value, ast.Subscript) and isinstance(x.value.value, ast.Name) and x.value.value.id == hself]
            # guards of the call site inside process_Call
            t = hcall
            guards = []
            while t is not None and t is not fi.node:
                par = getattr(t, '_parent', None)
                if isinstance(par, ast.If) and t in par.body:
                    guards.append(norm(par.test))
                t = par
            ok_guard = any('Arg' in g_ for g_ in guards)
            if walking and not direct and ok_guard:
                check.holds(rule, site_of(fi, hcall), 'a method call on an argument taints it through Namespace.%s, which looks the name up along '
                            'the scope chain' % helper.name, key='process_Call|taint')
            elif direct:
                check.violation(rule, site_of(helper, direct[0]), 'Namespace.%s marks the taint on `<scope>.names[name]`, a single scope\'s own table: '
                                'for an argument of an enclosing function used inside a nested def/lambda the name is not there (KeyError out of '
                                'retrieval) and its taint is never recorded' % helper.name, key='process_Call|taint',
                                witness='def f(self, *a, **k): (lambda: self.notify())(); return g(*a, **k) -> sigtools.signature(f) raises KeyError')
            else:
                check.inconclusive(rule, site_of(fi, hcall), 'taint helper Namespace.%s not understood' % helper.name, key='process_Call|taint')
    # resolve_name: the base of an attribute chain is only *read* (`base.attr` does not hand `base` to other code), so the
    # recursive resolution of the base must be read-only whatever the outer call asked for
    rnode = rn.node
    rself = rn.params()[0][0]
    rec = [c for c in ast.walk(rnode) if isinstance(c, ast.Call) and isinstance(c.func, ast.Attribute) and c.func.attr == 'resolve_name'
           and isinstance(c.func.value, ast.Name) and c.func.value.id == rself and c.args
           and isinstance(resolve_once(rnode, c.args[0]), ast.Attribute) and resolve_once(rnode, c.args[0]).attr == 'value']
    key = 'resolve_name|attribute-base-readonly'
    # (over-invalidation only costs precision -- discovery falls back -- so this obligation belongs to the agreement
    # property C06, not to the soundness property C05)
    if precision_rule is None:
        rec = []
    elif not rec:
        check.inconclusive(precision_rule, site_of(rn, rnode), 'resolve_name: recursive resolution of an attribute\'s base not found', key=key)
    for c in rec:
        b_ = {}
        rpos = rn.params()[0]
        for i_, a_ in enumerate(c.args):
            if i_ + 1 < len(rpos):
                b_[rpos[i_ + 1]] = a_
        for kw_ in c.keywords:
            if kw_.arg:
                b_[kw_.arg] = kw_.value
        ro_ = b_.get('ro')
        if isinstance(ro_, ast.Constant) and ro_.value is True:
            check.holds(precision_rule, site_of(rn, c), 'the base of an attribute chain is resolved read-only (ro=True)', key=key)
        else:
            check.violation(precision_rule, site_of(rn, c), 'the base of an attribute chain is resolved with ro=%s: passing `base.attr` as an argument value '
                            'then invalidates `base` itself, and a later forwarding call on `base.other(...)` can no longer be resolved'
                            % (norm(ro_) if ro_ is not None else 'default False'), key=key,
                            witness='log(self.name); return self.impl(*args, **kwargs) falls back to the plain signature')
    # order inside process_Call: Python evaluates the explicit argument expressions of a call before it unpacks *args/**kwargs,
    # and resolving them is what notices `inner(kwargs.pop('x'), **kwargs)` / `inner(take(kwargs), **kwargs)`; the star
    # arguments must therefore be resolved *after* the explicit ones
    body = fi.main_body
    nodename = fi.params()[0][1]
    expl, stars_ = [], []
    for i_, st_ in enumerate(body):
        for n_ in ast.walk(st_):
            if isinstance(n_, (ast.ListComp, ast.GeneratorExp, ast.DictComp)) and \
                    any(isinstance(c_, ast.Call) and norm(c_.func).endswith('.resolve_name') for c_ in ast.walk(n_)) and \
                    norm(n_.generators[0].iter) in ('%s.args' % nodename, '%s.keywords' % nodename):
                expl.append(i_)
            if isinstance(n_, ast.Call) and norm(n_.func).endswith('.resolve_name') and n_.args and isinstance(n_.args[0], ast.Name) \
                    and not isinstance(getattr(n_, '_parent', None), (ast.ListComp, ast.GeneratorExp, ast.DictComp)):
                # resolve_name(<local>) where the local was assigned from get_starargs/get_kwargs
                src_ = [a_ for a_ in ast.walk(fi.node) if isinstance(a_, ast.Assign) and any(isinstance(t_, ast.Name) and t_.id == n_.args[0].id for t_ in a_.targets)
                        and isinstance(a_.value, ast.Call) and norm(a_.value.func) in ('get_starargs', 'get_kwargs')]
                if src_:
                    stars_.append(i_)
    key = 'process_Call|stars-after-explicit'
    if expl and stars_:
        if max(expl) < min(stars_):
            check.holds(rule, site_of(fi, body[min(stars_)]), 'the star arguments of a call are resolved after its explicit arguments', key=key)
        else:
            check.violation(rule, site_of(fi, body[min(stars_)]), 'the star arguments of a call are resolved before its explicit arguments: an explicit '
                            'argument that alters or hands on **kwargs/*args (evaluated first by Python) no longer hides what the star argument '
                            'forwards', key=key, witness="def f(**kwargs): return inner(kwargs.pop('x'), **kwargs) advertises x")
    else:
        check.inconclusive(rule, site_of(fi, fi.node), 'resolution of explicit / star arguments in process_Call not recognised', key=key)
    # argument values: resolve_name(arg) must visit the expression (ro must not be set) so that handing
    # *args/**kwargs to other code invalidates it
    for node in ast.walk(fi.node):
        if isinstance(node, (ast.ListComp, ast.GeneratorExp, ast.DictComp)):
            for c in ast.walk(node):
                if isinstance(c, ast.Call) and norm(c.func).endswith('.resolve_name'):
                    src = norm(node.generators[0].iter)
                    what = 'positional' if src.endswith('.args') else ('keyword' if src.endswith('.keywords') else src)
                    key = 'process_Call|args-visited|%s' % what
                    ro = [kw for kw in c.keywords if kw.arg == 'ro'] or (c.args[1:2] if len(c.args) > 1 else [])
                    rov = None
                    if ro:
                        v = ro[0].value if isinstance(ro[0], ast.keyword) else ro[0]
                        rov = v.value if isinstance(v, ast.Constant) else 'expr'
                    if not rov:
                        check.holds(rule, site_of(fi, c), '%s argument values are resolved with visiting: a bare *args/**kwargs handed to other code is '
                                    'invalidated' % what, key=key)
                    else:
                        check.violation(rule, site_of(fi, c), '%s argument values are resolved read-only (ro=%s): passing **kwargs itself to other '
                                        'code no longer invalidates it' % (what, rov), key=key,
                                        witness='helper(options=kwargs); return inner(*args, **kwargs)')
    # starred arguments are resolved read-only (they are the forwarding itself)
    # visit_Call: nested-scope calls are deferred
    fi = repo.func(VIS + '.visit_Call')
    check.analysed(fi)
    it = Interp(repo, Policy())
    paths = it.run(fi)
    selft = ('P', fi.params()[0][0])
    for p in paths:
        top = None
        for a, pol in p.lits:
            if a[0] == 'isnone' and a[1] == ('A', ('A', selft, 'namespace'), 'parent'):
                top = pol
            if a[0] == 'truthy' and a[1] == ('A', ('A', selft, 'namespace'), 'parent'):
                top = not pol
        direct = [e for e in p.effects if e.kind == 'call' and str(e.op).endswith('.process_Call')]
        deferred = [e for e in p.effects if e.kind == 'mut' and e.op == 'append']
        key = 'visit_Call|top=%s' % top
        if top is True and direct and not deferred:
            check.holds(rule, site_of(fi, fi.node), 'calls in the main body are processed immediately', key=key)
        elif top is False and deferred and not direct:
            ns_ok = any(mentions(a, ('A', selft, 'namespace')) for e in deferred for a in e.args)
            if ns_ok:
                check.holds(rule, site_of(fi, fi.node), 'calls in nested scopes are deferred together with their namespace', key=key)
            else:
                check.violation(rule, site_of(fi, fi.node), 'deferred calls do not remember their namespace', key=key)
        else:
            check.violation(rule, site_of(fi, fi.node), 'visit_Call: %s call is %s' % ('main-body' if top else 'nested-scope' if top is False else 'any',
                            'deferred' if deferred else 'processed immediately' if direct else 'dropped'), key=key,
                            witness='def sub(): inner(*args, **kwargs)  followed by  kwargs = {}  in the outer body')
    # deferred calls are processed after the main body, over the live worklist
    fi = repo.func(VIS + '.__init__')
    loops = [n_ for n_ in fi.main_body if isinstance(n_, (ast.For, ast.While))]
    key = '__init__|revisit'
    selfn = fi.params()[0][0]
    def it_(l):
        # (a loop over a local name bound once stands for a loop over what the name was given: an alias of the live list)
        return norm(resolve_once(fi.node, l.iter))
    rev = [l for l in ast.walk(fi.node) if isinstance(l, ast.For) and 'to_revisit' in it_(l)]
    wl = [l for l in ast.walk(fi.node) if isinstance(l, ast.While) and 'to_revisit' in norm(l.test)]
    if rev:
        l = rev[0]
        if it_(l) == '%s.to_revisit' % selfn:
            body_first = any(isinstance(x, ast.For) and it_(x).endswith('.body') and fi.main_body.index(x) < fi.main_body.index(l)
                             for x in fi.main_body if isinstance(x, ast.For) and x in fi.main_body)
            sets_ns = any(isinstance(x, ast.Assign) and any(norm(t) == '%s.namespace' % selfn for t in x.targets) for x in l.body)
            if body_first and sets_ns:
                check.holds(rule, site_of(fi, l), 'deferred calls are processed after the main body, each in its own namespace, over the live list '
                            '(calls deferred while processing are seen too)', key=key)
            elif not sets_ns:
                check.violation(rule, site_of(fi, l), 'deferred calls are processed without restoring their namespace', key=key)
            else:
                check.violation(rule, site_of(fi, l), 'deferred calls are processed before the main body has been visited', key=key,
                                witness='def sub(): inner(*args, **kwargs)  then  kwargs = {}')
        else:
            check.violation(rule, site_of(fi, l), 'the deferred calls are iterated over a copy (%s): processing a deferred call can defer further calls '
                            '(a forwarding call nested in its arguments), and those are never processed' % it_(l), key=key,
                            witness='def sub(): return decoy(callee(a, *args, **kwargs))')
    elif wl:
        check.holds(rule, site_of(fi, wl[0]), 'deferred calls are drained by a while loop', key=key)
        # the order in which they are drained is the order the discovered signatures are merged in (merge is not commutative:
        # names and defaults of the left operand win) -- it must be the order of the source, i.e. from the front of the list.
        # Soundness does not depend on it, so this is reported under the agreement property only
        if precision_rule is not None:
            pops = [c for c in ast.walk(wl[0]) if isinstance(c, ast.Call) and isinstance(c.func, ast.Attribute) and c.func.attr in ('pop', 'popleft')
                    and 'to_revisit' in norm(c.func.value)]
            korder = '__init__|revisit-order'
            if pops and all((c.func.attr == 'popleft') or (c.args and isinstance(c.args[0], ast.Constant) and c.args[0].value == 0) for c in pops):
                check.holds(precision_rule, site_of(fi, pops[0]), 'deferred calls are taken from the front of the list: processed in source order', key=korder)
            elif pops:
                check.violation(precision_rule, site_of(fi, pops[0]), 'deferred calls are taken from the end of the list (%s): the calls of nested scopes are '
                                'processed, and their signatures merged, in reverse source order' % norm(pops[0])[:40], key=korder,
                                witness='two forwarding calls in nested defs to callees with different positional names: the result differs from '
                                        'merge(forwards(w, c1), forwards(w, c2))')
    else:
        check.violation(rule, site_of(fi, fi.node), 'deferred nested-scope calls are never processed', key=key,
                        witness='def sub(): return inner(*args, **kwargs)')
    # Namespace.add_nonlocal links to the defining namespace
    fi = repo.func(AF + ':Namespace.add_nonlocal')
    check.analysed(fi)
    key = 'add_nonlocal|link'
    txt = norm(fi.node)
    if 'self.nonlocals[name] = ns' in txt and 'ns = ns.parent' in txt:
        check.holds(rule, site_of(fi, fi.node), 'nonlocal names are linked to the nearest enclosing namespace that binds them', key=key)
    else:
        it = Interp(repo, Policy())
        ps = it.run(fi)
        linked = any(e.kind == 'mut' and e.op == 'setitem' and 'nonlocals' in show(e.target) for p in ps for e, g_ in walk_effects(p.effects))
        if linked:
            check.holds(rule, site_of(fi, fi.node), 'nonlocal names are linked to an enclosing namespace', key=key)
        else:
            check.violation(rule, site_of(fi, fi.node), 'add_nonlocal does not link the name to the enclosing namespace', key=key,
                            witness='nested def with `nonlocal kwargs; kwargs = {}`')


def rule_star_extraction(check, rule):
    """C05.R6: get_starargs/get_kwargs and has_hide_starargs tables"""
    repo = check.repo
    for name, field, pred in (('get_starargs', 'args', 'Starred'), ('get_kwargs', 'keywords', 'arg is None')):
        cands = [f for k, f in repo.module(AF).funcs.items() if k.split('#')[0] == name]
        fi = None
        for f in cands:
            if not _dead_on_this_version(f.node):
                fi = f
        if fi is None:
            raise Inconclusive('%s vanished' % name)
        check.analysed(fi)
        it = Interp(repo, Policy())
        paths = it.run(fi)
        check.absorb(it)
        callp = ('P', fi.params()[0][0])
        for p in paths:
            if p.status != 'return':
                continue
            v = p.value
            lits = dict(p.lits)
            n_one = None
            empty = None
            lst = None
            for a, pol in p.lits:
                if a[0] == 'truthy' and a[1][0] == 'L':
                    empty = not pol
                    lst = a[1]
                if a[0] == 'eq' and any(x == K(1) for x in a[1:]) and any(isinstance(x, tuple) and x[0] == 'C' and x[1] == 'len' for x in a[1:]):
                    n_one = pol
            key = '%s|empty=%s,one=%s' % (name, empty, n_one)
            st = site_of(fi, fi.node)
            if empty is True:
                if v == NONE:
                    check.holds(rule, st, 'no starred argument -> None', key=key)
                else:
                    check.violation(rule, st, '%s returns %s when the call has no starred argument' % (name, show(v)[:40]), key=key)
            elif n_one is True:
                if v[0] == 'A' and v[2] == 'value' and v[1][0] == 'S' and v[1][2] == K(0):
                    check.holds(rule, st, 'exactly one starred argument -> its value', key=key)
                else:
                    check.violation(rule, st, '%s returns %s for a single starred argument' % (name, show(v)[:60]), key=key)
            elif n_one is False:
                if v[0] == 'O' and v[1].endswith(':Unknown'):
                    check.holds(rule, st, 'several starred arguments -> Unknown', key=key)
                else:
                    check.violation(rule, st, '%s returns %s when the call combines several starred arguments: the callee\'s parameters are '
                                    'advertised although other values are spliced in' % (name, show(v)[:60]), key=key,
                                    witness='inner(*args, *more, **kwargs)')
            else:
                check.violation(rule, st, '%s does not distinguish one starred argument from several' % name, key=key,
                                witness='inner(*args, *more)')
        # the filter of the list
        init = None
        for t, i in it.obj_init.items():
            if t[0] == 'L' and i[0] == 'G':
                init = i
        key = '%s|filter' % name
        if init is not None and init[3] and init[3][0][0] == ('A', callp, field):
            conds = init[3][0][1]
            txt = ' '.join(str(c) for c in conds)
            if (pred == 'Starred' and 'isinstance' in txt) or (pred != 'Starred' and 'isnone' in txt):
                check.holds(rule, site_of(fi, fi.node), '%s filters call.%s by %s' % (name, field, pred), key=key)
            else:
                check.violation(rule, site_of(fi, fi.node), '%s filters call.%s by %s' % (name, field, txt[:80]), key=key)
        else:
            check.inconclusive(rule, site_of(fi, fi.node), '%s: starred-argument list not recognised' % name, key=key)
    # has_hide_starargs
    fi = repo.func(VIS + '.has_hide_starargs')
    check.analysed(fi)
    it = Interp(repo, Policy())
    paths = it.run(fi)
    check.absorb(it)
    found, orig = ('P', fi.params()[0][1]), ('P', fi.params()[0][2])
    for p in paths:
        if p.status != 'return':
            continue
        lits = dict(p.lits)
        f = lits.get(('truthy', found))
        same = None
        for a, pol in p.lits:
            if a[0] in ('eq', 'is') and set([a[1], a[2]]) == set([found, orig]):
                same = pol
        v = p.value
        key = 'has_hide_starargs|found=%s,same=%s' % (f, same)
        st = site_of(fi, fi.node)
        exp = None
        if f is False:
            exp = ('T', (K(False), K(False)))
        elif f is True and same is True:
            exp = ('T', (K(True), K(False)))
        elif f is True and same is False:
            exp = ('T', (K(False), K(True)))
        if exp is None:
            check.violation(rule, st, 'has_hide_starargs does not distinguish found / same-as-original', key=key,
                            witness='inner(*other, **kwargs) must not advertise inner\'s positionals')
        elif v != exp:
            check.violation(rule, st, 'has_hide_starargs returns %s for found=%s same=%s, expected %s (use, hide)' % (show(v), f, same, show(exp)), key=key,
                            witness='inner(*other, **kwargs): use_varargs must be False and hide_args True')
        else:
            check.holds(rule, st, 'has_hide_starargs: found=%s same=%s -> (use, hide) = %s' % (f, same, show(v)), key=key)


def rule_resolution_order(check, rule):
    """C05.R7 (table B16)"""
    repo = check.repo
    fi = repo.func(AF + ':resolve_name')
    check.analysed(fi)
    it = Interp(repo, Policy(try_forks=True))
    paths = it.run(fi)
    check.absorb(it)
    pos = fi.params()[0]
    obj, func, args, unknown = [('P', x) for x in pos[:4]]
    n = 0
    seen = set()
    for p in paths:
        kinds = dict((str(a[2]).split(':')[-1], pol) for a, pol in p.lits if a[0] == 'isinstance' and a[1] == obj)
        cur = [k for k, v in kinds.items() if v]
        cur = cur[0] if cur else 'other'
        raised = [a for a, pol in p.lits if a[0] == 'raises' and pol]
        key = 'resolve_name|%s|%s|%s' % (cur, p.status, ','.join(sorted(str(a[2]) for a in raised)))
        if key in seen:
            continue
        seen.add(key)
        n += 1
        st = site_of(fi, fi.node)
        unk = dict(p.lits).get(('truthy', unknown))
        if p.status == 'return':
            v = p.value
            if v[0] == 'O' and v[1].endswith(':Unknown'):
                if unk is True:
                    check.holds(rule, st, '%s: a miss is returned as Unknown under the unknown flag' % cur, key=key)
                else:
                    check.violation(rule, st, '%s: Unknown is returned although the unknown flag is not set' % cur, key=key)
                continue
            if cur == 'Name':
                free = any(a[0] == 'raises' and 'ValueError' in str(a[2]) for a in raised)
                if mentions(v, ('A', func, '__globals__')):
                    # globals consulted only after the free-variable lookup failed
                    if free:
                        check.holds(rule, st, 'Name: globals are consulted only when the name is not a free variable', key=key)
                    else:
                        check.violation(rule, st, 'Name: the function\'s globals are consulted although the name may be a closure variable: a '
                                        'shadowed global resolves to the wrong callable', key=key,
                                        witness='a closure variable named like a module-level function')
                elif mentions(v, ('A', func, '__closure__')) or mentions(v, ('A', func, 'func_closure')):
                    check.holds(rule, st, 'Name: free variables are read from the closure cells', key=key)
                else:
                    check.violation(rule, st, 'Name resolved from %s' % show(v)[:80], key=key)
            elif cur == 'Arg':
                if v[0] == 'S' and v[1] == args:
                    check.holds(rule, st, 'Arg: looked up in the known-arguments mapping only', key=key)
                else:
                    check.violation(rule, st, 'Arg resolved from %s' % show(v)[:80], key=key,
                                    witness='a parameter named like a global must not resolve to the global')
            elif cur == 'Attribute':
                if v[0] == 'C' and v[1] == 'getattr':
                    check.holds(rule, st, 'Attribute: getattr on the resolved owner', key=key)
                else:
                    check.violation(rule, st, 'Attribute resolved from %s' % show(v)[:80], key=key)
            else:
                check.violation(rule, st, 'an unknown marker kind resolves to %s' % show(v)[:60], key=key)
        elif p.status == 'raise':
            en = it._exc_name(p.value)
            if str(en).endswith('UnresolvableName') or (p.value and p.value[0] == 'EXC' and any('UnresolvableName' in str(x) for x in p.value[1])):
                if unk is True:
                    check.violation(rule, st, '%s: UnresolvableName is re-raised although the unknown flag is set' % cur, key=key)
                else:
                    check.holds(rule, st, '%s: a miss raises UnresolvableName' % cur, key=key)
            else:
                check.violation(rule, st, '%s: a miss raises %s instead of UnresolvableName' % (cur, en), key=key,
                                witness='a missing global must fall back, not escape as KeyError')
    check.floor(rule, 'paths of resolve_name', n, 8)
    # "not a free variable" and "a free variable whose cell is still empty" both surface as ValueError (tuple.index /
    # cell.cell_contents).  Only the first may lead on to the globals: a handler that covers both reads sends an unbound closure
    # variable to a global of the same name
    for t in [x for x in ast.walk(fi.node) if isinstance(x, ast.Try)]:
        body_idx = [c for s_ in t.body for c in ast.walk(s_) if isinstance(c, ast.Call) and isinstance(c.func, ast.Attribute) and c.func.attr == 'index'
                    and 'co_freevars' in norm(c.func.value)]
        body_cell = [a for s_ in t.body for a in ast.walk(s_) if isinstance(a, ast.Attribute) and a.attr == 'cell_contents'
                     and not any(isinstance(q, ast.Try) and q is not t and any(a in ast.walk(b_) for b_ in q.body) for q in ast.walk(t))]
        catches = [h for h in t.handlers if h.type is not None and 'ValueError' in norm(h.type)]
        if not (body_idx and catches):
            continue
        key = 'resolve_name|free-vs-empty-cell'
        h = catches[0]
        leads_to_globals = any('__globals__' in norm(s_) for s_ in h.body) or \
            (not isinstance(h.body[-1], (ast.Raise, ast.Return)) and '__globals__' in norm(fi.node))
        if body_cell and leads_to_globals:
            check.violation(rule, site_of(fi, body_cell[0]), 'the handler that means "not a free variable" also covers the read of the closure cell: a closure '
                            'variable that is not bound yet (ValueError from cell_contents) is looked up in the globals instead of being unresolvable',
                            key=key, witness='def outer(): \n  def w(*a, **k): return callee(*a, **k)\n  sig = signature(w); callee = ...  with a global `callee`')
        else:
            check.holds(rule, site_of(fi, body_idx[0]), 'only the free-variable test falls through to the globals; an empty cell is unresolvable', key=key)


def rule_scope_chain_lookups(check, rule):
    """C07.R7: names of enclosing scopes live in the parent namespaces.  A read of `<ns>.names[key]` that is not under a
    KeyError handler (the one in Namespace.__getitem__ walks to the parent) raises KeyError for every name that is bound
    in an outer scope only -- out of sigtools.signature() for functions inspect handles.  Zero-expected elsewhere."""
    repo = check.repo
    m = repo.module(AF)
    n = 0
    for fi in repo.all_funcs():
        if fi.module.name != AF:
            continue
        for x in ast.walk(fi.node):
            if isinstance(x, ast.Subscript) and isinstance(x.ctx, ast.Load) and isinstance(x.value, ast.Attribute) and x.value.attr == 'names':
                n += 1
                t = x
                handled = False
                while t is not None and t is not fi.node:
                    par = getattr(t, '_parent', None)
                    if isinstance(par, ast.If) and t in par.body and isinstance(par.test, ast.Compare) and len(par.test.ops) == 1 \
                            and isinstance(par.test.ops[0], ast.In) and norm(par.test.comparators[0]) == norm(x.value) \
                            and norm(par.test.left) == norm(x.slice):
                        handled = True      # dominated by `key in <table>`
                    if isinstance(par, ast.Try) and t in par.body:
                        for h in par.handlers:
                            names = [norm(y) for y in (h.type.elts if isinstance(h.type, ast.Tuple) else [h.type])] if h.type is not None else ['BaseException']
                            if any(y in ('KeyError', 'LookupError', 'Exception', 'BaseException') for y in names):
                                handled = True
                    t = par
                key = '%s|names-subscript|%s' % (fi.key, norm(x))
                if handled:
                    check.holds(rule, site_of(fi, x), '%s is read under a KeyError handler or a membership test' % norm(x), key=key)
                else:
                    check.violation(rule, site_of(fi, x), '%s reads one scope\'s own table without a KeyError handler: a name bound only in an '
                                    'enclosing scope raises KeyError out of retrieval' % norm(x), key=key,
                                    witness='a nested def/lambda calling a method on a parameter of the enclosing function')
    check.floor(rule, 'reads of a namespace table by subscript', n, 1)


def _walks_parent(fnode):
    """does this function follow the `.parent` chain of namespaces (loop or recursion through self.parent[...])?"""
    for n in ast.walk(fnode):
        if isinstance(n, ast.Attribute) and n.attr == 'parent':
            return True
    return False


def rule_nested_scope_effects(check, rule):
    """C05.R9: a nested function (def / lambda) can run at any time, also before a forwarding call of the main body.
    (a) What it does to a variable of an enclosing scope -- reading it (so that it can be handed to other code or
    altered in place) -- must invalidate the *enclosing* binding, not a shadow in the nested scope's own table.
    (b) Calls of nested scopes are analysed after the main body (deferred); what they taint must be applied to the
    calls already recorded, whose star arguments were resolved eagerly."""
    repo = check.repo
    vis = repo.cls(VIS.split(':')[0] + ':' + VIS.split(':')[1])
    ns_cls = repo.cls(AF + ':Namespace')
    init = vis.methods.get('__init__')
    vn = vis.methods.get('visit_Name')
    vc = vis.methods.get('visit_Call')
    pc = vis.methods.get('process_Call')
    if not (init and vn and vc and pc):
        raise Inconclusive('CallListerVisitor.__init__/visit_Name/visit_Call/process_Call vanished')
    for f_ in (init, vn, vc, pc):
        check.analysed(f_)
    selfn = init.params()[0][0]
    # ---- is there deferral at all?
    deferred_attr = None
    for n in ast.walk(vc.node):
        if isinstance(n, ast.Call) and isinstance(n.func, ast.Attribute) and n.func.attr == 'append' and isinstance(n.func.value, ast.Attribute):
            deferred_attr = n.func.value.attr
    # (a) reads of enclosing variables
    key = 'nested|outer-read'
    stores_local = [n for n in ast.walk(vn.node) if isinstance(n, ast.Subscript) and isinstance(n.ctx, ast.Store)
                    and norm(n.value).endswith('.namespace')]
    taints = [n for n in ast.walk(vn.node) if isinstance(n, ast.Attribute) and n.attr == 'tainted' and isinstance(n.ctx, ast.Store)]
    ns_calls = [n for n in ast.walk(vn.node) if isinstance(n, ast.Call) and isinstance(n.func, ast.Attribute)
                and norm(n.func.value).endswith('.namespace') and n.func.attr in ns_cls.methods]
    walking = [c for c in ns_calls if _walks_parent(ns_cls.methods[c.func.attr].node)]
    setitem = ns_cls.methods.get('__setitem__')
    setitem_walks = setitem is not None and _walks_parent(setitem.node)
    # (the binding that is marked must be the one the scope-walking lookup returned: another method of the namespace that walks the chain
    # -- the immutability test does since D41c -- is not that lookup)
    walked_names = set(t_.id for a_ in ast.walk(vn.node) if isinstance(a_, ast.Assign) and a_.value in walking
                       for t_ in a_.targets if isinstance(t_, ast.Name))
    taints = [n for n in taints if isinstance(n.value, ast.Name) and n.value.id in walked_names] or \
        [n for n in taints if any(c is n.value for c in walking)]
    if taints and walking:
        check.holds(rule, site_of(vn, taints[0]), 'a read of an enclosing scope\'s variable inside a nested function marks the enclosing binding '
                    '(looked up through Namespace.%s along the scope chain)' % walking[0].func.attr, key=key)
    elif stores_local and not setitem_walks:
        check.violation(rule, site_of(vn, stores_local[0]), 'visit_Name only writes `self.namespace[name] = Unknown(...)`, and Namespace.__setitem__ '
                        'stores into the current scope\'s own table: inside a nested def/lambda a variable of the enclosing function that is read '
                        '(handed to other code, subscripted, altered) is shadowed locally while the enclosing **kwargs/*args stays marked as '
                        'safe to forward', key=key,
                        witness="def f(**kwargs):\n    def h(): kwargs['extra'] = 1\n    h(); return inner(1, 2, **kwargs)  -> advertises inner's keywords")
    else:
        check.inconclusive(rule, site_of(vn, vn.node), 'invalidation in visit_Name not recognised', key=key)
    # (b) deferred taints are re-applied
    key = 'nested|late-taint'
    if deferred_attr is None:
        check.holds(rule, site_of(vc, vc.node), 'calls of nested scopes are not deferred', key=key, nontrivial=False)
        return
    loops = [n for n in init.main_body if (isinstance(n, ast.For) and norm(n.iter).endswith('.' + deferred_attr))
             or (isinstance(n, ast.While) and any(isinstance(x, ast.Attribute) and x.attr == deferred_attr for x in ast.walk(n.test)))]
    if not loops:
        check.inconclusive(rule, site_of(init, init.node), 'deferred calls (self.%s) are not processed in __init__' % deferred_attr, key=key)
        return
    after = init.main_body[init.main_body.index(loops[-1]) + 1:]
    recheck = None
    for st_ in after:
        for n in ast.walk(st_):
            if isinstance(n, ast.Call) and isinstance(n.func, ast.Attribute) and isinstance(n.func.value, ast.Name) and n.func.value.id == selfn \
                    and n.func.attr in vis.methods:
                m_ = vis.methods[n.func.attr]
                if any(isinstance(x, ast.Attribute) and x.attr == 'get_untainted' for x in ast.walk(m_.node)):
                    recheck = (n, m_)
    taint_in_pc = any(isinstance(x, ast.Attribute) and x.attr == 'tainted' and isinstance(x.ctx, ast.Store) for x in ast.walk(pc.node)) or \
        any(isinstance(x, ast.Call) and isinstance(x.func, ast.Attribute) and x.func.attr in ns_cls.methods
            and any(isinstance(y, ast.Attribute) and y.attr == 'tainted' and isinstance(y.ctx, ast.Store) for y in ast.walk(ns_cls.methods[x.func.attr].node))
            for x in ast.walk(pc.node))
    if not taint_in_pc:
        check.holds(rule, site_of(pc, pc.node), 'deferred processing sets no taint', key=key, nontrivial=False)
    elif recheck is not None:
        check.holds(rule, site_of(init, recheck[0]), 'after the deferred calls of nested scopes, the recorded calls are re-evaluated against what those '
                    'scopes tainted (%s)' % recheck[1].name, key=key)
        # ... all of them: the deferred calls are processed in the order the nested functions are written, so a forwarding call in
        # an earlier nested function is recorded before a later nested function's taint arrives, just like a call of the main body
        key2 = 'nested|late-taint-coverage'
        loop_ = None
        t_ = recheck[0]
        while getattr(t_, '_parent', None) is not None and t_ is not init.node:
            if isinstance(t_, (ast.For, ast.While, ast.ListComp, ast.GeneratorExp)):
                loop_ = t_
            t_ = t_._parent
        it_txt = None
        if isinstance(loop_, ast.For):
            it_txt = loop_.iter
        elif isinstance(loop_, (ast.ListComp, ast.GeneratorExp)):
            it_txt = loop_.generators[0].iter
        if it_txt is None:
            check.inconclusive(rule, site_of(init, recheck[0]), 'what the re-evaluation ranges over is not understood', key=key2)
        else:
            partial_ = [x for x in ast.walk(it_txt) if isinstance(x, ast.Subscript) and isinstance(x.slice, ast.Slice)]
            whole = any(isinstance(x, ast.Attribute) and x.attr == 'calls' for x in ast.walk(it_txt))
            if partial_:
                check.violation(rule, site_of(init, recheck[0]), 'only a slice of the recorded calls (%s) is re-evaluated against the late taints: a '
                                'forwarding call inside a nested function written before the tainting one keeps its pristine star arguments'
                                % norm(partial_[0])[:50], key=key2,
                                witness="def f(*a, **k):\n    def h1(): return inner(*a, **k)\n    def h2(): k.pop('y', None)\n    h2(); return h1()")
            elif whole:
                check.holds(rule, site_of(init, recheck[0]), 'every recorded call is re-evaluated', key=key2)
            else:
                check.inconclusive(rule, site_of(init, recheck[0]), 'the re-evaluation ranges over %s' % norm(it_txt)[:60], key=key2)
    else:
        check.violation(rule, site_of(init, loops[-1]), 'calls inside nested functions are analysed after the main body, and the taint they put on '
                        '*args/**kwargs (a method called on it) arrives after the forwarding calls of the main body were recorded with their star '
                        'arguments already resolved: nothing re-evaluates them', key=key,
                        witness="def f(**kwargs):\n    def h(): kwargs.pop('z')\n    h(); return inner(1, 2, **kwargs)  -> still advertises z")


def rule_optional_container_truthiness(check, rule):
    """C06.R7: `if x.parent:` where `parent` is "None or another instance of a class that defines __len__" asks whether the
    parent is *non-empty*, not whether it exists.  A scope that binds no names is then treated as if there were no enclosing
    scope at all, and the outcome of discovery depends on whether an unrelated statement happens to bind a name there.
    The rule: in a class implementing the container protocol (__len__, or a Mapping base), an attribute that holds
    None-or-instance (assigned from a constructor parameter defaulting to None) is never tested by truthiness."""
    repo = check.repo
    n = 0
    for m in repo.modules.values():
        for ci in m.classes.values():
            sized = '__len__' in ci.methods or any('Mapping' in norm(b) or 'Sequence' in norm(b) or 'Set' in norm(b) for b in ci.bases)
            init = ci.methods.get('__init__')
            if not sized or init is None:
                continue
            a = init.node.args
            defaults = dict(zip([x.arg for x in (a.posonlyargs + a.args)][::-1], a.defaults[::-1]))
            opt = set(k for k, d in defaults.items() if isinstance(d, ast.Constant) and d.value is None)
            iself = init.params()[0][0]
            attrs = set()
            for s_ in ast.walk(init.node):
                if isinstance(s_, ast.Assign) and isinstance(s_.value, ast.Name) and s_.value.id in opt:
                    for t in s_.targets:
                        if isinstance(t, ast.Attribute) and isinstance(t.value, ast.Name) and t.value.id == iself:
                            attrs.add(t.attr)
            if not attrs:
                continue
            # which of those attributes hold instances of this very class? (constructed with `Cls(<something>)` somewhere in the package)
            for meth in ci.methods.values():
                for node in ast.walk(meth.node):
                    tests = []
                    if isinstance(node, (ast.If, ast.While, ast.IfExp)):
                        tests.append(node.test)
                    elif isinstance(node, ast.BoolOp):
                        tests.extend(node.values)
                    elif isinstance(node, ast.UnaryOp) and isinstance(node.op, ast.Not):
                        tests.append(node.operand)
                    for t in tests:
                        if isinstance(t, ast.Attribute) and t.attr in attrs and isinstance(t.ctx, ast.Load):
                            n += 1
                            key = '%s|truthiness|%s' % (meth.key, norm(t))
                            check.violation(rule, site_of(meth, t), '`%s` is tested by truthiness, but %s implements the container protocol: an '
                                            'existing yet empty %s counts as absent' % (norm(t), ci.name, ci.name), key=key,
                                            witness='def f(*a, **k):\n    def inner(): return (lambda: g(*a, **k))()\n    return inner()\nfalls back to the plain '
                                                    'signature; adding `q = 1` to inner() makes discovery succeed')
            for meth in ci.methods.values():
                for node in ast.walk(meth.node):
                    if isinstance(node, ast.Compare) and len(node.ops) == 1 and isinstance(node.ops[0], (ast.Is, ast.IsNot)) \
                            and isinstance(node.left, ast.Attribute) and node.left.attr in attrs:
                        n += 1
                        check.holds(rule, site_of(meth, node), '`%s` tests the reference itself' % norm(node), key='%s|identity|%s' % (meth.key, norm(node)))
    check.floor(rule, 'tests of optional container-valued attributes', n, 1)


NULLABLE_LIST_FIELDS = ('kw_defaults', 'keys')      # arguments.kw_defaults and Dict.keys hold None entries (ast documentation)


def rule_visit_nullable(check, rule):
    """C07.R9: `ast.arguments.kw_defaults` (and `ast.Dict.keys`) are lists with None entries -- one per keyword-only
    parameter without default / per `**mapping` item.  NodeVisitor.visit(None) raises AttributeError, which leaves
    sigtools.signature() for every function containing such a nested def/lambda.  Any loop of the visitor that draws
    nodes from such a field must skip None before visiting.  Zero-expected on the pinned tree (the visitor does not look
    at defaults); the self-test keeps a positive example."""
    repo = check.repo
    vis = repo.cls(VIS.split(':')[0] + ':' + VIS.split(':')[1])
    n = 0
    for m in vis.methods.values():
        for loop in [x for x in ast.walk(m.node) if isinstance(x, (ast.For, ast.comprehension))]:
            it = loop.iter
            fields = [a.attr for a in ast.walk(it) if isinstance(a, ast.Attribute) and a.attr in NULLABLE_LIST_FIELDS]
            if not fields:
                continue
            tgt = loop.target.id if isinstance(loop.target, ast.Name) else None
            body = loop.body if isinstance(loop, ast.For) else [getattr(loop, '_parent', None)]
            visits = [c for b in body if b is not None for c in ast.walk(b) if isinstance(c, ast.Call) and isinstance(c.func, ast.Attribute)
                      and c.func.attr in ('visit', 'generic_visit') and c.args and isinstance(c.args[0], ast.Name) and c.args[0].id == tgt]
            if not visits:
                continue
            n += 1
            guarded = False
            for v in visits:
                t = v
                while t is not None and t is not m.node:
                    par = getattr(t, '_parent', None)
                    if isinstance(par, ast.If) and t in par.body and tgt in norm(par.test):
                        guarded = True
                    t = par
            if isinstance(loop, ast.comprehension) and any(tgt in norm(i_) for i_ in loop.ifs):
                guarded = True
            if isinstance(loop, ast.For) and not guarded:
                # the guard-clause form: `if <test of the node>: continue` ahead of the visit, at the level of the loop body
                for v in visits:
                    idx = [i for i, s_ in enumerate(loop.body) if any(c is v for c in ast.walk(s_))]
                    if idx and any(isinstance(s_, ast.If) and tgt in norm(s_.test) and isinstance(s_.body[-1], (ast.Continue, ast.Break, ast.Return, ast.Raise))
                                   for s_ in loop.body[:idx[0]]):
                        guarded = True
            key = '%s|visit-nullable|%s' % (m.key, ','.join(fields))
            if guarded:
                check.holds(rule, site_of(m, loop.iter), 'nodes drawn from %s are tested before being visited' % '/'.join(fields), key=key)
            else:
                check.violation(rule, site_of(m, loop.iter), 'nodes drawn from %s are visited without skipping the None entries that field holds (a '
                                'keyword-only parameter without default / a **mapping item): visit(None) raises AttributeError out of retrieval'
                                % '/'.join(fields), key=key, witness='def f(*a, **k):\n    def g(*, key): ...\n    return h(*a, **k)')
    if not n:
        check.holds(rule, site_of(vis.methods['__init__'], vis.node), 'the visitor never iterates kw_defaults / Dict.keys itself', key='visit-nullable|none',
                    nontrivial=False)


DEF_TIME_FIELDS = ('decorator_list', 'defaults', 'kw_defaults')


def rule_definition_time_expressions(check, rule):
    """C05.R3b: a handler for def / async def / lambda that does not continue the generic traversal cuts it above the
    expressions Python evaluates *in the enclosing scope when the definition executes*: decorators and default values
    (grammar: FunctionDef.decorator_list, arguments.defaults, arguments.kw_defaults).  They can alter or hand on the
    enclosing function's *args/**kwargs before the forwarding call, so the handler has to visit them before it pushes the
    nested namespace."""
    vf = VisitorFacts(check.repo)
    done = set()
    for cname in ('FunctionDef', 'AsyncFunctionDef', 'Lambda'):
        h = vf.handler(cname)
        if h is None or h.key in done:
            continue
        done.add(h.key)
        check.analysed(h)
        if vf.continues_traversal(h) and not vf.pushes_namespace(h):
            check.holds(rule, site_of(h, h.node), 'visit_%s keeps traversing generically' % cname, key='deftime|%s' % h.name)
            continue
        # position of the namespace push
        push = None
        for i, st_ in enumerate(h.main_body):
            if any(isinstance(n, ast.Assign) and any(norm(t).endswith('.namespace') for t in n.targets) and isinstance(n.value, ast.Call)
                   for n in ast.walk(st_)):
                push = i
                break
        for field in DEF_TIME_FIELDS:
            key = 'deftime|%s|%s' % (h.name, field)
            visited_at = None
            for i, st_ in enumerate(h.main_body):
                for n in ast.walk(st_):
                    if isinstance(n, (ast.For, ast.comprehension)) and any(isinstance(a, (ast.Attribute, ast.Constant)) and
                                                                           (getattr(a, 'attr', None) == field or getattr(a, 'value', None) == field)
                                                                           for a in ast.walk(n.iter)):
                        body_ = n.body if isinstance(n, ast.For) else [getattr(n, '_parent', None)]
                        if any(isinstance(c, ast.Call) and isinstance(c.func, ast.Attribute) and c.func.attr == 'visit'
                               for b in body_ if b is not None for c in ast.walk(b)):
                            visited_at = i if visited_at is None else min(visited_at, i)
            if visited_at is None:
                check.violation(rule, site_of(h, h.node), '%s never visits %s of a nested definition: those expressions run in the enclosing scope '
                                'when the def/lambda is executed, and what they do to *args/**kwargs goes unnoticed' % (h.name, field), key=key,
                                witness="def f(**kwargs):\n    def g(a=kwargs.pop('z')): ...\n    return inner(1, 2, **kwargs)   # still advertises z")
            elif push is not None and visited_at > push:
                check.violation(rule, site_of(h, h.main_body[visited_at]), '%s visits %s after pushing the nested namespace: they are evaluated in the '
                                'enclosing scope' % (h.name, field), key=key)
            else:
                check.holds(rule, site_of(h, h.main_body[visited_at]), '%s visits %s in the enclosing scope' % (h.name, field), key=key)


def rule_builtins_access(check, rule):
    """C07.R7b: `<globals>['__builtins__']` is the builtins *module* in `__main__` and a dict everywhere else (CPython
    implementation detail).  Subscripting it raises TypeError for every function defined in a script -- out of
    retrieval, since resolve_name only converts KeyError/AttributeError/ValueError.  Zero-expected."""
    repo = check.repo
    n = 0
    for fi in repo.all_funcs():
        if fi.module.name not in (AF, '_util', '_specifiers', 'specifiers'):
            continue
        for x in ast.walk(fi.node):
            if isinstance(x, ast.Subscript) and isinstance(x.value, ast.Subscript) and isinstance(x.value.slice, ast.Constant) \
                    and x.value.slice.value == '__builtins__':
                n += 1
                check.violation(rule, site_of(fi, x), '%s subscripts __builtins__, which is a module (not a dict) for functions defined in __main__: '
                                'TypeError: \'module\' object is not subscriptable leaves retrieval' % norm(x)[:60], key='%s|builtins-subscript' % fi.key,
                                witness='a script-level def f(*a, **k): return print(*a, **k); sigtools.signature(f)')
    if not n:
        check.holds(rule, 'sigtools/_autoforwards.py:0 _autoforwards', 'nothing subscripts __builtins__', key='builtins-subscript|none', nontrivial=False)


# ---------------------------------------------------------------------------
# C05.R4b -- the pre-scan helper of the loop handlers is exhaustive over the binding constructs

def _prescan_helper(fi):
    """the module-level helper a loop handler draws the names to invalidate from (`for name in helper(node): ...`)"""
    nodep = fi.params()[0][1] if len(fi.params()[0]) > 1 else None
    for stmt in fi.main_body:
        if isinstance(stmt, ast.For) and isinstance(stmt.iter, ast.Call) and isinstance(stmt.iter.func, ast.Name):
            helper = fi.module.funcs.get(stmt.iter.func.id)
            if helper is not None and stmt.iter.args and norm(stmt.iter.args[0]) == nodep and \
                    any(isinstance(n, ast.Call) and norm(n.func) in ('ast.walk', 'walk') for n in ast.walk(helper.node)):
                return helper
    return None


def _ast_classes(expr):
    """class names of an isinstance() second argument: ast.X, getattr(ast, 'X', ()), tuples of those; None when not understood"""
    if isinstance(expr, ast.Attribute) and isinstance(expr.value, ast.Name) and expr.value.id == 'ast':
        return [expr.attr]
    if isinstance(expr, ast.Name) and expr.id[:1].isupper():
        return [expr.id]
    if isinstance(expr, ast.Call) and isinstance(expr.func, ast.Name) and expr.func.id == 'getattr' and len(expr.args) >= 2 \
            and isinstance(expr.args[0], ast.Name) and expr.args[0].id == 'ast' and isinstance(expr.args[1], ast.Constant) \
            and isinstance(expr.args[1].value, str):
        return [expr.args[1].value]
    if isinstance(expr, ast.Tuple):
        out = []
        for e in expr.elts:
            c = _ast_classes(e)
            if c is None:
                return None
            out += c
        return out
    return None


def rule_prescan_exhaustive(check, rule):
    """C05.R4b: a loop handler that invalidates "every name rebound anywhere in the loop" through a helper walking the subtree is
    as good as that helper's list of binding constructs.  Against the grammar of the running interpreter (the identifier fields
    classified as binding for C05.R1, plus Name in Store/Del context) every binding construct must have a branch in the helper
    that tests for its class and hands out the bound name: a construct it misses is a rebinding on the back-edge that goes
    unnoticed (`for ...: inner(*args, **kwargs); import os as kwargs`)."""
    vf = VisitorFacts(check.repo)
    g = grammar()
    helpers = {}
    for cname in LOOPS:
        h = vf.handler(cname)
        if h is None:
            continue
        hp = _prescan_helper(h)
        if hp is not None and _visits_body_twice(h):
            # the handler traverses the body twice: every invalidation of the first traversal -- rebinding included -- is in place
            # when the calls are recorded, so the pre-scan is no longer what soundness rests on and its list is not constrained
            check.holds(rule, site_of(h, h.node), 'visit_%s traverses the body twice: the pre-scan through %s is not relied upon' % (cname, hp.name),
                        key='prescan|%s|not-relied-upon' % cname, nontrivial=False)
            continue
        if hp is not None:
            helpers[hp.key] = hp
    if not helpers:
        check.holds(rule, '-', 'no loop handler relies on a pre-scan helper (the direct forms are judged by C05.R4)', key='prescan|none', nontrivial=False)
        return
    for hp in helpers.values():
        check.analysed(hp)
        loop = None
        for s in hp.main_body:
            if isinstance(s, ast.For) and isinstance(s.iter, ast.Call) and norm(s.iter.func) in ('ast.walk', 'walk') and isinstance(s.target, ast.Name):
                loop = s
        st = site_of(hp, hp.node)
        if loop is None:
            check.inconclusive(rule, st, '%s: loop over ast.walk(...) not found at the top level' % hp.name, key='prescan|%s|loop' % hp.name)
            continue
        child = loop.target.id
        # every `yield` of the loop body with the tests it sits under (polarity-normalised: `not`, `or`, `and` are taken apart)
        def lits_of(test, pol):
            """-> list of (atom test, polarity); an `or` under True / `and` under False is kept as one disjunctive literal"""
            if isinstance(test, ast.UnaryOp) and isinstance(test.op, ast.Not):
                return lits_of(test.operand, not pol)
            if isinstance(test, ast.BoolOp) and ((isinstance(test.op, ast.And) and pol) or (isinstance(test.op, ast.Or) and not pol)):
                out = []
                for v_ in test.values:
                    out += lits_of(v_, pol)
                return out
            return [(test, pol)]

        def isinstance_classes(test):
            """classes of `isinstance(child, X)`, or of a disjunction of such tests; None when it is something else"""
            if isinstance(test, ast.Call) and isinstance(test.func, ast.Name) and test.func.id == 'isinstance' and len(test.args) == 2 \
                    and isinstance(test.args[0], ast.Name) and test.args[0].id == child:
                return _ast_classes(test.args[1])
            if isinstance(test, ast.BoolOp) and isinstance(test.op, ast.Or):
                out = []
                for v_ in test.values:
                    c_ = isinstance_classes(v_)
                    if c_ is None:
                        return None
                    out += c_
                return out
            return None

        yields = []      # (value node, [(test, pol)], site node)

        def scan(stmts_, guards):
            for s_ in stmts_:
                if isinstance(s_, ast.If):
                    scan(s_.body, guards + lits_of(s_.test, True))
                    scan(s_.orelse, guards + lits_of(s_.test, False))
                elif isinstance(s_, ast.Expr) and isinstance(s_.value, (ast.Yield, ast.YieldFrom)) and s_.value.value is not None:
                    yields.append((s_.value.value, guards, s_))
                elif isinstance(s_, (ast.For, ast.While, ast.With, ast.Try)):
                    yields.append((None, guards, s_))
        scan(loop.body, [])

        def truthy_guard(field):
            def ok(t_, pol):
                txt = norm(t_)
                return pol and txt in ('%s.%s' % (child, field), '%s.%s is not None' % (child, field))
            return ok

        def store_guard(t_, pol):
            txt = norm(t_)
            if pol and txt in ('isinstance(%s.ctx, (ast.Store, ast.Del))' % child, 'isinstance(%s.ctx, (ast.Del, ast.Store))' % child):
                return True
            if (not pol) and txt == 'isinstance(%s.ctx, ast.Load)' % child:
                return True
            return False

        need = [('Name', 'id', store_guard, 'an assignment, `del`, loop target, `with ... as`, walrus')]
        for (cname, fn), (kind, why) in sorted(IDENT_FIELDS.items()):
            if kind == 'binds' and cname in g:
                need.append((cname, fn, truthy_guard(fn), why))
        n = 0
        for cname, fn, guard_ok, why in need:
            n += 1
            key = 'prescan|%s|%s.%s' % (hp.name, cname, fn)
            clean = None         # a yield of child.<fn> under: positive isinstance incl. cname + acceptable guards only
            murky = None         # same, but some other test on the way is not understood
            wrong_guard = None   # under the class test, but a condition other than the accepted ones
            for val, guards, site_ in yields:
                if val is None:
                    continue
                reads = [a for a in ast.walk(val) if isinstance(a, ast.Attribute) and isinstance(a.value, ast.Name) and a.value.id == child and a.attr == fn]
                if not reads:
                    continue
                pos_classes = set()
                excluded = set()
                other = []
                for t_, pol in guards:
                    cl = isinstance_classes(t_)
                    if cl is not None:
                        if pol:
                            pos_classes = set(cl) if not pos_classes else (pos_classes & set(cl))
                        else:
                            excluded |= set(cl)
                    else:
                        other.append((t_, pol))
                if cname not in pos_classes or cname in excluded:
                    continue
                bad_ = [(t_, pol) for t_, pol in other if not guard_ok(t_, pol)]
                if not bad_:
                    clean = (val, site_)
                    break
                # a test that is about this very field/context but has the wrong form is a wrong guard; anything else is murky
                if all(child + '.' in norm(t_) for t_, pol in bad_):
                    wrong_guard = wrong_guard or (val, site_, bad_)
                else:
                    murky = murky or (val, site_, bad_)
            mentions_class = any(cname in (isinstance_classes(t_) or []) for _v, gs, _s in yields for t_, pol in gs)
            if clean is None:
                if wrong_guard is not None:
                    check.violation(rule, site_of(hp, wrong_guard[1]), '%s: the branch for ast.%s does not hand out node.%s (or only under a condition other '
                                    'than "the field is set"%s)' % (hp.name, cname, fn, ' / "the context is not Load"' if cname == 'Name' else ''), key=key,
                                    witness=_BIND_WITNESS.get((cname, fn), why))
                elif murky is not None:
                    check.inconclusive(rule, site_of(hp, murky[1]), '%s: a test on the way to the ast.%s branch is not understood (%s)'
                                       % (hp.name, cname, norm(murky[2][0][0])[:60]), key=key)
                elif mentions_class:
                    check.violation(rule, st, '%s: the branch for ast.%s does not hand out node.%s (or only under a condition other than '
                                    '"the field is set"%s)' % (hp.name, cname, fn, ' / "the context is not Load"' if cname == 'Name' else ''), key=key,
                                    witness=_BIND_WITNESS.get((cname, fn), why))
                else:
                    unknown_tests = [t_ for _v, gs, _s in yields for t_, pol in gs if isinstance_classes(t_) is None and child + '.' not in norm(t_)]
                    if unknown_tests:
                        check.inconclusive(rule, st, '%s: no branch tests for ast.%s and a test of the chain is not understood (%s)'
                                           % (hp.name, cname, norm(unknown_tests[0])[:60]), key=key)
                    else:
                        check.violation(rule, st, '%s has no branch for ast.%s, whose field %r binds a name (%s): rebound on the back-edge of a loop, '
                                        'the name is not invalidated' % (hp.name, cname, fn, why), key=key,
                                        witness=_BIND_WITNESS.get((cname, fn), why))
                continue
            val, site_ = clean
            if cname == 'alias':
                # `import a.b` binds `a`; `import a.b as c` binds `c`: (asname or name).split('.')[0]
                txt = norm(val)
                ok = '%s.asname or %s.name' % (child, child) in txt
                idx = [x for x in ast.walk(val) if isinstance(x, ast.Subscript) and isinstance(x.slice, ast.Constant)]
                if ok and ('split' not in txt or (idx and idx[0].slice.value == 0)):
                    check.holds(rule, site_of(hp, site_), '%s: alias binds (asname or name).split(".")[0]' % hp.name, key=key)
                else:
                    check.violation(rule, site_of(hp, site_), '%s: the name an import binds is `asname` when given, else the first component of `name`; '
                                    'found %s' % (hp.name, txt[:80]), key=key, witness='for ...: inner(*args, **kwargs); import os as kwargs')
                continue
            check.holds(rule, site_of(hp, site_), '%s hands out %s.%s' % (hp.name, cname, fn), key=key)
        check.floor(rule, 'binding constructs required of %s' % hp.name, n, 8)


# ---------------------------------------------------------------------------
# C05.R9c -- the re-evaluation of a recorded call against the late taints

def _none_test(test):
    """`X is None` / `X is not None` / `not X is None` / `not (X is not None)` -> (text of X, True when it says "X is None")"""
    pol = True
    while isinstance(test, ast.UnaryOp) and isinstance(test.op, ast.Not):
        pol = not pol
        test = test.operand
    if isinstance(test, ast.Compare) and len(test.ops) == 1 and isinstance(test.ops[0], (ast.Is, ast.IsNot)) \
            and isinstance(test.comparators[0], ast.Constant) and test.comparators[0].value is None:
        says_none = isinstance(test.ops[0], ast.Is)
        return norm(test.left), (says_none if pol else not says_none)
    return None


def rule_recheck_table(check, rule):
    """C05.R9c: what the re-evaluation does to a recorded call.  For each star family X (the call's `varargs` / `varkwargs` marker):
    X is replaced by its untainted view exactly when it *is* one of the markers tainted late (`any(X is m for m in late_tainted)`,
    same X on both sides); the two flags of the family are recomputed from the replaced value and the visitor's own marker of
    that family (`has_hide_starargs(X', self.X)`, [0] = use, [1] = hide); the call is rebuilt with all six fields.  Also: a method
    called on a star argument inside a nested scope records its marker as tainted late."""
    repo = check.repo
    vis = repo.cls(VIS.split(':')[0] + ':' + VIS.split(':')[1])
    init = vis.methods['__init__']
    # the method the re-evaluation loop of __init__ calls
    target = None
    for c in ast.walk(init.node):
        if isinstance(c, ast.Call) and isinstance(c.func, ast.Attribute) and isinstance(c.func.value, ast.Name) and c.func.value.id == init.params()[0][0] \
                and c.func.attr in vis.methods and any(isinstance(x, ast.Attribute) and x.attr == 'get_untainted' for x in ast.walk(vis.methods[c.func.attr].node)):
            target = vis.methods[c.func.attr]
    if target is None:
        check.holds(rule, site_of(init, init.node), 'no re-evaluation helper (C05.R9 judges whether one is needed)', key='recheck|none', nontrivial=False)
        return
    fi = target
    check.analysed(fi)
    it = Interp(repo, Policy())
    paths = it.run(fi)
    check.absorb(it)
    selft = ('P', fi.params()[0][0])
    callp = ('P', fi.params()[0][1])
    fams = {'varargs': ('use_varargs', 'hide_args'), 'varkwargs': ('use_varkwargs', 'hide_kwargs')}
    n = 0
    seen = set()
    for p in paths:
        if p.status != 'return':
            continue
        v = p.value
        st = site_of(fi, [e for e in p.effects if e.kind == 'return'][-1].node)
        if not (v[0] == 'M' and v[1] == callp and v[2] == '_replace'):
            k = 'recheck|result'
            if k not in seen:
                seen.add(k)
                check.violation(rule, st, '%s returns %s, not the call rebuilt with _replace(...)' % (fi.name, show(v)[:60]), key=k)
            continue
        kws = dict(v[4])
        # which family is late-tainted on this path?
        late = {}
        for atom, pol in p.lits:
            if atom[0] == 'truthy' and atom[1][0] == 'C' and atom[1][1] == 'any':
                for s_ in subterms(atom[1]):
                    if s_[0] == 'lit' and s_[1][0] == 'is':
                        a_, b_ = s_[1][1], s_[1][2]
                        for x_, y_ in ((a_, b_), (b_, a_)):
                            if x_[0] == 'A' and x_[1] == callp and y_[0] == 'E' and mentions(y_, ('A', selft, 'late_tainted')):
                                # polarity of the inner comparison: `is` (True) / `is not` (False)
                                late[x_[2]] = (pol, s_[2])
        for fam, (use_f, hide_f) in fams.items():
            n += 1
            key = 'recheck|%s|late=%s' % (fam, late.get(fam, (None,))[0])
            if key in seen:
                continue
            seen.add(key)
            orig = ('A', callp, fam)
            unt = ('M', orig, 'get_untainted', (), ())
            msgs = []
            if fam not in late:
                msgs.append('whether the call\'s %s was tainted late is not tested (the test looks at %s)' % (fam, ', '.join(sorted(late)) or 'nothing'))
            else:
                pol, inner_pol = late[fam]
                if inner_pol is not True:
                    msgs.append('the membership test of %s among the late-tainted markers is negated (`is not`)' % fam)
                want = unt if pol else orig
                got = kws.get(fam)
                if got is None:
                    msgs.append('the rebuilt call keeps the recorded %s instead of the re-evaluated one' % fam)
                elif got != want:
                    msgs.append('%s tainted late=%s, but the rebuilt call gets %s' % (fam, pol, show(got)[:50]))
                cur = got if got is not None else orig
                for fld, idx in ((use_f, 0), (hide_f, 1)):
                    g_ = kws.get(fld)
                    wantf = ('S', ('C', VIS + '.has_hide_starargs', (selft, cur, ('A', selft, fam)), ()), K(idx))
                    if g_ is None:
                        msgs.append('the rebuilt call keeps the recorded %s' % fld)
                    elif g_ != wantf:
                        msgs.append('%s is %s, expected has_hide_starargs(<re-evaluated %s>, self.%s)[%d]' % (fld, show(g_)[:70], fam, fam, idx))
            if msgs:
                for m_ in msgs[:2]:
                    check.violation(rule, st, '%s: %s' % (fi.name, m_), key=key + '|' + m_[:30], guards=' & '.join(show_lit(l) for l in p.lits)[:160],
                                    witness="def f(**k):\n    def h(): k.pop('z', None)\n    h(); return inner(**k)   must not advertise z")
            else:
                check.holds(rule, st, '%s: %s re-evaluated against the late taints and its flags recomputed' % (fi.name, fam), key=key)
    check.floor(rule, 'family x path combinations of the re-evaluation', n, 4)
    # the taint put on a star argument by a method call inside a nested scope is recorded as late
    pc = vis.methods.get('process_Call')
    if pc is not None:
        key = 'recheck|late-record'
        taints = [a for a in ast.walk(pc.node) if isinstance(a, ast.Assign) and any(isinstance(t, ast.Attribute) and t.attr == 'tainted' for t in a.targets)]
        if taints:
            ok = False
            for t_ in taints:
                par = t_._parent
                blk = None
                for f_ in ('body', 'orelse'):
                    b_ = getattr(par, f_, None)
                    if isinstance(b_, list) and t_ in b_:
                        blk = b_
                for s_ in (blk or [])[(blk or []).index(t_) + 1:] if blk else []:
                    apps = [c for c in ast.walk(s_) if isinstance(c, ast.Call) and isinstance(c.func, ast.Attribute) and c.func.attr == 'append'
                            and 'late_tainted' in norm(c.func.value)]
                    if not apps:
                        continue
                    if isinstance(s_, ast.If):
                        in_body = any(c in list(ast.walk(b2)) for c in apps for b2 in s_.body)
                        nt = _none_test(s_.test)
                        # (subject, True when the test says "is None")
                        if nt is not None and nt[0].endswith('.parent') and ((not nt[1] and in_body) or (nt[1] and not in_body)):
                            ok = True
                    else:
                        ok = True
            if ok:
                check.holds(rule, site_of(pc, taints[0]), 'a method called on a star argument inside a nested scope records the marker as tainted late', key=key)
            else:
                check.violation(rule, site_of(pc, taints[0]), 'process_Call taints the marker of a star argument a method is called on, but does not record it '
                                'as tainted late when this happens in a nested scope: calls recorded earlier are not re-evaluated', key=key,
                                witness="def f(**k):\n    def h(): k.pop('z', None)\n    h(); return inner(**k)")


def rule_enclosing_lookup(check, rule, precision_rule=None):
    """C05.R9d: Namespace.get_enclosing(name) -- which binding a nested function's read of `name` refers to.  None when the name is bound
    (or declared nonlocal) in the nested scope itself; otherwise the binding of the *nearest* enclosing scope that has one, walking
    `parent` links one scope at a time; None when no enclosing scope of the examined function binds it."""
    repo = check.repo
    fi = repo.func(AF + ':Namespace.get_enclosing', required=False)
    if fi is None:
        check.holds(rule, '-', 'no get_enclosing helper (C05.R9 judges how nested reads reach the enclosing binding)', key='enclosing|none', nontrivial=False)
        return
    check.analysed(fi)
    it = Interp(repo, Policy())
    paths = it.run(fi)
    check.absorb(it)
    selft, name = ('P', fi.params()[0][0]), ('P', fi.params()[0][1])
    st = site_of(fi, fi.node)
    own = {('in', name, ('A', selft, 'names')): 'names', ('in', name, ('A', selft, 'nonlocals')): 'nonlocals'}
    msgs = []
    pmsgs = []      # precision only: answering with an enclosing binding where None is due over-taints (discovery falls back), which
    #                 soundness allows -- reported under the agreement property
    saw = {'names': False, 'nonlocals': False, 'walk': False, 'found': False, 'miss': False}
    for p in paths:
        lits = dict(p.lits)
        shadow = [own[a] for a in own if lits.get(a) is True]
        loops = [e for e in p.effects if e.kind == 'loop']
        if shadow:
            for s_ in shadow:
                saw[s_] = True
            if not (p.status == 'return' and p.value == NONE):
                pmsgs.append('a name bound in the nested scope itself (%s) is answered with %s instead of None' % (shadow[0], show(p.value)[:40]))
            continue
        if not loops:
            if p.status == 'return' and p.value == NONE:
                msgs.append('a name that is not bound in the nested scope is answered None without looking at the enclosing scopes')
            continue
        lp = loops[0]
        for sp in lp.sub:
            cur = [vin for n_, vin in sp.env_in.items() if vin[0] == 'V' and vin[3] == ('A', selft, 'parent')]
            if not cur:
                msgs.append('the walk does not start from the parent scope')
                continue
            ns = cur[0]
            found = dict(sp.lits).get(('in', name, ('A', ns, 'names')))
            if found is True:
                saw['found'] = True
                if not (sp.status == 'return' and sp.value == ('S', ('A', ns, 'names'), name)):
                    msgs.append('an enclosing scope that binds the name is answered with %s, not its binding' % (show(sp.value)[:40] if sp.value else sp.status))
            elif found is False:
                saw['walk'] = True
                nxt = [v for n_, v in sp.env_out.items() if sp.env_in.get(n_) == ns]
                if sp.status != 'continue' or not nxt or nxt[0] != ('A', ns, 'parent'):
                    msgs.append('a scope that does not bind the name is not followed by its parent (%s)' % (show(nxt[0])[:40] if nxt else sp.status))
        if p.status == 'return' and p.value == NONE:
            saw['miss'] = True
    for k_, txt in (('found', 'no enclosing scope is ever found to bind the name'), ('walk', 'the walk never moves on to the next enclosing scope')):
        if not saw[k_]:
            msgs.append(txt)
    for k_, txt in (('names', 'names bound in the nested scope are not excluded'), ('nonlocals', 'names declared nonlocal in the nested scope are not excluded'),
                    ('miss', 'a name no enclosing scope binds has no None answer')):
        if not saw[k_]:
            pmsgs.append(txt)
    if precision_rule is not None:
        kp = 'enclosing|exclusions'
        if pmsgs:
            for m_ in sorted(set(pmsgs))[:2]:
                check.violation(precision_rule, st, 'get_enclosing: %s: a nested function\'s own variable of that name taints the enclosing *args/**kwargs '
                                'and discovery falls back although the forwarding is intact' % m_, key=kp + '|' + m_[:30],
                                witness="def f(**kwargs):\n    def h(kwargs): return kwargs\n    return inner(**kwargs)")
        else:
            check.holds(precision_rule, st, 'get_enclosing answers None for the nested scope\'s own names and for names no enclosing scope binds', key=kp)
    key = 'enclosing|table'
    if msgs:
        for m_ in sorted(set(msgs))[:3]:
            check.violation(rule, st, 'get_enclosing: %s' % m_, key=key + '|' + m_[:30],
                            witness="def f(**kwargs):\n    def h(): kwargs['x'] = 1\n    h(); return inner(**kwargs)")
    else:
        check.holds(rule, st, 'get_enclosing: None for the scope\'s own names, else the nearest enclosing binding, else None', key=key)


def rule_attribute_handler(check, rule, precision=False):
    """C05.R11 (D41): `x.attr` evaluates `x`, and hands out something that can act on it later.  visit_Attribute (a) traverses the object
    of the access when it is not a plain name (it may contain a forwarding call, or another access), and (b) for a plain name either
    invalidates it like any other read (visits it) or taints the parameter marker it denotes -- `pop = kwargs.pop; pop('a')` empties
    **kwargs without a method call on it ever appearing."""
    vf = VisitorFacts(check.repo)
    h = vf.handler('Attribute')
    st0 = '%s:%d %s' % (vf.ci.module.relpath, vf.ci.node.lineno, vf.ci.key)
    key = 'attribute-handler'
    if h is None:
        check.holds(rule, st0, 'no visit_Attribute: the generic traversal reaches the object of the access, whose name is invalidated like any read',
                    key=key)
        return
    check.analysed(h)
    selfn, nodep = h.params()[0][0], h.params()[0][1]
    from .callgraph import resolve_once
    visits_value = [c for c in ast.walk(h.node) if isinstance(c, ast.Call) and isinstance(c.func, ast.Attribute) and isinstance(c.func.value, ast.Name)
                    and c.func.value.id == selfn and ((c.func.attr == 'visit' and c.args and norm(resolve_once(h.node, c.args[0])) == '%s.value' % nodep)
                                                      or (c.func.attr == 'generic_visit' and c.args and norm(resolve_once(h.node, c.args[0])) == nodep))]
    taints = [a for a in ast.walk(h.node) if isinstance(a, ast.Assign) and any(isinstance(t, ast.Attribute) and t.attr == 'tainted' for t in a.targets)]
    problems = []
    if not visits_value:
        problems.append('the object of the access is never visited (a forwarding call there -- inner(*args, **kwargs).real -- is not seen)')
    from .rules_classes import dominated_by

    def name_base(test, pol):
        return isinstance(test, ast.Call) and norm(test.func) == 'isinstance' and len(test.args) == 2 and norm(test.args[0]) == '%s.value' % nodep \
            and 'Name' in norm(test.args[1])
    unconditional = [c for c in visits_value if not dominated_by(h, c, lambda t, p: name_base(t, not p))]
    if not unconditional and not taints:
        problems.append('a plain name is neither visited nor is the parameter it denotes tainted (pop = kwargs.pop; pop(...) goes unnoticed)')
    if taints:
        late = any(isinstance(c, ast.Call) and isinstance(c.func, ast.Attribute) and c.func.attr == 'append' and 'late_tainted' in norm(c.func.value)
                   for c in ast.walk(h.node))
        if not late and not unconditional:
            problems.append('the taint is not put on the list that reaches calls recorded earlier (late_tainted) when it happens in a nested function')
    if taints and precision:
        # (D41c) completeness: only the star parameters are containers being forwarded; tainting whatever parameter an attribute is read
        # from makes `self` unknown as soon as the body mentions self.<anything>, and partial(self.target, *args, **kwargs) unresolvable
        def star_test(t, p):
            txt = norm(t)
            return p and ('varargs' in txt or 'varkwargs' in txt)
        if not all(dominated_by(h, a, star_test) for a in taints):
            problems.append('every parameter an attribute is read from is tainted, not only the star parameters: mentioning self.<anything> makes '
                            'self unknown and a later partial(self.target, *args, **kwargs) unresolvable')
    if problems:
        check.violation(rule, site_of(h, h.node), 'visit_Attribute: ' + '; '.join(problems), key=key,
                        witness="def f(*args, **kwargs):\n    pop = kwargs.pop\n    pop('a', None)\n    return inner(*args, **kwargs)")
    else:
        check.holds(rule, site_of(h, h.node), 'visit_Attribute traverses the object of the access and %s' %
                    ('visits a plain name like any read' if unconditional else 'taints the parameter a plain name denotes'), key=key)


def rule_attribute_object_once(check, rule):
    """(D41b) resolve_name resolves `x.attr` by resolving x first -- which visits x unless it is a plain name -- and then visits the node it
    was given.  When visit_Attribute itself traverses the object of the access, handing it the attribute node as well visits that object
    twice: a forwarding call that is the object of a method call is recorded twice, and every source is listed twice in the merged
    result.  Either the final visit of resolve_name leaves out attributes whose object is not a plain name, or visit_Attribute does not
    traverse."""
    vf = VisitorFacts(check.repo)
    h = vf.handler('Attribute')
    rn = check.repo.func(VIS + '.resolve_name')
    check.analysed(rn)
    key = 'attribute-object-once'
    st = site_of(rn, rn.node)
    traverses = False
    if h is not None:
        selfn, nodep = h.params()[0][0], h.params()[0][1]
        traverses = any(isinstance(c, ast.Call) and isinstance(c.func, ast.Attribute) and c.func.attr in ('visit', 'generic_visit') and c.args
                        and norm(c.args[0]) in ('%s.value' % nodep, nodep) for c in ast.walk(h.node))
    if not traverses:
        check.holds(rule, st, 'visit_Attribute does not traverse the object of the access: nothing is visited twice', key=key)
        return
    namep = rn.params()[0][1]
    finals = [c for t in ast.walk(rn.node) if isinstance(t, ast.Try) for s_ in t.finalbody for c in ast.walk(s_)
              if isinstance(c, ast.Call) and isinstance(c.func, ast.Attribute) and c.func.attr == 'visit' and c.args and norm(c.args[0]) == namep]
    recursive = any(isinstance(c, ast.Call) and isinstance(c.func, ast.Attribute) and c.func.attr == 'resolve_name' and c.args
                    and norm(c.args[0]) == '%s.value' % namep for c in ast.walk(rn.node))
    if not finals or not recursive:
        check.holds(rule, st, 'resolve_name does not visit the node again after resolving its object', key=key)
        return
    from .rules_classes import dominated_by

    def excluded(test, pol):
        # `isinstance(name, ast.Attribute) and not isinstance(name.value, ast.Name)` leads elsewhere
        txt = norm(test)
        return (not pol) and 'Attribute' in txt and ('%s.value' % namep) in txt
    ok = all(dominated_by(rn, c, excluded) for c in finals)
    if ok:
        check.holds(rule, site_of(rn, finals[0]), 'the final visit leaves out attributes whose object was visited while it was resolved', key=key)
    else:
        check.violation(rule, site_of(rn, finals[0]), 'resolve_name visits the object of an attribute access while resolving it and then hands the attribute '
                        'node to visit_Attribute, which traverses the object again: callee(*args, **kwargs).method() is recorded twice and every '
                        'source is listed twice', key=key,
                        witness="def w(a, *args, **kwargs): return callee(*args, **kwargs).strip()  -- sources['y'] == [callee, callee]")


def rule_every_operand_visited(check, rule):
    """C05.R12 (D60): a call with more than one `*` (or `**`) operand forwards none of them as it is -- `get_starargs`/`get_kwargs` answer
    with an Unknown holding the operands -- but each operand is evaluated: what it does to the names (`strip(kwargs)`), or a forwarding
    call inside it, counts.  resolve_name does not visit an Unknown, so process_Call visits the operands itself."""
    repo = check.repo
    m = repo.module('_autoforwards')
    pc = repo.func(VIS + '.process_Call')
    check.analysed(pc)
    wraps_unknown = []
    for name in ('get_starargs', 'get_kwargs'):
        for fi in m.funcs.values():
            if fi.name == name and any(isinstance(c, ast.Call) and norm(c.func) == 'Unknown' for c in ast.walk(fi.node)):
                wraps_unknown.append(fi)
                check.analysed(fi)
    key = 'operands-visited|process_Call'
    st = site_of(pc, pc.node)
    if not wraps_unknown:
        check.holds(rule, st, 'star operands are never wrapped into an Unknown: each is resolved (and visited) on its own', key=key)
        return
    selfn = pc.params()[0][0]
    loops = [l for l in ast.walk(pc.node) if isinstance(l, ast.For) and isinstance(l.iter, ast.Attribute) and l.iter.attr == 'source'
             and any(isinstance(c, ast.Call) and isinstance(c.func, ast.Attribute) and c.func.attr == 'visit' and isinstance(c.func.value, ast.Name)
                     and c.func.value.id == selfn for c in ast.walk(l))]
    if loops:
        check.holds(rule, site_of(pc, loops[0]), 'the operands of several star arguments are visited one by one', key=key)
    else:
        check.violation(rule, st, 'with more than one * (or **) operand the operands are wrapped into an Unknown, which resolve_name neither resolves nor '
                        'visits: what they do to the names, or a forwarding call inside one, goes unnoticed', key=key,
                        witness="def f(*args, **kwargs):\n    log(**DEFAULTS, **strip(kwargs))\n    return inner(*args, **kwargs)")


def rule_generator_expression_lazy(check, rule):
    """C05.R13 (D60): the calls inside a generator expression run when it is consumed, after whatever the rest of the body does to the names:
    `g = (inner(*args, **kwargs) for _ in xs); kwargs.pop('b'); list(g)`.  Its handler defers them like those of a nested function (it
    opens a namespace of its own, so visit_Call puts them on the list that is processed at the end); handling it like a list comprehension
    records them with the names as they are where the expression is written."""
    vf = VisitorFacts(check.repo)
    h = vf.handlers.get('GeneratorExp')
    st0 = '%s:%d %s' % (vf.ci.module.relpath, vf.ci.node.lineno, vf.ci.key)
    key = 'genexp-lazy'
    if h is None:
        check.violation(rule, st0, 'no handler for GeneratorExp: its calls are recorded where the expression is written', key=key)
        return
    check.analysed(h)
    if vf.pushes_namespace(h):
        check.holds(rule, site_of(h, h.node), 'visit_GeneratorExp opens a namespace of its own: the calls inside are deferred', key=key)
    else:
        check.violation(rule, site_of(h, h.node), 'visit_GeneratorExp handles the expression like an eager comprehension: a forwarding call inside it is '
                        'recorded with the names as they are where it is written, although it runs when the generator is consumed', key=key,
                        witness="g = (inner(*args, **kwargs) for _ in range(1)); kwargs.pop('b'); return list(g)")
