"""Rules over `_embed` / `embed` (C02, parts of C08, C10, C15) -- table B8."""
import ast

from .index import Inconclusive, norm
from .interp import Interp, Policy, show, show_lit, walk_effects, K, NONE, subterms, mentions
from .algebra import Protocol, Sides, KINDS, kind_of_attr_term, SIG
from .rules_merge import site, fkey, lits_text


def _no_inline(fi, depth, node):
    return False


class Seg(object):
    """a run of parameters inside an output bucket"""
    __slots__ = ('side', 'idx', 'kind', 'cleared', 'term', 'unknown')

    def __init__(self, side, idx, kind, term, cleared=False, unknown=None):
        self.side, self.idx, self.kind, self.term, self.cleared, self.unknown = side, idx, kind, term, cleared, unknown

    def copy(self, **kw):
        s = Seg(self.side, self.idx, self.kind, self.term, self.cleared, self.unknown)
        for k, v in kw.items():
            setattr(s, k, v)
        return s

    def descr(self):
        if self.unknown:
            return 'unknown(%s)' % self.unknown
        return '%s[%s]%s%s' % (self.side, self.idx, ':' + self.kind if self.kind else '', ':defaults cleared' if self.cleared else '')


class EmbedModel(object):
    def __init__(self, repo, proto=None):
        self.repo = repo
        self.proto = proto or Protocol(repo)
        self.fi = repo.func(SIG + ':_embed')
        pos = self.fi.params()[0]
        if len(pos) < 5:
            raise Inconclusive('_embed no longer takes (outer, inner, use_varargs, use_varkwargs, depth)')
        self.p_outer, self.p_inner = ('P', pos[0]), ('P', pos[1])
        self.params = pos
        # roles of the switches, from how the public embed() binds them at the fold step (not from their position)
        self.flag_vp, self.flag_vk, self.depth_name = pos[2], pos[3], pos[4]
        self.step_call_args = None
        pub = repo.func(SIG + ':embed', required=False)
        if pub is not None:
            for c in ast.walk(pub.node):
                if isinstance(c, ast.Call) and isinstance(c.func, ast.Name) and c.func.id == self.fi.name:
                    bound = {}
                    for i_, a_ in enumerate(c.args):
                        if i_ < len(pos):
                            bound[pos[i_]] = a_
                    for k_ in c.keywords:
                        if k_.arg:
                            bound[k_.arg] = k_.value
                    self.step_call_args = (pub, c, bound)
                    for pn, a_ in bound.items():
                        if isinstance(a_, ast.Name) and a_.id == 'use_varargs':
                            self.flag_vp = pn
                        elif isinstance(a_, ast.Name) and a_.id == 'use_varkwargs':
                            self.flag_vk = pn
                    # depth: the parameter that receives the loop index
                    for n_ in ast.walk(pub.node):
                        if isinstance(n_, ast.For) and isinstance(n_.target, ast.Tuple) and n_.target.elts and isinstance(n_.target.elts[0], ast.Name):
                            idxn = n_.target.elts[0].id
                            for pn, a_ in bound.items():
                                if isinstance(a_, ast.Name) and a_.id == idxn:
                                    self.depth_name = pn
        self.interp = Interp(repo, Policy(inline=_no_inline, split_ifexp='assign-only'))
        self.paths = self.interp.run(self.fi)
        # the merger object: `_Merger(inner, stars_sig)`
        self.merger = None
        self.merger_call = None
        self.stars_sig = None
        for p in self.paths:
            for e in p.effects:
                if e.kind == 'call' and e.extra == 'new' and e.op.endswith(':_Merger'):
                    self.merger = e.result
                    self.merger_call = e
            break
        if self.merger is None:
            raise Inconclusive('_embed: the `_Merger(inner, stars)` step was not found')
        # 'rawinner' is the inner operand *before* it is merged with the forwarded
        # stars: guards on it are understood, but they are not guards on 'inner'
        self.sides = Sides(self.proto, [(self.p_outer, 'outer'), (self.merger, 'inner'), (self.p_inner, 'rawinner')])
        self.ret_paths = []
        for p in self.paths:
            if p.status == 'return':
                v = p.value
                if v[0] != 'T' or len(v[1]) != 6:
                    raise Inconclusive('_embed: return shape is not a 6-tuple: %s' % show(v)[:200])
                self.ret_paths.append((p, v[1]))
        if not self.ret_paths:
            raise Inconclusive('_embed: no returning path')

    def _expand_helper(self, t):
        """the stars operand built by a small private helper (`_stars_only(outer, use_varargs, use_varkwargs)`): a helper with
        one returning path and no effects is read as the expression it returns, with its parameters replaced by the arguments"""
        if not (t[0] == 'C' and isinstance(t[1], str) and ':' in t[1]):
            return t
        h = self.repo.func(t[1], required=False)
        if h is None or h.cls is not None or 'SortedParameters' in h.name:
            return t
        it = Interp(self.repo, Policy(inline=_no_inline))
        ps = [p for p in it.run(h) if p.status == 'return']
        if len(ps) != 1 or any(e.kind in ('mut', 'store_attr', 'del_attr') for e in ps[0].effects):
            return t
        b = _bind(h, t[2], t[3])
        if b is None:
            return t
        for k_, v_ in it.obj_init.items():
            self.interp.obj_init.setdefault(k_, v_)      # (the displays the helper builds: `[]`, `{}`)

        def subst(x):
            if not isinstance(x, tuple):
                return x
            if len(x) == 2 and x[0] == 'P' and x[1] in b:
                return b[x[1]]
            return tuple(subst(y) for y in x)
        return subst(ps[0].value)

    # -- flags: which parameter guards which star ---------------------------
    def flag_roles(self):
        """derive (flagVP, flagVK) parameter terms from the stars signature:
        position idx(VP) of the right operand of _Merger is `<flag> and outer[VP]`"""
        args = self.merger_call.args
        if len(args) != 2:
            raise Inconclusive('_embed: _Merger called with %d operands' % len(args))
        right = self._expand_helper(args[1])
        roles = {}
        if right[0] == 'C' and 'SortedParameters' in str(right[1]) and len(right[2]) == 6:
            items = right[2]
        elif right[0] == 'T' and len(right[1]) == 6:
            items = right[1]
        else:
            raise Inconclusive('_embed: stars operand not a SortedParameters(...) literal: %s' % show(right)[:200])
        self.stars_items = items
        return items

    # -- content of the output buckets on one path ------------------------------
    def seg_of(self, t, depth=0):
        """segments denoted by a value extended into a bucket"""
        if depth > 8:
            return [Seg(None, None, None, t, unknown='depth')]
        b = self.sides.bucket(t)
        if b is not None and b[1] < 5:
            return [Seg(b[0], b[1], self.proto.kind_at(b[1]), t)]
        if t[0] == 'G':
            inner = self.seg_of(t[3][0][0], depth + 1) if len(t[3]) == 1 else None
            if inner is not None and len(inner) != 1 and not any(s_.unknown for s_ in inner) and t[3][0][0] in self._content:
                # a generator over an output bucket built so far: the same element expression applied to each of its runs
                out = []
                for s_ in inner:
                    one = self._apply_elt(s_.copy(term=t), t)
                    out.append(one)
                return out
            if inner is None or len(inner) != 1 or inner[0].unknown:
                return [Seg(None, None, None, t, unknown='generator over ' + show(t[3][0][0]))]
            seg = inner[0].copy(term=t)
            elt = t[2]
            lid = t[3][0][2]
            el = ('E', t[3][0][0], lid)
            if t[3][0][1]:
                seg.unknown = 'filtered'
                return [seg]
            if elt == el:
                return [seg]
            if elt[0] == 'M' and elt[2] == 'replace' and elt[1] == el:
                for n, x in elt[4]:
                    if n == 'kind':
                        seg.kind = kind_of_attr_term(x)
                        if seg.kind is None:
                            seg.unknown = 'kind=' + show(x)
                    elif n == 'default' and x[0] == 'A' and x[2] in ('empty', '_empty'):
                        seg.cleared = True
                    else:
                        seg.unknown = 'replace(%s=...)' % n
                return [seg]
            seg.unknown = 'element expression ' + show(elt)[:80]
            return [seg]
        if t[0] == 'C' and isinstance(t[1], str) and t[1].endswith(':_clear_defaults') and len(t[2]) == 1:
            return [s.copy(cleared=True) for s in self.content_of(t[2][0], depth + 1)]
        if t[0] == 'C' and t[1] in ('list', 'tuple', 'iter', 'reversed') and len(t[2]) == 1:
            return self.content_of(t[2][0], depth + 1)
        if t[0] in ('L', 'D'):
            return self.content_of(t, depth + 1)
        return [Seg(None, None, None, t, unknown=show(t)[:80])]

    def _apply_elt(self, seg, t):
        elt = t[2]
        el = ('E', t[3][0][0], t[3][0][2])
        if t[3][0][1]:
            seg.unknown = 'filtered'
            return seg
        if elt == el:
            return seg
        if elt[0] == 'M' and elt[2] == 'replace' and elt[1] == el:
            for n, x in elt[4]:
                if n == 'kind':
                    seg.kind = kind_of_attr_term(x)
                    if seg.kind is None:
                        seg.unknown = 'kind=' + show(x)
                elif n == 'default' and x[0] == 'A' and x[2] in ('empty', '_empty'):
                    seg.cleared = True
                else:
                    seg.unknown = 'replace(%s=...)' % n
            return seg
        seg.unknown = 'element expression ' + show(elt)[:80]
        return seg

    def is_empty(self, t):
        init = self.interp.obj_init.get(t)
        return t[0] in ('L', 'D') and init is not None and ((init[0] == 'T' and not init[1]) or (init[0] == 'C' and not init[2] and not init[3]))

    def content_of(self, t, depth=0):
        if t in self._content:
            return list(self._content[t])
        return self.seg_of(t, depth + 1) if t[0] not in ('L', 'D') else [Seg(None, None, None, t, unknown='untracked container ' + show(t))]

    def bucket_contents(self, path):
        """replay the effects of a path; returns dict object-term -> [Seg]"""
        self._content = {}
        events = []     # ordered (kind, obj, payload, effect)
        for e in path.effects:
            if e.kind == 'new':
                init = e.args[0] if e.args else None
                if init is not None and init[0] == 'T' and not init[1]:
                    self._content[e.target] = []
                elif init is not None and init[0] == 'C' and init[1] in ('collections.OrderedDict', 'OrderedDict', 'dict', 'list', 'set',
                                                                         '_util.OrderedDict') and not init[2] and not init[3]:
                    self._content[e.target] = []
                elif init is not None and init[0] == 'C' and init[1] in ('list', 'dict') and len(init[2]) == 1:
                    self._content[e.target] = self.seg_of(init[2][0])
                elif init is not None and init[0] == 'G':
                    self._content[e.target] = self.seg_of(init)
            elif e.kind == 'mut' and e.target in self._content:
                if e.op in ('extend', 'update') and e.args:
                    self._content[e.target].extend(self.seg_of(e.args[0]))
                    events.append(('put', e.target, e.args[0], e))
                elif e.op == 'append':
                    self._content[e.target].append(Seg(None, None, None, e.args[0], unknown='single append ' + show(e.args[0])[:60]))
                elif e.op == 'clear' or (e.op == 'delitem' and e.args and e.args[0] == ('SLICE', NONE, NONE)):
                    self._content[e.target] = []        # `xs.clear()` / `del xs[:]`
                elif e.op == 'setitem' and len(e.args) == 2 and e.args[0] == ('SLICE', NONE, NONE) and self.is_empty(e.args[1]):
                    self._content[e.target] = []        # `xs[:] = []`
                else:
                    self._content[e.target].append(Seg(None, None, None, None, unknown='%s()' % e.op))
        return dict(self._content)


def _strip_flag(t):
    """`flag and X` / `X if flag else None` stand for X where they are dereferenced (the path has found them truthy)"""
    while isinstance(t, tuple) and t and t[0] == 'B' and t[1] == 'and' and len(t) == 4:
        t = t[3]
    return t


def _star_name(model, t):
    """t = <star slot of either side>.name -> (side, kind)"""
    if isinstance(t, tuple) and t and t[0] == 'A' and t[2] == 'name':
        b = model.sides.bucket(_strip_flag(t[1]))
        if b is not None and model.proto.kind_at(b[1]) in ('VP', 'VK'):
            return b
    return None


def embed_guards(model, p):
    """canonical guards of a top-level path of _embed"""
    g = {}
    unknown = []
    proto = model.proto
    for atom, pol in p.lits:
        k = atom[0]
        if k == 'eq' and len(atom) == 3 and _star_name(model, atom[1]) and _star_name(model, atom[2]):
            # "the two star parameters are spelled alike": a fact about the inputs that nothing else determines
            g[('same_star_name', proto.kind_at(_star_name(model, atom[1])[1]))] = pol
            continue
        if k == 'in' and _star_name(model, atom[1]) and model.sides.bucket(atom[2]) is not None and model.sides.bucket(atom[2])[1] == 5:
            # "the provenance map of a side has an entry spelled like that star": likewise a fact about the inputs
            g[('star_name_in_src', model.sides.bucket(atom[2])[0], proto.kind_at(_star_name(model, atom[1])[1]))] = pol
            continue
        if k == 'truthy' and atom[1][0] == 'B' and atom[1][1] == 'and' and len(atom[1]) == 4:
            # `flag and star`: both conjuncts when true; undetermined which one fails when false
            f_, x_ = atom[1][2], atom[1][3]
            bx = model.sides.bucket(x_)
            if f_[0] == 'P' and f_[1] in (model.flag_vp, model.flag_vk) and bx is not None:
                if pol:
                    g[('flag', f_[1])] = True
                    g[('star', bx[0], proto.kind_at(bx[1]))] = True
                else:
                    g[('flag_and_star', f_[1])] = False
                continue
        if k == 'truthy':
            b = model.sides.bucket(atom[1])
            if b is not None:
                g[('nonempty' if b[1] in (0, 1, 3) else 'star', b[0], proto.kind_at(b[1]))] = pol
                continue
            if atom[1][0] == 'P' and atom[1][1] in (model.flag_vp, model.flag_vk):
                g[('flag', atom[1][1])] = pol
                continue
            unknown.append((atom, pol))
        elif k == 'has_default':
            t = atom[1]
            if t[0] == 'S' and t[2] == K(0):
                b = model.sides.bucket(t[1])
                if b is not None:
                    g[('first_has_default', b[0], proto.kind_at(b[1]))] = pol
                    continue
            unknown.append((atom, pol))
        elif k == 'isnone' and atom[1][0] == 'S' and atom[1][2][0] == 'K' and model.sides.bucket(atom[1][1]) is not None:
            # an element of a parameter bucket is a Parameter, never None: the `is None` branch cannot be taken
            if pol:
                g['__infeasible__'] = True
        else:
            unknown.append((atom, pol))
    # an un-understood test that looks at the *un-merged* inner operand only (and not at what the merge with the forwarded
    # stars made of it) cannot be the test "does the first inner positional parameter of the result have a default":
    # it is recorded as foreign and does not leave the verdict open -- the rules then find the clearing decision not tied
    # to the merged inner signature
    still = []
    for atom, pol in unknown:
        sides_ = set()
        for x in atom[1:]:
            if isinstance(x, tuple):
                for s_ in subterms(x):
                    if s_ == model.p_inner:
                        sides_.add('rawinner')
                    elif s_ == model.merger:
                        sides_.add('inner')
                    b_ = model.sides.bucket(s_) if isinstance(s_, tuple) else None
                    if b_ is not None:
                        sides_.add(b_[0])
        if 'rawinner' in sides_ and 'inner' not in sides_:
            g[('foreign', show_lit((atom, True))[:60])] = pol
        else:
            still.append((atom, pol))
    return g, still


def _one_shot(model, t):
    """t is the result of a generator function of the package, a generator expression or a lazy builtin"""
    if t[0] == 'G':
        return True
    if t[0] == 'C' and isinstance(t[1], str):
        if t[1] in ('map', 'filter', 'zip', 'iter', 'enumerate', 'reversed') or t[1].startswith('itertools.'):
            return True
        fi = model.repo.func(t[1], required=False) if ':' in t[1] else None
        if fi is not None and any(isinstance(n, (ast.Yield, ast.YieldFrom)) for n in ast.walk(fi.node)):
            return True
    return False


def rule_embed_buckets(check, model, rules):
    """rules: dict with keys kinds (C02.R1), clear_must (C02.R2), clear_only (C10.R2), order (C02.R6/C10.R4)"""
    proto = model.proto
    n = 0
    for p, items in model.ret_paths:
        g, unknown = embed_guards(model, p)
        if g.get('__infeasible__'):
            continue
        contents = model.bucket_contents(p)
        gtext = lits_text(p.lits)
        node = [e for e in p.effects if e.kind == 'return'][-1].node
        st = site(None, node)
        ipo = g.get(('nonempty', 'inner', 'PO'))
        ipok = g.get(('nonempty', 'inner', 'POK'))
        dpo = g.get(('first_has_default', 'inner', 'PO'))
        dpok = g.get(('first_has_default', 'inner', 'POK'))
        for i in (0, 1, 3):
            want = proto.kind_at(i)
            obj = items[i]
            segs = contents.get(obj)
            key = '_signatures:_embed|bucket%d|%s' % (i, gtext)
            n += 1
            if segs is None:
                if _one_shot(model, obj):
                    # a generator handed on as a bucket: whoever iterates it twice (the duplicate-name check and the extend of the
                    # next fold step; sort/apply of the result) finds it empty the second time
                    for r in set(x for x in (rules.get('kinds'), rules.get('clear_must')) if x):
                        check.violation(r, st, 'output bucket %d (%s) is a one-shot iterator (%s), not a list: the next fold step of embed() reads each '
                                        'bucket of its accumulator more than once, and finds this one empty the second time'
                                        % (i, want, show(obj)[:60]), key='_signatures:_embed|bucket%d|one-shot' % i,
                                        witness="embed(s('p, /, *args, **kwargs'), s('q, *args, **kwargs'), s('r')) must be (p, /, q, r)")
                    continue
                for r in set(x for x in rules.values() if x):
                    check.inconclusive(r, st, 'output bucket %d is not a tracked fresh container: %s' % (i, show(obj)[:100]), key=key)
                continue
            unk = [s for s in segs if s.unknown]
            if unk or unknown:
                why = '; '.join(s.descr() for s in unk) or 'guard not understood: ' + lits_text(unknown)
                for r in set(x for x in rules.values() if x):
                    check.inconclusive(r, st, 'content of output bucket %d not understood (%s)' % (i, why), key=key)
                continue
            desc = ', '.join(s.descr() for s in segs) or 'empty'
            # R1 kinds
            bad = [s for s in segs if s.kind != want]
            if bad:
                check.violation(rules['kinds'], st, 'output bucket %d (%s) receives %s' % (i, want, ', '.join(s.descr() for s in bad)),
                                key=key, guards=gtext, effect=desc,
                                witness="embed(s('a, *args'), s('b, /')) must be (a, b, /)")
            else:
                check.holds(rules['kinds'], st, 'output bucket %d holds only %s parameters' % (i, want), key=key, guards=gtext, effect=desc)
            # order: outer before inner
            sides = [s.side for s in segs]
            if 'inner' in sides and 'outer' in sides[sides.index('inner'):]:
                check.violation(rules['order'], st, 'output bucket %d places inner parameters before outer ones: %s' % (i, desc),
                                key=key, guards=gtext, effect=desc, witness="embed(s('a, *args'), s('b')) must be (a, b)")
            else:
                check.holds(rules['order'], st, 'output bucket %d: outer parameters precede inner ones' % i, key=key, guards=gtext, effect=desc)
            # expected membership (table B8)
            if i in (0, 1):
                exp = _expected_positional(i, ipo)
                for opt in exp:
                    pass
                got = [(s.side, proto.kind_at(s.idx)) for s in segs]
                oks = [e for e in exp if e == got]
                if not oks:
                    check.violation(rules['kinds'], st, 'output bucket %d is built from %s, table B8 expects %s'
                                    % (i, got, ' or '.join(str(e) for e in exp)), key=key + '|members', guards=gtext, effect=desc,
                                    witness="embed(s('a, *args'), s('b')) must be (a, b)")
                # default clearing
                for s in segs:
                    if s.side != 'outer':
                        if s.cleared:
                            check.violation(rules['clear_only'], st, 'defaults of inner parameters are cleared', key=key + '|innerclear',
                                            guards=gtext, effect=desc)
                        continue
                    if ipo is None:
                        # path does not distinguish: must be right for both
                        need_opts = [_need_clear(True, dpo, ipok, dpok), _need_clear(False, dpo, ipok, dpok)]
                    else:
                        need_opts = [_need_clear(ipo, dpo, ipok, dpok)]
                    for need in need_opts:
                        if need == 'must' and not s.cleared:
                            check.violation(rules['clear_must'], st,
                                            'outer %s parameters keep their defaults although a required inner positional parameter follows'
                                            % proto.kind_at(s.idx), key=key + '|mustclear', guards=gtext, effect=desc,
                                            witness="embed(s('a=1, *args'), s('b')) would build (a=1, b): constructor error")
                        elif need == 'mustnot' and s.cleared:
                            check.violation(rules['clear_only'], st,
                                            'outer %s parameters lose their defaults although no required inner positional parameter follows'
                                            % proto.kind_at(s.idx), key=key + '|mustnotclear', guards=gtext, effect=desc,
                                            witness="embed(s('a=1, *args'), s('b=2')) must stay (a=1, b=2)")
                        elif need == 'either':
                            check.violation(rules['clear_must'] if not s.cleared else rules['clear_only'], st,
                                            'default clearing of outer %s parameters does not depend on whether the first inner positional '
                                            'parameter has a default' % proto.kind_at(s.idx), key=key + '|untested', guards=gtext, effect=desc)
                        else:
                            check.holds(rules['clear_must'], st, 'default clearing conforms to table B8', key=key + '|clear', guards=gtext, effect=desc)
                            check.holds(rules['clear_only'], st, 'default clearing conforms to table B8', key=key + '|clear', guards=gtext, effect=desc)
            else:
                got = [(s.side, proto.kind_at(s.idx)) for s in segs]
                if got != [('outer', 'KWO'), ('inner', 'KWO')]:
                    check.violation(rules['kinds'], st, 'keyword-only output is built from %s, expected outer then inner keyword-only' % got,
                                    key=key + '|members', guards=gtext, effect=desc)
                if any(s.cleared for s in segs):
                    check.violation(rules['clear_only'], st, 'defaults of keyword-only parameters are cleared', key=key + '|kwoclear',
                                    guards=gtext, effect=desc)
    check.floor(rules['kinds'], 'output buckets x paths of _embed', n, 30)


def _expected_positional(i, ipo):
    if i == 0:
        a = [('outer', 'PO'), ('outer', 'POK'), ('inner', 'PO')]
        b = [('outer', 'PO')]
    else:
        a = [('inner', 'POK')]
        b = [('outer', 'POK'), ('inner', 'POK')]
    if ipo is True:
        return [a]
    if ipo is False:
        return [b]
    return [a, b]


def _need_clear(ipo, dpo, ipok, dpok):
    """must / mustnot / either(untested) / ok-any"""
    if ipo:
        if dpo is None:
            return 'either'
        return 'mustnot' if dpo else 'must'
    # no inner positional-only
    if ipok is False:
        return 'mustnot'
    if ipok is None:
        return 'either' if dpok is None else ('mustnot' if dpok else 'either')
    if dpok is None:
        return 'either'
    return 'mustnot' if dpok else 'must'


def rule_embed_dupes(check, model, rule):
    """C02.R3: every update of the keyword-only output is preceded in its path by
    `_check_no_dupes(names, <same values>)` on the shared set, and every other
    bucket's names are added to that set"""
    proto = model.proto
    kwo = proto.index_of_kind('KWO')
    n = 0
    for p, items in model.ret_paths:
        gtext = lits_text(p.lits)
        sets = {}
        checked = []   # (set term, bucket, position in effects)
        for pos, e in enumerate(p.effects):
            if e.kind == 'call' and isinstance(e.op, str) and e.op.endswith(':_check_no_dupes') and len(e.args) == 2:
                b = model.sides.bucket(e.args[1])
                checked.append((e.args[0], b, pos, e))
        the_sets = set(c[0] for c in checked)
        key = '_signatures:_embed|dupes|%s' % gtext
        node = [e for e in p.effects if e.kind == 'return'][-1].node
        st = site(None, node)
        n += 1
        if len(the_sets) > 1:
            check.violation(rule, st, 'duplicate-name checks use %d different name sets' % len(the_sets), key=key, guards=gtext,
                            witness="embed(s('*a, k, **kw'), s('*, k')) must raise")
            continue
        if not checked:
            check.violation(rule, st, 'no duplicate-name check on this path', key=key, guards=gtext,
                            witness="embed(s('*a, k, **kw'), s('*, k')) must raise")
            continue
        ok = True
        for pos, e in enumerate(p.effects):
            if e.kind == 'mut' and e.target == items[kwo] and e.op in ('update', 'setitem') and e.args:
                b = model.sides.bucket(e.args[0])
                prior = [c for c in checked if c[1] == b and c[2] < pos]
                if not prior:
                    ok = False
                    check.violation(rule, site(None, e.node), 'keyword-only parameters of %s enter the result without a prior duplicate-name check'
                                    % (b[0] if b else show(e.args[0])), key=key + '|' + norm(e.node), guards=gtext,
                                    witness="embed(s('*a, k, **kw'), s('*, k')) silently keeps one k")
        # every bucket that reaches the output has its names collected
        contents = model.bucket_contents(p)
        used = set()
        for i in (0, 1, 3):
            for s in contents.get(items[i]) or []:
                if s.side is not None:
                    used.add((s.side, s.idx))
        missing = [b for b in used if b not in [c[1] for c in checked]]
        if missing:
            ok = False
            check.violation(rule, st, 'names of %s reach the output but never enter the duplicate-name set'
                            % ', '.join('%s[%s]' % b for b in sorted(missing)), key=key + '|missing', guards=gtext,
                            witness="embed(s('a, *args, k'), s('*, a')) must raise")
        if ok:
            check.holds(rule, st, 'every bucket is checked against the shared name set before it is stored', key=key, guards=gtext)
    check.floor(rule, 'paths of _embed', n, 10)


def _merge_model_for(model):
    if not hasattr(model, '_merge_model'):
        try:
            from .merge_model import MergeModel
            mm = MergeModel(model.repo, model.proto)
            # canonical guards are computed lazily: walk the paths once so that the `is None` tests get recorded
            from .rules_merge import PathRec
            for kind, info, loop, outer in mm.loops():
                for sp in loop.sub:
                    PathRec(mm, sp, info.get('cur', {}))
            for p, _ in list(mm.ret_paths) + [(p, None) for p in mm.raise_paths]:
                PathRec(mm, p, {}, toplevel=True)
            model._merge_model = mm
        except Inconclusive:
            model._merge_model = None
    return model._merge_model


def rule_embed_flags(check, model, rule):
    """C02.R4: star-flag coherence inside _embed and name-preserving forwarding from embed()"""
    proto = model.proto
    ivp, ivk = proto.index_of_kind('VP'), proto.index_of_kind('VK')
    st = site(None, model.merger_call.node)
    right0 = model.merger_call.args[1] if len(model.merger_call.args) == 2 else None
    if right0 is not None and right0[0] == 'P' and model.step_call_args is not None:
        # the forwarded-stars operand is handed in by the caller: it must describe the *current* outer operand of each fold
        # step (the accumulator), so it has to be computed inside the fold loop
        pub, call, bound = model.step_call_args
        arg = bound.get(right0[1])
        loop = None
        t = call
        while t is not None:
            t = getattr(t, '_parent', None)
            if isinstance(t, (ast.For, ast.While)):
                loop = t
                break
        key = '_signatures:_embed|stars|handed-in'
        if isinstance(arg, ast.Name) and loop is not None:
            assigns = [a for a in ast.walk(pub.node) if isinstance(a, ast.Assign) and any(isinstance(x, ast.Name) and x.id == arg.id for x in a.targets)]
            inside = [a for a in assigns if any(a is y for y in ast.walk(loop))]
            if assigns and not inside:
                check.violation(rule, '%s %s' % (pub.loc(assigns[0]), pub.key), 'the stars offered to the inner signature (%s) are computed once, before the fold '
                                'loop, from the outermost signature and reused at every level: from the second level on they no longer describe '
                                'what the accumulated outer signature forwards' % arg.id, key=key,
                                witness="embed(s('x, *args, **kwargs'), s('y, **kwargs'), s('z, w=0')) differs from embed(embed(a, b), c)")
                return
        check.inconclusive(rule, st, '_embed receives the forwarded-stars operand from its caller: construction not followed', key=key)
        return
    items = model.flag_roles()
    # (a) stars operand: empty PO/POK/KWO, star i = <flag_i> and outer[i]
    flags = {}
    for idx, kind in ((ivp, 'VP'), (ivk, 'VK')):
        t = items[idx]
        key = '_signatures:_embed|stars|%s' % kind
        if t[0] == 'B' and t[1] == 'and' and set([t[2][0], t[3][0]]) == set(['P', 'S']):
            flag = t[2] if t[2][0] == 'P' else t[3]
            star = t[3] if t[2][0] == 'P' else t[2]
            b = model.sides.bucket(star)
            if b == ('outer', idx):
                flags[kind] = flag
                check.holds(rule, st, 'the outer %s is offered to the inner signature only under its own flag %s' % (kind, flag[1]), key=key,
                            effect=show(t))
                # `flag and star` is False -- not None -- when the flag is off: the merger must treat any falsy placeholder as
                # "no star", i.e. test its star slots by truthiness
                mm = _merge_model_for(model)
                key2 = '_signatures:_embed|stars|%s|placeholder' % kind
                tests = [a for a in mm.isnone_star_tests if mm.proto.kind_at(mm.sides.bucket(a[1])[1]) == kind] if mm is not None else []
                if tests:
                    check.violation(rule, st, 'with %s off the %s offered to the inner signature is the placeholder False (`%s`), but _Merger tests that '
                                    'slot with `is None` (%s): False counts as a star parameter, so the inner positionals are embedded although '
                                    'nothing forwards them' % (flag[1], kind, show(t)[:50], show(tests[0][1])[:40]), key=key2,
                                    witness="embed(s('a, *args, **kwargs'), s('b, /'), use_varargs=False) must raise, not return (a, b, /)")
                elif mm is not None:
                    check.holds(rule, st, '_Merger tests its %s slots by truthiness: the False placeholder means "no star"' % kind, key=key2)
            else:
                check.violation(rule, st, 'stars operand position %d (%s) offers %s' % (idx, kind, show(star)), key=key, effect=show(t),
                                witness="embed(s('*args'), s('a'), use_varkwargs=False)")
        elif t[0] == 'IF' and t[1][0] == 'lit' and t[1][1][0] == 'truthy' and t[1][1][1][0] == 'P' and \
                ((t[1][2] and model.sides.bucket(t[2]) == ('outer', idx) and t[3] == NONE) or
                 (not t[1][2] and model.sides.bucket(t[3]) == ('outer', idx) and t[2] == NONE)):
            # `star if flag else None`: the same offer with a real None as placeholder (any test of the slot works)
            flags[kind] = t[1][1][1]
            check.holds(rule, st, 'the outer %s is offered to the inner signature only under its own flag %s (None otherwise)' % (kind, t[1][1][1][1]),
                        key=key, effect=show(t))
        elif model.sides.bucket(t) == ('outer', idx):
            check.violation(rule, st, 'the outer %s is offered to the inner signature unconditionally (its use flag is ignored)' % kind,
                            key=key, effect=show(t), witness="embed(s('a, *args, **kwargs'), s('b'), use_varargs=False) must keep *args")
        else:
            check.inconclusive(rule, st, 'stars operand position %d not understood: %s' % (idx, show(t)[:100]), key=key)
    for idx in range(6):
        if idx in (ivp, ivk):
            continue
        t = items[idx]
        init = model.interp.obj_init.get(t)
        if not (t[0] in ('L', 'D') and init is not None and init[0] == 'T' and not init[1]):
            check.violation(rule, st, 'stars operand position %d is not empty: %s' % (idx, show(t)), key='_signatures:_embed|stars|empty%d' % idx)
    if len(flags) == 2 and flags['VP'] == flags['VK']:
        check.violation(rule, st, 'one flag controls both stars', key='_signatures:_embed|stars|same')
    # left operand must be the inner signature
    if model.merger_call.args[0] != model.p_inner:
        check.violation(rule, st, 'the inner signature is not the left operand of the merge with the stars', key='_signatures:_embed|stars|left',
                        effect=repr(model.merger_call))
    # (b) returned stars: inner's under the flag, outer's otherwise
    n = 0
    for p, ritems in model.ret_paths:
        g, unknown = embed_guards(model, p)
        if g.get('__infeasible__'):
            continue
        gtext = lits_text(p.lits)
        node = [e for e in p.effects if e.kind == 'return'][-1].node
        for idx, kind in ((ivp, 'VP'), (ivk, 'VK')):
            n += 1
            flag = flags.get(kind)
            key = '_signatures:_embed|retstar|%s|%s' % (kind, gtext)
            if flag is None:
                continue
            t = ritems[idx]
            fv = g.get(('flag', flag[1]))
            opts = []
            if t[0] == 'IF':
                c = t[1]
                if c[0] == 'lit' and c[1] == ('truthy', flag):
                    a, b = (t[2], t[3]) if c[2] else (t[3], t[2])
                    opts = [(True, a), (False, b)]
                else:
                    check.violation(rule, site(None, node), 'the returned %s is selected by %s instead of its own flag %s'
                                    % (kind, show(('IF', c, K('..'), K('..')))[:80], flag[1]), key=key, guards=gtext, effect=show(t)[:200],
                                    witness="embed(s('*args, **kwargs'), s('a'), use_varargs=False)")
                    continue
            elif fv is not None:
                opts = [(fv, t)]
            else:
                opts = [(True, t), (False, t)]
            bad = False
            for val, tt in opts:
                b = model.sides.bucket(tt)
                want = ('inner', idx) if val else ('outer', idx)
                if b != want:
                    bad = True
                    check.violation(rule, site(None, node), 'with %s=%s the result\'s %s is %s, expected the %s one'
                                    % (flag[1], val, kind, show(tt)[:80], want[0]), key=key, guards=gtext, effect=show(t)[:200],
                                    witness="embed(s('a, *args, **kwargs'), s('b, *rest'), use_varargs=False) keeps *args")
            if not bad:
                check.holds(rule, site(None, node), 'returned %s: inner under %s, outer otherwise' % (kind, flag[1]), key=key, guards=gtext)
    check.floor(rule, 'returned star selections', n, 4)
    # (c) embed() forwards its flags to the same-named parameters
    fi = check.repo.func(SIG + ':embed')
    check.analysed(fi)
    it = Interp(check.repo, Policy())
    paths = it.run(fi)
    check.absorb(it)
    calls = []
    for p in paths:
        for e, g in walk_effects(p.effects):
            if e.kind == 'call' and isinstance(e.op, str) and e.op.endswith(':_embed'):
                calls.append(e)
        if calls:
            break
    if not calls:
        raise Inconclusive('embed: call of _embed not found')
    e = calls[0]
    bound = _bind(model.fi, e.args, e.kws)
    for kind in ('VP', 'VK'):
        flag = flags.get(kind)
        if flag is None or bound is None:
            check.inconclusive(rule, site(None, e.node), 'cannot bind the arguments of _embed()', key='_signatures:embed|flags|' + kind)
            continue
        pub = 'use_varargs' if kind == 'VP' else 'use_varkwargs'
        got = bound.get(flag[1])
        key = '_signatures:embed|flags|%s' % kind
        if got == ('P', pub):
            check.holds(rule, site(None, e.node), 'embed(%s=) reaches the %s flag of _embed' % (pub, kind), key=key)
        elif got is None:
            check.violation(rule, site(None, e.node), 'embed() does not pass %s to _embed (default used)' % pub, key=key,
                            witness="embed(s('*args'), s('a'), %s=False)" % pub)
        else:
            check.violation(rule, site(None, e.node), 'embed() passes %s where _embed expects the %s flag' % (show(got), kind), key=key,
                            effect=repr(e)[:300], witness="embed(s('a, *args, **kwargs'), s('b'), use_varargs=False)")
    # depth argument = loop index starting at 1 (C02.R5 / C08.R5)
    return bound


def _bind(fi, args, kws):
    pos, vararg, kwonly, kwarg = fi.params()
    if any(a[0] == 'STAR' for a in args) or any(n is None for n, _ in kws):
        return None
    out = {}
    for i, a in enumerate(args):
        if i < len(pos):
            out[pos[i]] = a
    for n, v in kws:
        out[n] = v
    return out


def _origins(model, t, depth=0):
    """bucket references reachable from a term, looking through private
    copies (`dict(x)`, `list(x)`) made in this activation"""
    out = set()
    if depth > 6:
        return out
    for s in subterms(t):
        b = model.sides.bucket(s)
        if b is not None:
            out.add(b)
        if s[0] in ('D', 'L') and s in model.interp.obj_init and s is not t:
            out |= _origins(model, model.interp.obj_init[s], depth + 1)
    if t[0] in ('D', 'L') and t in model.interp.obj_init:
        out |= _origins(model, model.interp.obj_init[t], depth + 1)
    return out


def rule_embed_sources(check, model, rules):
    """C08.R3 union hygiene, C08.R4 '+depths' present, C08.R5 depth arithmetic"""
    proto = model.proto
    n = 0
    depth_p = ('P', model.depth_name)
    for p, items in model.ret_paths:
        gtext = lits_text(p.lits)
        src = items[5]
        node = [e for e in p.effects if e.kind == 'return'][-1].node
        st = site(None, node)
        n += 1
        init = model.interp.obj_init.get(src)
        key = '_signatures:_embed|src|%s' % gtext
        if src[0] != 'D' or init is None:
            check.inconclusive(rules['union'], st, 'result provenance map is not a fresh dict: %s' % show(src)[:100], key=key)
            continue
        # which maps were united
        parts = set()
        for s in subterms(init):
            b = model.sides.bucket(s)
            if b is not None and b[1] == 5:
                parts.add(b[0])
        # copies made before the union: dict(o_src) objects count as their origin
        for s in subterms(init):
            if s[0] == 'D' and s in model.interp.obj_init:
                for s2 in subterms(model.interp.obj_init[s]):
                    b = model.sides.bucket(s2)
                    if b is not None and b[1] == 5:
                        parts.add(b[0])
        if parts != set(['outer', 'inner']):
            check.violation(rules['union'], st, 'result provenance map is built from %s only' % sorted(parts), key=key, guards=gtext,
                            effect=show(init)[:200], witness="embed(s('a, *args'), s('b')).sources lacks 'a' or 'b'")
            continue
        # the entry of an outer star parameter leaves the map only when that star is forwarded (replaced by the inner
        # one); with the flag off the result keeps the outer star and must keep its entry
        g_, unk_ = embed_guards(model, p)
        for e in p.effects:
            if e.kind == 'mut' and e.op in ('pop', 'delitem') and e.args and e.args[0][0] == 'A' and e.args[0][2] == 'name':
                b = model.sides.bucket(e.args[0][1])
                if b is None or b[0] != 'outer' or proto.kind_at(b[1]) not in ('VP', 'VK'):
                    continue
                kind = proto.kind_at(b[1])
                flag = model.flag_vp if kind == 'VP' else model.flag_vk
                fv = g_.get(('flag', flag))
                kf = '_signatures:_embed|starpop-flag|%s|%s' % (kind, fv)
                if fv is True:
                    check.holds(rules['union'], site(None, e.node), 'the outer %s entry is removed only when %s forwards it' % (kind, flag), key=kf)
                else:
                    check.violation(rules['union'], site(None, e.node), 'the provenance entry of the outer %s is removed %s: with the flag off the '
                                    'result keeps the outer %s, which is left without an entry' % (
                                        '*args' if kind == 'VP' else '**kwargs', 'although %s is false' % flag if fv is False else
                                        'without testing %s' % flag, '*args' if kind == 'VP' else '**kwargs'), key=kf, guards=gtext,
                                    witness="embed(s('a, **kwargs'), s('b'), use_varkwargs=False).sources['kwargs']")
        # deletions on the united map keyed by an outer parameter name
        bad = False
        for e in p.effects:
            if e.kind == 'mut' and e.target == src and e.op in ('pop', 'delitem') and e.args:
                k0 = e.args[0]
                if k0[0] == 'A' and k0[2] == 'name':
                    b = model.sides.bucket(_strip_flag(k0[1]))
                    if b is not None and b[0] == 'outer':
                        # the union holds the inner signature's entries too, under whatever names inner uses -- a star of the
                        # same name, but just as well an ordinary parameter called `args`/`kwargs`.  Removing by the outer
                        # star's name is only harmless when the path has established that inner has no entry of that name
                        excluded = any(a[0] == 'in' and a[1] == k0 and not pol and model.sides.bucket(a[2]) == ('inner', 5)
                                       for a, pol in p.lits)
                        if not excluded:
                            bad = True
                            check.violation(
                                rules['union'], site(None, e.node),
                                'the forwarded outer %s entry is removed by name from the union of both provenance maps: '
                                'an inner parameter of the same name (a %s, or an ordinary parameter spelled like it), which the result '
                                'keeps, loses its entry'
                                % (proto.kind_at(b[1]), proto.kind_at(b[1])),
                                key='_signatures:_embed|union-pop|%s' % norm(e.node), guards=gtext, effect=repr(e),
                                witness="embed(s('a, *args, **kwargs'), s('x, *args, **kwargs')).sources has no 'args'/'kwargs' entry")
        if not bad:
            check.holds(rules['union'], st, 'provenance map is the union of both maps; forwarded outer stars are not removed from the union',
                        key=key, guards=gtext)
        # '+depths'
        dep = [e for e in p.effects if e.kind == 'mut' and e.target == src and e.op == 'setitem' and e.args[0] == K('+depths')]
        key = '_signatures:_embed|depths|%s' % gtext
        if not dep:
            check.violation(rules['depths'], st, "the result provenance map gets no '+depths' entry of its own", key=key, guards=gtext,
                            witness="embed(a, b).sources['+depths'] misses inner callables")
            continue
        val = dep[-1].args[1]
        check.holds(rules['depths'], site(None, dep[-1].node), "'+depths' assigned on this path", key=key, guards=gtext)
        key = '_signatures:_embed|deptharith|%s' % gtext
        if val[0] == 'C' and isinstance(val[1], str) and val[1].endswith(':merge_depths') and len(val[2]) == 2:
            a, b = val[2]
            oa = _origins(model, a)
            ok_outer = ('outer', 5) in oa and ('inner', 5) not in oa and not mentions(a, depth_p)
            binit = model.interp.obj_init.get(b, b)
            # the increment: `<inner depth> + X`
            incs = []
            for s in subterms(binit):
                if s[0] == 'B' and s[1] == 'Add':
                    for v_, x_ in ((s[2], s[3]), (s[3], s[2])):
                        if ('inner', 5) in _origins(model, v_) or (v_[0] in ('S', 'E') and not mentions(x_, v_)):
                            if ('inner', 5) not in _origins(model, x_):
                                incs.append(x_)
            incs = [x_ for x_ in incs if x_ != K(1) or True]
            inc = None
            for x_ in incs:
                if x_ == depth_p or mentions(x_, depth_p) or ('outer', 5) in _origins(model, x_):
                    inc = x_
            rest_outer = ('outer', 5) in _origins(model, binit) and (inc is None or ('outer', 5) not in _origins(model, inc))
            inner_ok = ('inner', 5) in _origins(model, binit) and not rest_outer
            plus = inc is not None
            by_position_only = inc == depth_p
            if ok_outer and inner_ok and plus and by_position_only:
                # (D48) right only when the outer signature is a single callable: the inner one is one step further than the callable of the
                # outer one that owns the star parameters it goes through, which sits deeper when the outer signature is itself composite
                check.violation(rules['arith'], site(None, dep[-1].node), 'inner depths are increased by the position of the operand only: when the outer '
                                'signature is itself composite (a result of embed/forwards, the signature of a partial object) the callable that '
                                'forwards sits deeper than that, and the embedded callable is reported at its depth instead of one step further',
                                key=key, guards=gtext, effect=show(binit)[:200],
                                witness="embed(embed(p, q), r).sources['+depths'][r_func] must be 2; wrappers.wrapper_decorator: the wrapped function "
                                        "must be deeper than the decorator that calls it")
            elif ok_outer and inner_ok and plus and ('outer', 5) in _origins(model, inc) and not any(
                    s_[0] == 'B' and s_[1] == 'Add' and K(1) in (s_[2], s_[3]) and ('outer', 5) in _origins(model, s_) for s_ in _deep_subterms(model, inc)):
                # (mutant sweep 5) one step *further* than the forwarding callable: its depth plus one
                check.violation(rules['arith'], site(None, dep[-1].node), 'the increment is computed from the depths of the forwarding callables without '
                                'adding one: the embedded callable is reported at the depth of the callable that forwards to it', key=key, guards=gtext,
                                effect=show(inc)[:160], witness="embed(embed(p, q), r).sources['+depths'][r_func] must be 2")
            elif ok_outer and inner_ok and plus:
                check.holds(rules['arith'], site(None, dep[-1].node), 'outer depths kept, inner depths increased past the forwarding callable, combined '
                            'by merge_depths', key=key, guards=gtext)
            elif ok_outer and inner_ok and not plus:
                check.violation(rules['arith'], site(None, dep[-1].node), 'inner depths are not increased by the embedding depth', key=key,
                                guards=gtext, effect=show(binit)[:200], witness="embed(a, b).sources['+depths'][b_func] must be 1")
            else:
                check.violation(rules['arith'], site(None, dep[-1].node), 'depth maps combined from the wrong operands: %s' % show(val)[:200],
                                key=key, guards=gtext)
        elif val[0] == 'D' and val in model.interp.obj_init:
            # a dict display/constructor filled from one side's depths and then updated with the other's
            init = model.interp.obj_init.get(val)
            org = set(o for o in _origins(model, init) if o[1] == 5)
            for e in p.effects:
                if e.kind == 'mut' and e.target in (val, ('S', src, K('+depths'))) and e.op in ('update', 'setitem') and e.args:
                    for a_ in e.args:
                        org |= set(o for o in _origins(model, a_) if o[1] == 5)
            sides_ = set(o[0] for o in org)
            if sides_ >= set(['outer', 'inner']):
                check.violation(rules['arith'], site(None, dep[-1].node), "the two '+depths' maps are combined by overwriting (dict construction/update), "
                                "not by keeping the smaller depth (merge_depths): a callable reached through both signatures is recorded at the depth "
                                "of whichever map is applied last", key=key, guards=gtext, effect=show(init)[:160],
                                witness="forwarding o -> m -> g and o -> g: g must be recorded at depth 1, not 2")
            elif sides_:
                check.violation(rules['arith'], site(None, dep[-1].node), "'+depths' is built from the %s map only" % sorted(sides_)[0], key=key,
                                guards=gtext, effect=show(init)[:160], witness="embed(a, b).sources['+depths'] must list the callables of a and b")
            else:
                check.inconclusive(rules['arith'], site(None, dep[-1].node), "'+depths' value not understood: %s" % show(init)[:200], key=key)
        else:
            check.inconclusive(rules['arith'], site(None, dep[-1].node), "'+depths' value not understood: %s" % show(val)[:200], key=key)
    check.floor(rules['union'], 'paths of _embed', n, 10)


# ---------------------------------------------------------------------------
# the accumulator of embed()'s fold is a plain tuple

def _deep_subterms(model, t, _seen=None):
    """subterms of t, looking also into what the containers it mentions were built from"""
    _seen = _seen if _seen is not None else set()
    for s_ in subterms(t):
        yield s_
        if isinstance(s_, tuple) and s_ and s_[0] in ('L', 'D', 'SET') and s_ not in _seen:
            _seen.add(s_)
            init = model.interp.obj_init.get(s_)
            if init is not None:
                for x in _deep_subterms(model, init, _seen):
                    yield x


def _namedtuple_fields(repo, name='SortedParameters'):
    m = repo.modules.get('_signatures')
    for v in (m.assigns.get(name) or []):
        if isinstance(v, ast.Call) and norm(v.func).endswith('namedtuple') and len(v.args) >= 2:
            f = v.args[1]
            if isinstance(f, ast.Constant) and isinstance(f.value, str):
                return f.value.replace(',', ' ').split()
            if isinstance(f, (ast.List, ast.Tuple)):
                return [e.value for e in f.elts if isinstance(e, ast.Constant)]
    return []


def rule_accumulator_by_position(check, rule):
    """embed() folds `_embed` over its inputs and hands each result back as the next `outer`.  `_embed` returns a plain tuple,
    so from the second step on `outer` has positions but no field names: reading `outer.varargs` (in `_embed` or in a helper it
    passes `outer` to) raises AttributeError -- not a ValueError -- for every embed() of three or more signatures, although
    it works for two (the first `outer` comes from sort_params, a named tuple)."""
    repo = check.repo
    fi = repo.func(SIG + ':_embed')
    check.analysed(fi)
    fields = set(_namedtuple_fields(repo))
    if not fields:
        check.inconclusive(rule, site(None, fi.node), 'field names of SortedParameters not found', key='accumulator|fields')
        return
    # does every return of _embed build the named tuple?  then field access is fine
    rets = [n for n in ast.walk(fi.node) if isinstance(n, ast.Return) and n.value is not None]
    named = rets and all(isinstance(r.value, ast.Call) and norm(r.value.func).split('.')[-1] == 'SortedParameters' for r in rets)
    outer = fi.params()[0][0]
    key = '_signatures:_embed|accumulator'
    if named:
        check.holds(rule, site(None, fi.node), '_embed returns SortedParameters(...): the accumulator keeps its field names', key=key)
        return
    bad = []

    def scan(fn, pname, where):
        for n in ast.walk(fn.node):
            if isinstance(n, ast.Attribute) and isinstance(n.value, ast.Name) and n.value.id == pname and n.attr in fields \
                    and isinstance(n.ctx, ast.Load):
                bad.append((fn, n, where))
    scan(fi, outer, '_embed')
    for c in ast.walk(fi.node):
        if isinstance(c, ast.Call) and isinstance(c.func, ast.Name):
            h = fi.module.funcs.get(c.func.id)
            if h is None or h is fi:
                continue
            hp = h.params()[0]
            for i, a in enumerate(c.args):
                if isinstance(a, ast.Name) and a.id == outer and i < len(hp):
                    check.analysed(h)
                    scan(h, hp[i], h.name)
            for kw in c.keywords:
                if isinstance(kw.value, ast.Name) and kw.value.id == outer and kw.arg in hp:
                    scan(h, kw.arg, h.name)
    if bad:
        for fn, n, where in bad[:3]:
            check.violation(rule, '%s %s' % (fn.loc(n), fn.key), '%s reads %s by field name, but from the second fold step on the outer operand is the '
                            'plain tuple _embed returned: AttributeError for every embed() of three or more signatures'
                            % (where, norm(n)), key=key + '|' + norm(n), witness="embed(s('a, *args, **kwargs'), s('b, *args, **kwargs'), s('c'))")
    else:
        check.holds(rule, site(None, fi.node), 'the outer operand is only taken apart by position (it is a plain tuple from the second fold step on)',
                    key=key)
