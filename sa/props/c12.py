"""C12 -- kwoargs/posoargs/autokwoargs: advertised signature equals call behaviour."""
from ..rules_modifiers import rule_prepare_table, rule_call_table, rule_forms, rule_anchor_getter_rederives

EXPLANATION = (
    "Static analysis (decision-table conformance on enumerated paths; no execution). Decides the decoration-time and "
    "rejection structure only: C12.R1 -- the per-parameter table of _PokTranslator._prepare (B13: positional-only / "
    "keyword-only conversion changes the kind only, keyword-only parameters are emitted after *args and before **kwargs and "
    "recorded with their index in the original parameter list, inadmissible selections raise ValueError); C12.R2 -- the "
    "call-time table of __call__ (B14: keyword naming a positional-only parameter and missing required keyword-only "
    "arguments raise TypeError, values and defaults are re-inserted at the recorded position, the wrapped function receives "
    "the rebuilt arguments); C12.R3 -- start=/end=/auto forms select exactly among positional-or-keyword parameters and "
    "apply kwoargs to every selected name. It does NOT decide the delivery of argument values (index arithmetic on runtime "
    "lists) nor the iff over calls.")
ASSUMPTIONS = [
    "tables B13/B14 of DESIGN.md are the trusted base",
    "Parameter.replace(kind=) keeps default and annotation",
]


def run(check):
    check.run_rule('C12.R1', lambda c: rule_prepare_table(c, 'C12.R1', 'C12.R1'))
    from ..rules_defuse import rule_definite_assignment
    check.run_rule('C12.R6', lambda c: rule_definite_assignment(
        c, 'C12.R6', ['modifiers:_PokTranslator.__init__', 'modifiers:_PokTranslator.__call__', 'modifiers:_kwoargs_start', 'modifiers:_posoargs_end',
                      'modifiers:_autokwoargs', 'modifiers:annotate.__call__'], 'instead of the documented ValueError/TypeError'))
    from ..rules_modifiers import rule_kwopos_index
    check.run_rule('C12.R1k', lambda c: rule_kwopos_index(c, 'C12.R1'))
    # the function being decorated may already be a translator: both selections must survive, also on the bound copy (shared with C18.R2)
    from ..rules_modifiers import rule_merge_other
    check.run_rule('C12.R7', lambda c: rule_merge_other(c, 'C12.R7'))
    from ..rules_modifiers import rule_empty_selection_guarded
    check.run_rule('C12.R5', lambda c: rule_empty_selection_guarded(c, 'C12.R5'))
    from ..rules_defuse import rule_sentinel_identity
    check.run_rule('C12.R8', lambda c: rule_sentinel_identity(c, 'C12.R8', ['modifiers'], '-- kwoargs() demands an argument for a parameter that has a default', floor=2))
    from ..rules_modifiers import rule_bound_copy_selection
    check.run_rule('C12.R9', lambda c: rule_bound_copy_selection(c, 'C12.R9'))
    from ..rules_wrappers import rule_transparent_receiver
    check.run_rule('C12.R11', lambda c: rule_anchor_getter_rederives(c, 'C12.R11'))
    check.run_rule('C12.R10', lambda c: rule_transparent_receiver(c, 'C12.R10', 'modifiers', ['_PokTranslator']))
    from ..rules_modifiers import rule_prepare_admissibility
    check.run_rule('C12.R1a', lambda c: rule_prepare_admissibility(c, 'C12.R1'))
    check.run_rule('C12.R2', lambda c: rule_call_table(c, 'C12.R2'))
    check.run_rule('C12.R3', lambda c: rule_forms(c, 'C12.R3'))
    from ..rules_modifiers import rule_descriptor_cache
    from ..rules_derived import rule_partial_targets_pure
    check.run_rule('C12.R3p', lambda c: rule_partial_targets_pure(c, 'C12.R3', ('modifiers',)))
    check.run_rule('C12.R4', lambda c: rule_descriptor_cache(c, 'C12.R4', None))
    from ..rules_modifiers import rule_cache_per_descriptor
    check.run_rule('C12.R4b', lambda c: rule_cache_per_descriptor(c, 'C12.R4'))
