"""C15 -- the algebra fails only with ValueError and never yields malformed output."""
import ast

from ..index import Inconclusive, norm
from ..interp import Interp, Policy, show, show_lit, walk_effects, K, NONE
from .. import rules_fold
from ..rules_escape import rule_explicit_raises, rule_fallback_discipline, site_of
from ..rules_implicit import rule_nullable_deref, rule_partial_map_lookup
from ._shared import Models

EXPLANATION = (
    "Static analysis (interprocedural exception-escape analysis over the resolved call graph, plus structural rules; no "
    "execution). Decides the structural clauses C15.R1-R5: every fold step of merge/embed is wrapped by a ValueError -> "
    "IncompatibleSignatures conversion; every explicit raise (and assert) that can escape merge/embed/mask/forwards/"
    "sort_params/apply_params is a ValueError subclass or in a reviewed table; every result is built by apply_params through "
    "the validating inspect constructor and nothing passes __validate_parameters__=False; signatures and parameter lists are "
    "upgraded (with DeprecationWarning exactly on the non-upgraded branch) before use; every algebra call inside discovery is "
    "converted to the fallback signal or reviewed. It does NOT decide the absence of implicit exception types.")
ASSUMPTIONS = [
    "only explicit raise/assert statements and a vetted table of external raisers are modelled; implicit TypeError/KeyError/"
    "AttributeError of dynamically typed expressions are not (no types)",
    "the reviewed tables REVIEWED_RAISES / REVIEWED_VIA in sa/rules_escape.py (one reason per entry)",
    "callee resolution of the call graph; dynamic calls on values are not followed",
]


def rule_validation(check, rule):
    repo = check.repo
    n = 0
    # zero-expected: no call disables validation
    for m in repo.modules.values():
        for node in ast.walk(m.tree):
            if isinstance(node, ast.Call):
                n += 1
                for kw in node.keywords:
                    if kw.arg == '__validate_parameters__' and not (isinstance(kw.value, ast.Constant) and kw.value.value is True):
                        check.violation(rule, '%s:%d' % (m.relpath, node.lineno), 'a signature is constructed with parameter validation disabled',
                                        key='%s|novalidate|%s' % (m.name, norm(node)[:60]),
                                        witness='results must have valid parameter order and unique names')
    check.holds(rule, '-', 'no call in the package passes __validate_parameters__=False (%d calls scanned)' % n, key='novalidate')
    # every public operation returns what apply_params built
    for key in ('_signatures:merge', '_signatures:embed', '_signatures:_mask'):
        fi = repo.func(key)
        check.analysed(fi)
        it = Interp(repo, Policy())
        paths = it.run(fi)
        check.absorb(it)
        seen = set()
        for p in paths:
            if p.status != 'return':
                continue
            v = p.value
            k = '%s|result' % key
            if k in seen:
                continue
            node = [e for e in p.effects if e.kind == 'return'][-1].node
            if v[0] == 'C' and str(v[1]).endswith(':apply_params'):
                seen.add(k)
                check.holds(rule, site_of(fi, node), 'result built by apply_params', key=k)
            else:
                check.violation(rule, site_of(fi, node), 'result is %s, not built by apply_params (validating constructor bypassed)' % show(v)[:80], key=k)
    # mask / forwards delegate
    for key, callee in (('_signatures:mask', ':_mask'), ('_signatures:forwards', ':embed')):
        fi = repo.func(key)
        check.analysed(fi)
        it = Interp(repo, Policy())
        paths = it.run(fi)
        check.absorb(it)
        for p in paths:
            if p.status == 'return':
                v = p.value
                k = '%s|result' % key
                node = [e for e in p.effects if e.kind == 'return'][-1].node
                if v[0] == 'C' and str(v[1]).endswith(callee):
                    check.holds(rule, site_of(fi, node), 'result is that of %s' % callee[1:], key=k)
                else:
                    check.violation(rule, site_of(fi, node), 'result is %s' % show(v)[:80], key=k)
                break
    # apply_params -> sig.replace(parameters=...) ; replace -> super().replace ; __init__ -> base __init__
    ap = repo.func('_signatures:apply_params')
    txt = [n_ for n_ in ast.walk(ap.node) if isinstance(n_, ast.Call) and isinstance(n_.func, ast.Attribute) and n_.func.attr == 'replace'
           and any(kw.arg == 'parameters' for kw in n_.keywords)]
    ctor = [n_ for n_ in ast.walk(ap.node) if isinstance(n_, ast.Call) and norm(n_.func).split('.')[-1] in ('UpgradedSignature', 'Signature')
            and (n_.args or any(kw.arg == 'parameters' for kw in n_.keywords))]
    rets = [n_ for n_ in ast.walk(ap.node) if isinstance(n_, ast.Return)]
    if txt:
        check.holds(rule, site_of(ap, txt[0]), 'apply_params rebuilds through Signature.replace(parameters=...)', key='apply_params|replace')
    elif ctor and all(isinstance(r.value, ast.Call) and r.value in ctor for r in rets):
        # (the class constructor validates just the same: what it may lose is C09.R2's business)
        check.holds(rule, site_of(ap, ctor[0]), 'apply_params rebuilds through the validating UpgradedSignature constructor', key='apply_params|replace')
    else:
        check.violation(rule, site_of(ap, ap.node), 'apply_params no longer rebuilds the signature through replace(parameters=...)', key='apply_params|replace')
    us = repo.cls('_signatures:UpgradedSignature')
    for mname in ('replace', '__init__'):
        m = us.methods.get(mname)
        if m is None:
            continue
        check.analysed(m)
        sup = [n_ for n_ in ast.walk(m.node) if isinstance(n_, ast.Call) and isinstance(n_.func, ast.Attribute) and n_.func.attr == mname
               and isinstance(n_.func.value, ast.Call) and norm(n_.func.value.func) == 'super']
        k = 'UpgradedSignature.%s|super' % mname
        if sup:
            check.holds(rule, site_of(m, sup[0]), 'UpgradedSignature.%s delegates to the validating base implementation' % mname, key=k)
        else:
            check.violation(rule, site_of(m, m.node), 'UpgradedSignature.%s does not call the base implementation' % mname, key=k)


def rule_upgrade_on_entry(check, rule):
    repo = check.repo
    for key in ('_signatures:sort_params', '_signatures:apply_params'):
        fi = repo.func(key)
        check.analysed(fi)
        it = Interp(repo, Policy())
        paths = it.run(fi)
        check.absorb(it)
        sig = ('P', fi.params()[0][0])
        k = '%s|upgrade' % key
        ok = None
        for p in paths:
            first_use = None
            up = None
            for i, e in enumerate(p.effects):
                if e.kind == 'call' and str(e.op).endswith('._upgrade_with_warning') and sig in e.args:
                    up = i
                    break
            for i, e in enumerate(p.effects):
                if e.kind in ('call', 'mut', 'loop') and up is not None and i < up:
                    for a in list(e.args) + ([e.target] if e.target else []):
                        if a is not None and any(s == ('A', sig, 'sources') or s == ('A', sig, 'parameters') for s in __import__('sa.interp', fromlist=['subterms']).subterms(a)):
                            first_use = i
            if up is None:
                ok = False
            elif first_use is not None:
                ok = False
            elif ok is None:
                ok = True
        if ok:
            check.holds(rule, site_of(fi, fi.node), '%s upgrades its signature before using it' % fi.name, key=k)
        else:
            check.violation(rule, site_of(fi, fi.node), '%s uses its signature before/without _upgrade_with_warning' % fi.name, key=k,
                            witness='passing a plain inspect.Signature must work (with a DeprecationWarning)')
    # the two helpers warn exactly on the non-upgraded branch
    for key in ('_signatures:UpgradedSignature._upgrade_with_warning', '_signatures:_upgrade_parameters_with_warning'):
        fi = repo.func(key)
        check.analysed(fi)
        it = Interp(repo, Policy())
        paths = it.run(fi)
        check.absorb(it)
        for p in paths:
            if p.status != 'return':
                continue
            warns = [e for e in p.effects if e.kind == 'call' and str(e.op).endswith('warnings.warn')]
            upgraded = None
            for atom, pol in p.lits:
                if atom[0] == 'isinstance':
                    upgraded = pol
                if atom[0] == 'truthy' and atom[1][0] == 'C' and atom[1][1] == 'all':
                    upgraded = pol
                if atom[0] == 'isnone' and pol:
                    upgraded = True      # None parameters: nothing to upgrade
            k = '%s|warn|%s' % (key, upgraded)
            node = [e for e in p.effects if e.kind == 'return'][-1].node
            if upgraded is None:
                check.inconclusive(rule, site_of(fi, node), 'branch of %s not understood: %s' % (fi.name, ' & '.join(show_lit(l) for l in p.lits)), key=k)
            elif upgraded and warns:
                check.violation(rule, site_of(fi, node), '%s warns although the input is already upgraded' % fi.name, key=k)
            elif not upgraded and not warns:
                check.violation(rule, site_of(fi, node), '%s upgrades silently (no DeprecationWarning)' % fi.name, key=k,
                                witness='merge(inspect.signature(f)) must emit a DeprecationWarning')
            elif not upgraded and not any(a == ('BI', 'DeprecationWarning') for a in warns[0].args):
                check.violation(rule, site_of(fi, node), '%s warns with a category other than DeprecationWarning' % fi.name, key=k)
            else:
                check.holds(rule, site_of(fi, node), '%s: %s' % (fi.name, 'passes upgraded input through silently' if upgraded else 'warns and upgrades'), key=k)
    # UpgradedSignature.__init__ / replace(parameters=) pass parameter lists through the helper
    us = repo.cls('_signatures:UpgradedSignature')
    for mname in ('__init__', 'replace'):
        m = us.methods.get(mname)
        if m is None:
            continue
        calls = [n_ for n_ in ast.walk(m.node) if isinstance(n_, ast.Call) and norm(n_.func) == '_upgrade_parameters_with_warning']
        k = 'UpgradedSignature.%s|upgrade-params' % mname
        if calls:
            check.holds(rule, site_of(m, calls[0]), 'parameter lists given to UpgradedSignature.%s are upgraded' % mname, key=k)
        else:
            check.violation(rule, site_of(m, m.node), 'UpgradedSignature.%s takes parameter lists without upgrading them' % mname, key=k,
                            witness='sig.replace(parameters=[inspect.Parameter(...)]) must yield upgraded parameters')


def run(check):
    W = "merge(s('a'), s('')) must raise IncompatibleSignatures, not a bare ValueError"
    check.run_rule('C15.R1', lambda c: rules_fold.rule_step_wrapped(c, 'C15.R1', '_signatures:merge', ('_Merger',), W))
    check.run_rule('C15.R1b', lambda c: rules_fold.rule_step_wrapped(c, 'C15.R1', '_signatures:embed', ('_embed',), W))
    check.run_rule('C15.R2', lambda c: rule_explicit_raises(c, 'C15.R2'))
    check.run_rule('C15.R3', lambda c: rule_validation(c, 'C15.R3'))
    check.run_rule('C15.R4', lambda c: rule_upgrade_on_entry(c, 'C15.R4'))
    # plain inspect.Signature inputs are upgraded with empty evaluation wrappers and empty provenance: the conciliation must decide
    # on the raw annotation/default (table B7), or plain inputs get other parameters than upgraded ones (shared with C10.R1)
    from .. import rules_merge as rm
    check.run_rule('C15.R4b', lambda c: rm.concile_table(c, c.repo, {'annotation': 'C15.R4', 'default': 'C15.R4'}))
    from ..rules_classes import rule_upgrade_idempotent
    check.run_rule('C15.R4c', lambda c: rule_upgrade_idempotent(c, 'C15.R4'))
    check.run_rule('C15.R5', lambda c: rule_fallback_discipline(c, 'C15.R5'))
    M = Models(check)
    from ..rules_embed import rule_embed_buckets
    check.run_rule('C15.R8', lambda c: rule_embed_buckets(c, M.embed(), {'kinds': 'C15.R8', 'clear_must': 'C15.R8', 'clear_only': None, 'order': None}))
    check.run_rule('C15.R6', lambda c: rule_nullable_deref(c, 'C15.R6', M.merge(), M.embed(), M.mask()))

    def r7(c):
        from ..rules_alias import Alias
        rule_partial_map_lookup(c, 'C15.R7', Alias(c))
    check.run_rule('C15.R7', r7)
    # "a '+depths' map": the helpers every result's provenance map goes through always give the map its own '+depths' entry,
    # whatever the input map has (the rest of their contracts is C08's business)
    from ..rules_protocol import rule_source_helpers
    from ..rules_defuse import rule_definite_assignment
    check.run_rule('C15.R11', lambda c: rule_definite_assignment(
        c, 'C15.R11', ['_signatures:merge', '_signatures:embed', '_signatures:mask', '_signatures:forwards', '_signatures:sort_params',
                       '_signatures:apply_params'], 'is not a ValueError'))
    def r12(c):
        from ..rules_defuse import rule_index_guarded
        from ..callgraph import CallGraph
        cg = CallGraph(c.repo)
        rule_index_guarded(c, 'C15.R12', cg.closure(['_signatures:merge', '_signatures:embed', '_signatures:mask', '_signatures:forwards',
                                                    '_signatures:sort_params', '_signatures:apply_params']), 'is not a ValueError')
    check.run_rule('C15.R12', r12)
    from ..rules_embed import rule_accumulator_by_position
    check.run_rule('C15.R10', lambda c: rule_accumulator_by_position(c, 'C15.R10'))
    check.run_rule('C15.R9', lambda c: rule_source_helpers(c, {'depths': 'C15.R9', 'arith': None, 'dedup': None, 'complete': None}))
    from ..rules_escape import rule_validation_converted
    check.run_rule('C15.R13', lambda c: rule_validation_converted(c, 'C15.R13'))
    from ..rules_mask import rule_remove_helper_contract
    check.run_rule('C15.R14', lambda c: rule_remove_helper_contract(c, M.mask(), 'C15.R14'))
