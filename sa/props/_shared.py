"""lazily built models shared by the algebra properties"""
from ..algebra import Protocol
from ..merge_model import MergeModel
from ..rules_embed import EmbedModel
from ..rules_mask import MaskModel


class Models(object):
    def __init__(self, check):
        self.check = check
        self._c = {}

    def proto(self):
        if 'p' not in self._c:
            self._c['p'] = Protocol(self.check.repo)
        return self._c['p']

    def merge(self):
        if 'm' not in self._c:
            m = MergeModel(self.check.repo, self.proto(), depth=5 if self.check.tier == 'quick' else 7)
            self._c['m'] = m
            self.check.absorb(m.interp)
            for fi in m.cls.methods.values():
                self.check.analysed(fi)
        return self._c['m']

    def embed(self):
        if 'e' not in self._c:
            m = EmbedModel(self.check.repo, self.proto())
            self._c['e'] = m
            self.check.absorb(m.interp)
            self.check.analysed(m.fi)
        return self._c['e']

    def mask(self):
        if 'k' not in self._c:
            m = MaskModel(self.check.repo, self.proto())
            self._c['k'] = m
            self.check.absorb(m.interp)
            self.check.analysed(m.fi)
            self.check.analysed(m.pub)
        return self._c['k']


def rule_posindex(check, rule):
    """statement-level form of the index-coherence rule (zero-expected: the self-test keeps a positive example)"""
    from ..rules_derived import rule_positional_index
    keys = [fi.key for fi in check.repo.all_funcs() if fi.module.name in ('_signatures', 'modifiers', '_autoforwards')]
    n = rule_positional_index(check, rule, keys)
    if not n:
        check.holds(rule, 'sigtools/_signatures.py:0 _signatures', 'no positional (name -> position) index is derived from a parameter list in '
                    '%d functions: nothing can go stale' % len(keys), key='posindex|none', nontrivial=False)
