"""C13 -- wrappers.decorator / wrapper_decorator / Combination are call-transparent."""
from ..rules_wrappers import (rule_pure_forwarding, rule_descriptor_rebinding, rule_wrapper_hygiene, rule_wrapped_forger,
                              rule_wrappers_enumeration, rule_as_forged_get)
from ..rules_windows import rule_recursion_guard_emptied

EXPLANATION = (
    "Static analysis (argument-flow and class-protocol rules on enumerated paths; no execution). Decides the structural "
    "clauses C13.R1-R6: __call__ of every wrapper class is exactly `return self.<callable>(*args, **kwargs)` without a "
    "handler, the callable is partial(wrapper, wrapped) in that order; Combination threads its first argument through its "
    "functions in order and flattens nested combinations; __get__ of every wrapper class rebuilds type(self) from the parts "
    "__init__ stored and safe_get(self.__wrapped__, instance, owner); __signature__ = as_forged and instance-attribute "
    "hygiene around update_wrapper; _Wrapped forges with forwards(self.func, self.__wrapped__, *f_args, **f_kwargs) and "
    "Combination merges its own signature with every element's; wrappers() lists outermost first; the as_forged descriptor "
    "is recursion-guarded. It does NOT decide equality of results with the hand-written composition on actual calls.")
ASSUMPTIONS = [
    "functools.partial(f, x)(*a) calls f(x, *a); functools.update_wrapper copies __dict__",
    "merge/forwards satisfy their own properties (decided separately)",
]


def run(check):
    check.run_rule('C13.R1', lambda c: rule_pure_forwarding(c, 'C13.R1'))
    check.run_rule('C13.R2', lambda c: rule_descriptor_rebinding(c, 'C13.R2'))
    check.run_rule('C13.R3', lambda c: rule_wrapper_hygiene(c, 'C13.R3'))
    check.run_rule('C13.R4', lambda c: rule_wrapped_forger(c, 'C13.R4'))
    check.run_rule('C13.R5', lambda c: rule_wrappers_enumeration(c, 'C13.R5'))
    check.run_rule('C13.R6', lambda c: rule_as_forged_get(c, 'C13.R6'))
    check.run_rule('C13.R6b', lambda c: rule_recursion_guard_emptied(c, 'C13.R6'))
    from ..rules_windows import rule_thread_local_access
    check.run_rule('C13.R6c', lambda c: rule_thread_local_access(c, 'C13.R6'))
    from ..rules_wrappers import rule_forged_visible_to_inspect
    check.run_rule('C13.R7', lambda c: rule_forged_visible_to_inspect(c, 'C13.R7'))
    from ..rules_wrappers import rule_transparent_receiver
    check.run_rule('C13.R8', lambda c: rule_transparent_receiver(c, 'C13.R8', 'wrappers'))
