"""C18 -- decorator application order and repeated use do not change the result."""
from ..rules_modifiers import (rule_merge_other, rule_annotate_after_modifier, rule_descriptor_cache, rule_prepare_table)
from ..rules_windows import rule_recursion_guard_emptied

EXPLANATION = (
    "Static analysis (argument-flow, effect-ordering and alias rules on enumerated paths; no execution). Decides the "
    "structural clauses C18.R1-R4: a store into a weak-keyed cache must not store a value built from its key (lifetime); "
    "stacked translators adopt the inner function, union both name sets and combine both getters, merged before "
    "preparation; annotate unwraps every translator, writes __signature__ on the innermost function before re-preparing "
    "each translator and returns the object it was given; re-preparation is idempotent (every container _prepare fills is "
    "created inside it); the descriptor cache is keyed by, and built from, the function bound to (instance, owner); the "
    "as_forged recursion guard never keeps an object after a failed retrieval. It does NOT decide permutation/history "
    "equalities of signatures and call behaviour.")
ASSUMPTIONS = [
    "a value that references its WeakKeyDictionary key strongly keeps the entry alive",
    "bound method objects reference their instance strongly",
]


def run(check):
    check.run_rule('C18.R2', lambda c: rule_merge_other(c, 'C18.R2'))
    from ..rules_modifiers import rule_stacked_anchor_getters
    check.run_rule('C18.R2b', lambda c: rule_stacked_anchor_getters(c, 'C18.R2'))
    from ..rules_modifiers import rule_private_name_sets
    check.run_rule('C18.R2c', lambda c: rule_private_name_sets(c, 'C18.R2'))
    check.run_rule('C18.R3', lambda c: rule_annotate_after_modifier(c, 'C18.R3'))
    check.run_rule('C18.R3b', lambda c: rule_prepare_table(c, None, 'C18.R3'))
    check.run_rule('C18.R4', lambda c: rule_descriptor_cache(c, 'C18.R4', 'C18.R1'))
    from ..rules_modifiers import rule_cache_per_descriptor
    check.run_rule('C18.R4b', lambda c: rule_cache_per_descriptor(c, 'C18.R4'))
    from ..rules_modifiers import rule_getter_protocol
    check.run_rule('C18.R4c', lambda c: rule_getter_protocol(c, 'C18.R4'))
    from ..rules_derived import rule_no_memoisation
    check.run_rule('C18.R5', lambda c: rule_no_memoisation(c, 'C18.R5', ('_signatures', '_autoforwards', '_specifiers', '_util', 'modifiers', 'specifiers', 'wrappers'),
                   'what a retrieval or an operation returns then depends on the calls made before it, and every caller shares one mutable result'))
    # "binding the same method repeatedly or on different instances and owners ... each bound to the right instance": the forger /
    # wrapper descriptors rebuild themselves around safe_get(self.__wrapped__, instance, owner) (shared with C13.R2)
    from ..rules_wrappers import rule_descriptor_rebinding
    check.run_rule('C18.R6', lambda c: rule_descriptor_rebinding(c, 'C18.R6'))
    # the as_forged descriptor answers for the object it was looked up on -- decided by `instance is None`, not by the truth value of
    # the instance (a container that is empty now and filled later would change its signature between retrievals); shared with C13.R6
    from ..rules_wrappers import rule_as_forged_get
    check.run_rule('C18.R6b', lambda c: rule_as_forged_get(c, 'C18.R6'))
    # applying one decorator object to several functions gives each the same treatment: what functools.partial calls again and again does
    # not use up its bound arguments (shared with C12.R3p)
    from ..rules_derived import rule_partial_targets_pure
    check.run_rule('C18.R8', lambda c: rule_partial_targets_pure(c, 'C18.R8', ('modifiers',)))
    from ..rules_modifiers import rule_reprepare_invalidates_cache
    check.run_rule('C18.R7', lambda c: rule_reprepare_invalidates_cache(c, 'C18.R7'))
    check.run_rule('C18.R1b', lambda c: rule_recursion_guard_emptied(c, 'C18.R1'))
