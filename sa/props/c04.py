"""C04 -- declared forwarding (forwards, forwards_to_*): the reported signature is safe to call."""
from ..rules_wrappers import (rule_forwards_is_embed_mask, rule_declaration_params_used, rule_forger_protocol, rule_wrapper_hygiene,
                              rule_descriptor_rebinding)
from ..rules_escape import rule_chain_order

EXPLANATION = (
    "Static analysis (argument-flow rules on enumerated paths and class-protocol rules; no execution). Decides the "
    "structural clauses C04.R1-R5: forwards() is exactly embed(outer, mask(inner, num_args, *named_args, hide flags), use "
    "flags) with every flag reaching the same-named parameter; in partial mode every non-star parameter of inner becomes "
    "optional (evaluated for each of the five parameter kinds) and the rebuilt signature is what gets masked; every "
    "declaration parameter of the forwards_to_* family is used and reaches forwards(); forgers are called with obj=, the "
    "emulating wrapper forwards the wrapped object, bound-only forgers return None when unbound, the declared forger is "
    "consulted before discovery; the emulating wrapper deletes the copied __signature__/_sigtools__forger and exposes "
    "as_forged. It does NOT decide that executing an accepted call raises no TypeError.")
ASSUMPTIONS = [
    "embed and mask satisfy C02/C03 (decided separately)",
    "functools.update_wrapper copies the __dict__ of the wrapped object",
]


def run(check):
    check.run_rule('C04.R1', lambda c: rule_forwards_is_embed_mask(c, 'C04.R1', 'C04.R2'))
    from ..rules_defaults import rule_neutral_defaults
    check.run_rule('C04.R1d', lambda c: rule_neutral_defaults(c, 'C04.R1', 'forwards'))
    # declared forwarding is repeatable: the buckets mask() consumes from are private to each call
    from ..rules_alias import rule_classification_fresh
    check.run_rule('C04.R8', lambda c: rule_classification_fresh(c, 'C04.R8'))
    check.run_rule('C04.R3', lambda c: rule_declaration_params_used(c, 'C04.R3'))
    check.run_rule('C04.R4', lambda c: rule_forger_protocol(c, 'C04.R4'))
    check.run_rule('C04.R4b', lambda c: rule_chain_order(c, 'C04.R4'))
    from ..rules_wrappers import rule_forger_dispatch
    check.run_rule('C04.R4e', lambda c: rule_forger_dispatch(c, 'C04.R4'))
    check.run_rule('C04.R5', lambda c: rule_wrapper_hygiene(c, 'C04.R5'))
    # bound use of an emulating declaration: the re-bound wrapper keeps the declared forger
    # forwards() is embed(outer, mask(inner, ...)): the structural soundness clauses of the two operations it is composed of
    # are necessary conditions of "every call accepted by the declared signature executes" (shared with C02 / C03)
    from ._shared import Models
    from ..rules_embed import rule_embed_buckets, rule_embed_dupes, rule_embed_flags
    from ..rules_mask import rule_mask_names, rule_mask_consume, rule_mask_hide
    M = Models(check)
    check.run_rule('C04.R6', lambda c: rule_embed_buckets(c, M.embed(), {'kinds': 'C04.R6', 'clear_must': 'C04.R6', 'clear_only': None, 'order': None}))
    # ... and of the pairwise merger, which _embed uses to fit the inner signature to the stars that are forwarded
    from .. import rules_merge as rm
    check.run_rule('C04.R6m', lambda c: rm.rule_tables(c, M.merge(), 'C04.R6', ('sound',), 'the merge step inside embed is sound (tables B2-B4)'))
    check.run_rule('C04.R6n', lambda c: rm.rule_kwo_and_stars(c, M.merge(), 'C04.R6', ('sound',)))
    check.run_rule('C04.R6b', lambda c: rule_embed_dupes(c, M.embed(), 'C04.R6'))
    check.run_rule('C04.R6c', lambda c: rule_embed_flags(c, M.embed(), 'C04.R6'))
    check.run_rule('C04.R7', lambda c: rule_mask_names(c, M.mask(), {'table': 'C04.R7', 'index': 'C04.R7', 'kinds': 'C04.R7', 'src': None, 'pdefault': None}))
    check.run_rule('C04.R7b', lambda c: rule_mask_consume(c, M.mask(), 'C04.R7'))
    check.run_rule('C04.R7c', lambda c: rule_mask_hide(c, M.mask(), 'C04.R7', None))
    # emulate=True: inspect.signature goes through the as_forged descriptor, whose re-entrancy guard must be released on
    # every exit or later retrievals silently report the undeclared signature (shared with C13.R6 / C16.R4)
    from ..rules_windows import rule_recursion_guard_emptied
    check.run_rule('C04.R5b', lambda c: rule_recursion_guard_emptied(c, 'C04.R5'))
    check.run_rule('C04.R4c', lambda c: rule_descriptor_rebinding(c, 'C04.R4', classes=['specifiers:_ForgerWrapper']))
