"""C02 -- embed: result = calling outer, which forwards *args/**kwargs to inner."""
from ..rules_embed import EmbedModel, rule_embed_buckets, rule_embed_dupes, rule_embed_flags
from .. import rules_fold

EXPLANATION = (
    "Static analysis (path-sensitive abstract-effect analysis of _embed over the kind/bucket domain, no execution). "
    "Decides the structural necessary conditions C02.R1-R6: content and kinds of every output bucket on every path "
    "(table B8: outer positional-or-keyword become positional-only when inner positional-only follow), default "
    "clearing exactly when a required inner positional follows, duplicate-name rejection before keyword-only "
    "parameters are merged, star-flag coherence and name-preserving flag forwarding from embed(), fold coverage "
    "with the 1-based depth, outer-before-inner order. It does NOT decide exactness over all calls.")
ASSUMPTIONS = [
    "oracle table B8 of DESIGN.md is the trusted base",
    "the buckets produced by _Merger have their protocol kinds (decided by C01.R1)",
    "Python semantics as modelled by the path enumerator",
]
W = "embed(a, b, c) must embed c: embed(s('*args'), s('*args'), s('x')) is (x)"


def run(check):
    holder = {}

    def model():
        if 'm' not in holder:
            holder['m'] = EmbedModel(check.repo)
            check.absorb(holder['m'].interp)
            check.analysed(holder['m'].fi)
        return holder['m']

    check.run_rule('C02.R1', lambda c: rule_embed_buckets(c, model(), {
        'kinds': 'C02.R1', 'clear_must': 'C02.R2', 'clear_only': 'C02.R2', 'order': 'C02.R6'}))
    from ..rules_defuse import rule_sentinel_identity
    check.run_rule('C02.R8', lambda c: rule_sentinel_identity(c, 'C02.R8', ['_signatures'], '-- embed raises IncompatibleSignatures for compatible signatures', floor=6))
    # "raises IncompatibleSignatures": also for what only the construction of the result finds (shared with C15.R13)
    from ..rules_escape import rule_validation_converted
    check.run_rule('C02.R9', lambda c: rule_validation_converted(c, 'C02.R9'))
    from ..rules_defaults import rule_public_switch_defaults
    check.run_rule('C02.R4d', lambda c: rule_public_switch_defaults(c, 'C02.R4', '_signatures:embed', 'plain forwarding of both star parameters'))
    check.run_rule('C02.R3', lambda c: rule_embed_dupes(c, model(), 'C02.R3'))
    check.run_rule('C02.R4', lambda c: rule_embed_flags(c, model(), 'C02.R4'))

    def r5(c):
        depth_rule(c, model(), 'C02.R5', fold_rule='C02.R5')
    check.run_rule('C02.R5', r5)
    from ..rules_embed import rule_accumulator_by_position
    check.run_rule('C02.R5b', lambda c: rule_accumulator_by_position(c, 'C02.R5'))

    # _embed fits the inner signature to the forwarded stars with the pairwise merger (`_Merger(inner, stars)`): the soundness
    # and exactness columns of its tables are part of "the surplus arguments outer forwards are accepted by inner" /
    # "the result accepts exactly those calls" (shared with C01.R2/R3 and C09.R1)
    from ._shared import Models
    from .. import rules_merge as rm
    M = Models(check)
    check.run_rule('C02.R7', lambda c: rm.rule_tables(c, M.merge(), 'C02.R7', ('sound', 'exact'), 'the merge step inside embed conforms to tables B2-B4'))
    check.run_rule('C02.R7b', lambda c: rm.rule_kwo_and_stars(c, M.merge(), 'C02.R7', ('sound', 'exact')))


def depth_rule(c, model, rule, fold_rule=None):
    """embed() folds over all inputs and passes the 1-based index as depth"""
    from ..rules_embed import _bind
    from ..interp import show
    from ..report import Check
    if fold_rule is not None:
        f = rules_fold.rule_fold(c, fold_rule, '_signatures:embed', ('_embed',), W)
    else:
        # evaluate the fold silently to obtain the step call
        scratch = Check(c.prop_id, c.repo, tier=c.tier)
        f = rules_fold.rule_fold(scratch, rule, '_signatures:embed', ('_embed',), W)
    call = getattr(f, 'step_call', None)
    if call is None:
        c.inconclusive(rule, '-', 'fold step of embed() not found', key='_signatures:embed|depth')
        return
    bound = _bind(model.fi, call.args, call.kws)
    dname = model.depth_name
    st = '%s %s' % (f.fi.loc(call.node), f.fi.key)
    key = '_signatures:embed|depth'
    d = bound.get(dname) if bound else None
    loop = f.loop
    it = loop.target
    if d is None:
        c.violation(rule, st, 'embed() passes no depth to _embed: every inner signature gets depth 1', key=key,
                    witness="embed(a, b, c).sources['+depths'][c_func] must be 2")
    elif d == ('IDX', loop.ctx) and it[0] == 'C' and it[1] == 'enumerate':
        start = it[2][1] if len(it[2]) > 1 else dict(it[3]).get('start', ('K', 0))
        if start == ('K', 1):
            c.holds(rule, st, 'depth argument is the 1-based index of the embedded signature', key=key)
        else:
            c.violation(rule, st, 'depth index starts at %s instead of 1' % show(start), key=key,
                        witness="embed(a, b).sources['+depths'][b_func] must be 1")
    else:
        c.inconclusive(rule, st, 'depth argument not understood: %s' % show(d), key=key)
