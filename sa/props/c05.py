"""C05 -- automatic discovery never reports a signature the function cannot honour."""
from ..rules_visitor import (rule_binders, rule_parameter_fields, rule_scopes, rule_evaluation_order,
                             rule_invalidation_tables, rule_star_extraction, rule_resolution_order)
from ..rules_discovery import rule_translation

EXPLANATION = (
    "Static analysis of a static analyser: CallListerVisitor is sound only if it accounts for every way Python can change "
    "what *args/**kwargs denote before the forwarding call. Decides the structural clauses C05.R1-R7 (no execution): "
    "exhaustiveness of the visitor's handlers against the grammar of the running interpreter (every identifier field that "
    "binds a name, every arg field of ast.arguments, every scope-opening node class, evaluation order of comprehensions and "
    "loop back-edges), and the guard tables of visit_Name / taint / deferred calls / nonlocal, star extraction "
    "(get_starargs, get_kwargs, has_hide_starargs) and callee resolution order (resolve_name). It does NOT decide anything "
    "about executed programs, nor that the resolved object is the one called at run time.")
ASSUMPTIONS = [
    "the classification table IDENT_FIELDS in sa/rules_visitor.py (binding / not binding, one reason per field); an "
    "unclassified identifier field of a newer grammar is inconclusive",
    "ast.NodeVisitor.generic_visit visits child nodes in _fields order and never looks at identifier fields",
    "tables B10-B12 and B16 of DESIGN.md are the trusted base",
]


def run(check):
    check.run_rule('C05.R1', lambda c: rule_binders(c, 'C05.R1'))
    check.run_rule('C05.R2', lambda c: rule_parameter_fields(c, 'C05.R2'))
    check.run_rule('C05.R3', lambda c: rule_scopes(c, 'C05.R3'))
    check.run_rule('C05.R4', lambda c: rule_evaluation_order(c, 'C05.R4'))
    from ..rules_visitor import rule_attribute_handler
    check.run_rule('C05.R11', lambda c: rule_attribute_handler(c, 'C05.R11'))
    from ..rules_visitor import rule_every_operand_visited, rule_generator_expression_lazy
    check.run_rule('C05.R12', lambda c: rule_every_operand_visited(c, 'C05.R12'))
    check.run_rule('C05.R13', lambda c: rule_generator_expression_lazy(c, 'C05.R13'))
    from ..rules_visitor import rule_enclosing_lookup
    check.run_rule('C05.R9d', lambda c: rule_enclosing_lookup(c, 'C05.R9'))
    from ..rules_visitor import rule_recheck_table
    check.run_rule('C05.R9c', lambda c: rule_recheck_table(c, 'C05.R9'))
    from ..rules_visitor import rule_prescan_exhaustive
    check.run_rule('C05.R4b', lambda c: rule_prescan_exhaustive(c, 'C05.R4'))
    check.run_rule('C05.R5', lambda c: rule_invalidation_tables(c, 'C05.R5'))
    check.run_rule('C05.R6', lambda c: rule_star_extraction(c, 'C05.R6'))
    check.run_rule('C05.R7', lambda c: rule_resolution_order(c, 'C05.R7'))
    # a forwarding call that cannot be translated must abort discovery (plain signature), never be skipped
    from ..rules_visitor import rule_nested_scope_effects
    check.run_rule('C05.R9', lambda c: rule_nested_scope_effects(c, 'C05.R9'))
    # the discovered signature is merge(forwards(...) for every forwarding call) = merge/embed/mask: their structural
    # soundness clauses are necessary conditions of "every accepted call runs" (shared with C01/C02/C03; precision-only
    # columns are not registered here)
    from ._shared import Models
    from .. import rules_merge as rm
    from ..rules_embed import rule_embed_buckets, rule_embed_dupes, rule_embed_flags
    from ..rules_mask import rule_mask_names, rule_mask_consume, rule_mask_hide
    M = Models(check)
    check.run_rule('C05.R10', lambda c: rm.rule_tables(c, M.merge(), 'C05.R10', ('sound',), 'merge over the forwarding calls is sound (tables B2-B4)'))
    check.run_rule('C05.R10b', lambda c: rm.rule_kwo_and_stars(c, M.merge(), 'C05.R10', ('sound',)))
    check.run_rule('C05.R10c', lambda c: rule_embed_buckets(c, M.embed(), {'kinds': 'C05.R10', 'clear_must': 'C05.R10', 'clear_only': None, 'order': None}))
    check.run_rule('C05.R10d', lambda c: rule_embed_dupes(c, M.embed(), 'C05.R10'))
    check.run_rule('C05.R10e', lambda c: rule_embed_flags(c, M.embed(), 'C05.R10'))
    check.run_rule('C05.R10f', lambda c: rule_mask_names(c, M.mask(), {'table': 'C05.R10', 'index': 'C05.R10', 'kinds': 'C05.R10', 'src': None, 'pdefault': None}))
    check.run_rule('C05.R10g', lambda c: rule_mask_consume(c, M.mask(), 'C05.R10'))
    check.run_rule('C05.R10h', lambda c: rule_mask_hide(c, M.mask(), 'C05.R10', None))
    from ..rules_visitor import rule_definition_time_expressions
    check.run_rule('C05.R3b', lambda c: rule_definition_time_expressions(c, 'C05.R3'))
    check.run_rule('C05.R8', lambda c: rule_translation(c, {'translate': 'C05.R8', 'fallback': 'C05.R8'}))
