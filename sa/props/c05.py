"""C05 -- automatic discovery never reports a signature the function cannot honour."""
from ..rules_visitor import (rule_binders, rule_parameter_fields, rule_scopes, rule_evaluation_order,
                             rule_invalidation_tables, rule_star_extraction, rule_resolution_order)
from ..rules_discovery import rule_translation

EXPLANATION = (
    "Static analysis of a static analyser: CallListerVisitor is sound only if it accounts for every way Python can change "
    "what *args/**kwargs denote before the forwarding call. Decides the structural clauses C05.R1-R7 (no execution): "
    "exhaustiveness of the visitor's handlers against the grammar of the running interpreter (every identifier field that "
    "binds a name, every arg field of ast.arguments, every scope-opening node class, evaluation order of comprehensions and "
    "loop back-edges), and the guard tables of visit_Name / taint / deferred calls / nonlocal, star extraction "
    "(get_starargs, get_kwargs, has_hide_starargs) and callee resolution order (resolve_name). It does NOT decide anything "
    "about executed programs, nor that the resolved object is the one called at run time.")
ASSUMPTIONS = [
    "the classification table IDENT_FIELDS in sa/rules_visitor.py (binding / not binding, one reason per field); an "
    "unclassified identifier field of a newer grammar is inconclusive",
    "ast.NodeVisitor.generic_visit visits child nodes in _fields order and never looks at identifier fields",
    "tables B10-B12 and B16 of DESIGN.md are the trusted base",
]


def run(check):
    check.run_rule('C05.R1', lambda c: rule_binders(c, 'C05.R1'))
    check.run_rule('C05.R2', lambda c: rule_parameter_fields(c, 'C05.R2'))
    check.run_rule('C05.R3', lambda c: rule_scopes(c, 'C05.R3'))
    check.run_rule('C05.R4', lambda c: rule_evaluation_order(c, 'C05.R4'))
    check.run_rule('C05.R5', lambda c: rule_invalidation_tables(c, 'C05.R5'))
    check.run_rule('C05.R6', lambda c: rule_star_extraction(c, 'C05.R6'))
    check.run_rule('C05.R7', lambda c: rule_resolution_order(c, 'C05.R7'))
    # a forwarding call that cannot be translated must abort discovery (plain signature), never be skipped
    from ..rules_visitor import rule_nested_scope_effects
    check.run_rule('C05.R9', lambda c: rule_nested_scope_effects(c, 'C05.R9'))
    check.run_rule('C05.R8', lambda c: rule_translation(c, {'translate': 'C05.R8', 'fallback': 'C05.R8'}))
