"""C16 -- retrieval and algebra do not modify what they inspect, even when they fail."""
from ..rules_alias import rule_inputs_not_mutated, rule_results_not_shared
from ..rules_windows import rule_cm_window, rule_foreign_write_inventory, rule_recursion_guard_emptied

EXPLANATION = (
    "Static analysis (provenance/alias domain with interprocedural mutates-parameter and returns-alias summaries; "
    "typestate and exception-edge analysis of the delete/restore window; no execution). Decides the structural clauses "
    "C16.R1-R4: no mutating operation in the closure of the six public operations has a receiver that is a handle on an "
    "argument or on shared state, and the classification hands out private containers; the provenance map of every result "
    "is private (apply_params gives the result its own map, callers pass private ones, copy_sources is deep); in the "
    "retrieval closure every attribute write/delete on an object retrieval does not own lies inside the verified window, "
    "whose per-key typestate (saved -> deleted -> restored) and restoration on every exit, exception edges of __enter__ "
    "included, are checked; the recursion guard entry is removed in a finally with the same key. It does NOT decide what "
    "outside code called during retrieval does, nor deep-snapshot equality.")
ASSUMPTIONS = [
    "external method summaries METHOD_FRESH / METHOD_ALIAS / EXT_* in sa/rules_alias.py (e.g. replace() returns a new object, "
    "dict.get/pop return stored values)",
    "Parameter objects are immutable; only containers and provenance maps are tracked",
    "__exit__ is not invoked when __enter__ raises (Python semantics of the with statement)",
]


def run(check):
    from ..rules_alias import rule_classification_fresh
    check.run_rule('C16.R1f', lambda c: rule_classification_fresh(c, 'C16.R1'))
    holder = {}

    def r1(c):
        holder['al'] = rule_inputs_not_mutated(c, 'C16.R1')
    check.run_rule('C16.R1', r1)
    check.run_rule('C16.R2', lambda c: rule_results_not_shared(c, 'C16.R2', holder.get('al')))
    from ..rules_classes import rule_replace_returns_fresh
    check.run_rule('C16.R2b', lambda c: rule_replace_returns_fresh(c, 'C16.R2'))
    check.run_rule('C16.R3', lambda c: rule_cm_window(c, {'restore': 'C16.R3', 'typestate': 'C16.R3', 'usage': 'C16.R3', 'confined': None}))
    from ..rules_windows import rule_cm_saves_raw_entry
    check.run_rule('C16.R3r', lambda c: rule_cm_saves_raw_entry(c, 'C16.R3'))
    check.run_rule('C16.R3i', lambda c: rule_foreign_write_inventory(c, 'C16.R3'))
    check.run_rule('C16.R4', lambda c: rule_recursion_guard_emptied(c, 'C16.R4'))
