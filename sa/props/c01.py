"""C01 -- merge: a call accepted by the result is accepted by every input."""
from ..merge_model import MergeModel
from .. import rules_merge as rm
from .. import rules_fold

EXPLANATION = (
    "Static analysis (path-sensitive effect analysis over an abstract kind/bucket domain, no execution). "
    "Decides the structural necessary conditions C01.R1-R6 of merge soundness: the canonical decision table of "
    "_Merger (guards -> abstract effects) is extracted from the source on every run and every path's effect must "
    "lie in the *sound* set of every row of the hand-derived oracle tables B1-B7 it is compatible with; values "
    "stored into an output bucket must have that bucket's kind (the n-ary fold re-uses the buckets unclassified); "
    "a star parameter survives only if both inputs have it; the fold covers all inputs; a conciled parameter is "
    "optional only if both are. It does NOT decide the behaviour over all signatures x calls.")
ASSUMPTIONS = [
    "oracle tables B1-B7 of DESIGN.md (hand-derived from CPython's argument binding) are the trusted base",
    "Python semantics as modelled by the path enumerator (no exec/monkey-patching/metaclasses in the package)",
    "inspect.Signature/Parameter behave as documented (replace() keeps what is not overridden)",
]
WITNESS_FOLD = "merge(a, b, c) must take c into account: merge(s('a'), s('a'), s('')) raises"


def run(check):
    holder = {}

    def model():
        if 'm' not in holder:
            holder['m'] = MergeModel(check.repo, depth=5 if check.tier == 'quick' else 7)
            m = holder['m']
            check.absorb(m.interp)
            for fi in m.cls.methods.values():
                check.analysed(fi)
        return holder['m']

    def r1(check):
        f = holder.get('fold')
        direct = True
        if f is not None and getattr(f, 'step_call', None) is not None:
            # relax when the fold re-classifies between steps
            pass
        rm.rule_kind_closure(check, model(), 'C01.R1')

    def r5(check):
        holder['fold'] = rules_fold.rule_fold(check, 'C01.R5', '_signatures:merge', ('_Merger',), WITNESS_FOLD)

    check.run_rule('C01.R5', r5)
    from ..rules_defuse import rule_sentinel_identity
    check.run_rule('C01.R7', lambda c: rule_sentinel_identity(c, 'C01.R7', ['_signatures'], '-- merge raises IncompatibleSignatures, or drops a default, for compatible signatures', floor=6))
    from ..rules_escape import rule_validation_converted
    check.run_rule('C01.R8', lambda c: rule_validation_converted(c, 'C01.R8'))
    from ..rules_classes import rule_no_whole_parameter_equality
    check.run_rule('C01.R7b', lambda c: rule_no_whole_parameter_equality(c, 'C01.R7'))
    from ..rules_classes import rule_no_self_comparison
    check.run_rule('C01.R7c', lambda c: rule_no_self_comparison(c, 'C01.R7'))
    check.run_rule('C01.R1', r1)
    check.run_rule('C01.R3', lambda c: rm.rule_tables(
        c, model(), 'C01.R3', ('sound',), 'effect lies in the sound set of every compatible row (tables B2-B4)',
        witness="a result parameter kind/optional-ness the other input cannot honour, e.g. merge(s('a'), s('**k')) must be (*, a)"))
    from ..rules_derived import rule_lazy_iterators
    check.run_rule('C01.R3l', lambda c: rule_lazy_iterators(c, 'C01.R3'))
    check.run_rule('C01.R2', lambda c: rm.rule_kwo_and_stars(c, model(), 'C01.R2', ('sound',)))
    check.run_rule('C01.R6', lambda c: rm.concile_table(c, c.repo, {'default': 'C01.R6', 'leftwins': 'C01.R6.base'}) if False else
                   rm.concile_table(c, c.repo, {'sound': 'C01.R6', 'leftwins': 'C01.R6n'}))
