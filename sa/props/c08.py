"""C08 -- parameter provenance is complete, truthful and depth-ordered."""
import ast

from .. import rules_merge as rm
from ..index import Inconclusive, norm
from ..rules_embed import rule_embed_sources
from ..rules_mask import rule_mask_names, rule_mask_hide, rule_mask_partial
from ..rules_protocol import rule_source_helpers, rule_direct_concat
from ._shared import Models

EXPLANATION = (
    "Static analysis (path enumeration with abstract effects on the provenance maps; no execution). Decides the "
    "structural clauses C08.R1-R7: in _Merger every parameter stored is registered under its own name from every side it "
    "stands for, and nothing is registered for a dropped parameter; in _mask every removal from a bucket is paired with "
    "the removal of the same names from the map and parameters created in partial mode are sourced to the partial object; "
    "in _embed the result map is the union of both maps and forwarded outer star entries are not deleted by name from the "
    "union; '+depths' is assigned by every function returning a fresh map; depth arithmetic (object at 0, inner depths + "
    "embedding depth with the 1-based index, min-merge, function swap applied to lists and depth keys); provenance lists "
    "of different inputs are concatenated duplicate-free; the modifiers wrapper replaces the wrapped function in both maps. "
    "It does NOT decide that each listed callable declares the parameter as a runtime fact.")
ASSUMPTIONS = [
    "tables B1-B9 of DESIGN.md (Src columns) are the trusted base",
    "provenance maps are looked up by parameter name (src.get(name)), so registering from an extra side is harmless",
    "Python semantics as modelled by the path enumerator",
]


def rule_wrapper_swap(check, rule):
    """C08.R7: _PokTranslator._prepare builds __signature__ sources with copy_sources(sig.sources, {self.func: self})"""
    fi = check.repo.func('modifiers:_PokTranslator._prepare')
    check.analysed(fi)
    calls = [n for n in ast.walk(fi.node) if isinstance(n, ast.Call) and norm(n.func).split('.')[-1] == 'copy_sources']
    st = '%s %s' % (fi.loc(fi.node), fi.key)
    if not calls:
        check.violation(rule, st, 'the rewritten __signature__ does not get a swapped copy of the provenance map', key='modifiers:_prepare|copy_sources',
                        witness="kwoargs('b')(f).__signature__.sources['a'] == [wrapper]")
        return
    selfname = fi.params()[0][0]
    for c in calls:
        st = '%s %s' % (fi.loc(c), fi.key)
        swap = c.args[1] if len(c.args) > 1 else None
        for kw in c.keywords:
            if kw.arg == 'func_swap':
                swap = kw.value
        key = 'modifiers:_prepare|swap'
        if isinstance(swap, ast.Dict) and len(swap.keys) == 1 and norm(swap.keys[0]) == '%s.func' % selfname and norm(swap.values[0]) == selfname:
            check.holds(rule, st, 'copy_sources(..., {self.func: self}): the wrapper replaces the wrapped function', key=key)
        elif swap is None:
            check.violation(rule, st, 'copy_sources is called without the function swap', key=key,
                            witness="kwoargs('b')(f).__signature__.sources['a'] == [wrapper]")
        else:
            check.violation(rule, st, 'function swap is %s, expected {self.func: self}' % norm(swap), key=key,
                            witness="kwoargs('b')(f).__signature__.sources['a'] == [wrapper]")
        # the copied map must be the one of the signature that is rewritten
        a0 = c.args[0] if c.args else None
        key = 'modifiers:_prepare|map'
        if a0 is not None and norm(a0).endswith('.sources'):
            check.holds(rule, st, 'the map copied is the retrieved signature\'s', key=key)
        else:
            check.inconclusive(rule, st, 'copied map %s' % (norm(a0) if a0 is not None else None), key=key)
        # and it must be passed as sources= of the replace() that builds __signature__
        p = getattr(c, '_parent', None)
        key = 'modifiers:_prepare|used'
        if isinstance(p, ast.keyword) and p.arg == 'sources':
            check.holds(rule, st, 'the swapped copy is the sources= of the rewritten signature', key=key)
        else:
            check.inconclusive(rule, st, 'use of the swapped copy not recognised', key=key)


def run(check):
    M = Models(check)
    check.run_rule('C08.R1', lambda c: rm.rule_tables(
        c, M.merge(), 'C08.R1', ('src', 'src_conc'), 'stored parameters are registered from every side they stand for',
        witness="merge(s('a'), s('a')).sources['a'] lists both callables"))
    check.run_rule('C08.R1b', lambda c: rm.rule_kwo_and_stars(c, M.merge(), 'C08.R1', ('src',)))
    check.run_rule('C08.R2', lambda c: rule_mask_names(c, M.mask(), {
        'table': None, 'index': None, 'kinds': None, 'src': 'C08.R2', 'pdefault': None}))
    check.run_rule('C08.R2b', lambda c: rule_mask_hide(c, M.mask(), None, 'C08.R2'))
    check.run_rule('C08.R3', lambda c: rule_embed_sources(c, M.embed(), {'union': 'C08.R3', 'depths': 'C08.R4', 'arith': 'C08.R5'}))
    check.run_rule('C08.R4', lambda c: rule_mask_partial(c, M.mask(), 'C08.R4'))
    check.run_rule('C08.R5', lambda c: rule_source_helpers(c, {'depths': 'C08.R4', 'arith': 'C08.R5', 'dedup': 'C08.R6', 'complete': 'C08.R1'}))

    def r5b(c):
        # embed passes the 1-based loop index as depth (shared with C02.R5)
        from .c02 import depth_rule
        depth_rule(c, M.embed(), 'C08.R5')
    check.run_rule('C08.R5b', r5b)
    check.run_rule('C08.R5f', lambda c: rule_forwarders_accumulate(c, 'C08.R5'))
    check.run_rule('C08.R6', lambda c: rule_direct_concat(c, 'C08.R6'))
    check.run_rule('C08.R7', lambda c: rule_wrapper_swap(c, 'C08.R7'))

    def r2c(c):
        # mask()/embed() edit the classified provenance map in place: it must be a private copy, or the
        # *input's* map loses entries for parameters it still has
        from ..rules_alias import Alias, site_of
        from ..report import Check
        al = Alias(Check(c.prop_id, c.repo, tier=c.tier))
        sp = c.repo.func('_signatures:sort_params')
        ra = al.ret_alias.get(sp.key, {})
        key = '%s|private-map' % sp.key
        if ra.get(5) or ra.get('*'):
            c.violation('C08.R2', site_of(sp, sp.node), 'the classification hands out the input\'s own provenance map (%s): mask() removes the entries '
                        'of consumed parameters from it in place, so the input signature ends up with parameters that have no entry'
                        % ', '.join(sorted((ra.get(5) or set()) | (ra.get('*') or set()))), key=key,
                        witness='discovery of a wrapper that calls inner(x, *args, **kwargs); then sigtools.signature(inner).sources lacks an entry')
        else:
            c.holds('C08.R2', site_of(sp, sp.node), 'the classification copies the provenance map before mask()/embed() edit it', key=key)
    check.run_rule('C08.R2c', r2c)
    from ..rules_classes import rule_replace_restricts_sources
    check.run_rule('C08.R8', lambda c: rule_replace_restricts_sources(c, 'C08.R8'))


def rule_forwarders_accumulate(check, rule):
    """C08.R5f (round 9, C08-u): the embedded signature is one step further than *whichever* callable of the outer
    signature owns a star parameter it goes through.  `_embed` collects those owners from the outer map (one feed per
    forwarded star) into the collection the `<depth of owner> + 1` comprehension ranges over.  Each feed after the
    first must add to that collection; a feed that rebinds it drops the owners of the other star, and when *args is
    owned by a deeper callable than **kwargs the embedded callable is reported no deeper than the one that calls it."""
    from ..rules_alias import site_of
    fi = check.repo.func('_signatures:_embed')
    check.analysed(fi)
    coll = None
    for comp in [x for x in ast.walk(fi.node) if isinstance(x, (ast.ListComp, ast.GeneratorExp, ast.SetComp))]:
        if isinstance(comp.elt, ast.BinOp) and isinstance(comp.elt.op, ast.Add) and 'depths' in norm(comp.elt) \
                and isinstance(comp.generators[0].iter, ast.Name):
            coll = comp.generators[0].iter.id
    # (mutant sweep 5) the comprehension's filter keeps the owners that *have* a depth: `if f not in depths` subscripts the
    # map with exactly the keys it lacks (KeyError) and never adds the step for those it has
    for comp in [x for x in ast.walk(fi.node) if isinstance(x, (ast.ListComp, ast.GeneratorExp, ast.SetComp))]:
        if isinstance(comp.elt, ast.BinOp) and isinstance(comp.elt.op, ast.Add) and 'depths' in norm(comp.elt):
            subs = [x for x in ast.walk(comp.elt) if isinstance(x, ast.Subscript)]
            for cond in comp.generators[0].ifs:
                if isinstance(cond, ast.Compare) and len(cond.ops) == 1 and isinstance(cond.ops[0], ast.NotIn) and any(
                        norm(x.value) == norm(cond.comparators[0]) and norm(x.slice) == norm(cond.left) for x in subs):
                    check.violation(rule, site_of(fi, cond), 'the depth of a forwarding callable is looked up only when the map lacks it (`%s`): KeyError, '
                                    'and no step is added for the owners that have a depth' % norm(cond), key='%s|forwarders-filter' % fi.key,
                                    witness="embed(embed(p, q), r).sources['+depths'][r_func] must be 2")
    key = '%s|forwarders-accumulate' % fi.key
    if coll is None:
        check.holds(rule, site_of(fi, fi.node), 'no named collection of forwarding callables (decided by the depth arithmetic rule alone)', key=key,
                    nontrivial=False)
        return

    def is_feed(v):
        return any(isinstance(x, ast.Call) and isinstance(x.func, ast.Attribute) and x.func.attr in ('pop', 'get') for x in ast.walk(v)) \
            or any(isinstance(x, ast.Subscript) and 'src' in norm(x.value) for x in ast.walk(v))

    def accumulates(v):
        for x in ast.walk(v):
            if isinstance(x, ast.BinOp) and isinstance(x.op, (ast.Add, ast.BitOr)) and any(
                    isinstance(y, ast.Name) and y.id == coll for y in ast.walk(x.left)) | any(
                    isinstance(y, ast.Name) and y.id == coll for y in ast.walk(x.right)):
                return True
            if isinstance(x, ast.Starred) and isinstance(x.value, ast.Name) and x.value.id == coll:
                return True
            if isinstance(x, ast.Call) and norm(x.func).split('.')[-1] in ('chain', 'union') and any(
                    isinstance(y, ast.Name) and y.id == coll for a in x.args for y in ast.walk(a)):
                return True
        return False
    feeds = []
    for st in sorted([x for x in ast.walk(fi.node) if isinstance(x, (ast.Assign, ast.AugAssign, ast.Expr))], key=lambda x: (x.lineno, x.col_offset)):
        if isinstance(st, ast.Assign) and any(isinstance(t, ast.Name) and t.id == coll for t in st.targets) and is_feed(st.value):
            feeds.append((st, accumulates(st.value)))
        elif isinstance(st, ast.AugAssign) and isinstance(st.target, ast.Name) and st.target.id == coll and is_feed(st.value):
            feeds.append((st, True))
        elif isinstance(st, ast.Expr) and isinstance(st.value, ast.Call) and isinstance(st.value.func, ast.Attribute) \
                and isinstance(st.value.func.value, ast.Name) and st.value.func.value.id == coll \
                and st.value.func.attr in ('extend', 'append', 'update', 'add') and is_feed(st.value):
            feeds.append((st, True))
    bad = [st for st, acc in feeds[1:] if not acc]
    if bad:
        check.violation(rule, site_of(fi, bad[0]), '`%s` rebinds the collection of forwarding callables %r that an earlier feed (line %d) filled: the '
                        'owners of the other forwarded star no longer count, and the embedded callable can be reported no deeper than a callable '
                        'that forwards to it' % (norm(bad[0])[:70], coll, feeds[0][0].lineno), key=key,
                        witness="o = embed(s('*args, **kwargs') of F0, s('a, *args') of F1, use_varkwargs=False); embed(o, s('x, *, y') of X): "
                                "depths must be F0:0 F1:1 X:2")
    else:
        check.holds(rule, site_of(fi, feeds[0][0] if feeds else fi.node), '%d feed(s) of %r, every one after the first adds to it' % (len(feeds), coll), key=key)
    check.floor(rule, 'feeds of the forwarding-callables collection', len(feeds), 1)
