"""C06 -- automatic discovery agrees with the equivalent explicit declaration."""
from ..rules_discovery import rule_call_protocol, rule_translation, rule_hint_protocol
from ..rules_escape import rule_fallback_discipline
from ..rules_partial import rule_partial_discovery
from ..rules_visitor import rule_invalidation_tables, rule_star_extraction

EXPLANATION = (
    "Static analysis (positional-protocol agreement and argument-flow rules over enumerated paths; no execution). Decides "
    "the structural clauses C06.R1-R5: the nine-position Call record agrees between its declaration, its constructor in "
    "process_Call (roles derived from facts: which helper produced which position) and its destructuring in "
    "forward_signatures; every field reaches the same-named forwards() argument (count of positionals minus partial, keyword "
    "names star-expanded, the four flags, partial=); a call is skipped only when it forwards neither star, every failure "
    "(unresolvable callee, callee signature error, forwards error, incompatible merge) becomes UnknownForwards, an empty "
    "result too; the hint triple and the known arguments reach autoforwards_ast at both consumers; bound-method and partial "
    "routes. It does NOT decide equality of discovered and declared signatures over a program grammar.")
ASSUMPTIONS = [
    "has_hide_starargs / get_starargs / get_kwargs tables are decided by C05.R6",
    "Python semantics as modelled by the path enumerator (one implicit-exception edge per try-body statement and handler)",
]


def run(check):
    check.run_rule('C06.R1', lambda c: rule_call_protocol(c, 'C06.R1'))
    from ..rules_wrappers import rule_known_arguments_threaded
    check.run_rule('C06.R9', lambda c: rule_known_arguments_threaded(c, 'C06.R9'))
    from ..rules_visitor import rule_enclosing_lookup
    check.run_rule('C06.R6e', lambda c: rule_enclosing_lookup(c, None, precision_rule='C06.R6'))
    from ..rules_discovery import rule_subject_search
    check.run_rule('C06.R4c', lambda c: rule_subject_search(c, 'C06.R4'))
    check.run_rule('C06.R2', lambda c: rule_translation(c, {'translate': 'C06.R2', 'fallback': 'C06.R3'}))
    check.run_rule('C06.R3', lambda c: rule_fallback_discipline(c, 'C06.R3'))
    check.run_rule('C06.R4', lambda c: rule_hint_protocol(c, 'C06.R4'))
    from ..rules_discovery import rule_get_ast_duck_typed
    check.run_rule('C06.R4b', lambda c: rule_get_ast_duck_typed(c, 'C06.R4'))
    from ..rules_visitor import rule_resolution_order
    check.run_rule('C06.R8', lambda c: rule_resolution_order(c, 'C06.R8'))
    check.run_rule('C06.R5', lambda c: rule_partial_discovery(c, 'C06.R5'))
    # extraction: every forwarding call is found (deferred nested calls included) and its star arguments classified
    check.run_rule('C06.R6', lambda c: rule_invalidation_tables(c, 'C06.R6', precision_rule='C06.R6'))
    from ..rules_visitor import rule_optional_container_truthiness
    check.run_rule('C06.R7', lambda c: rule_optional_container_truthiness(c, 'C06.R7'))
    check.run_rule('C06.R6b', lambda c: rule_star_extraction(c, 'C06.R6'))
    # a forwarding call that is the object of an attribute access is a forwarding call (shared with C05.R11)
    from ..rules_visitor import rule_attribute_handler
    check.run_rule('C06.R10', lambda c: rule_attribute_handler(c, 'C06.R10', precision=True))
    from ..rules_derived import rule_partial_function_explicit
    check.run_rule('C06.R11', lambda c: rule_partial_function_explicit(c, 'C06.R11'))
    from ..rules_visitor import rule_attribute_object_once
    check.run_rule('C06.R10b', lambda c: rule_attribute_object_once(c, 'C06.R10'))
