"""C09 -- merge precision, identities, fold law."""
from .. import rules_merge as rm
from ..rules_protocol import rule_round_trip
from ._shared import Models

EXPLANATION = (
    "Static analysis (path-sensitive abstract-effect analysis of _Merger, sort_params and apply_params; no execution). "
    "Decides the structural clauses C09.R1-R4: every path's effect equals the *exact* (most permissive sound) effect of "
    "the oracle tables B1-B6 and raises only where the table raises; the classification round trip (each kind stored at "
    "its protocol position exactly once, apply_params concatenates positions 0..4 in order, six-position protocol agreed "
    "by all producers/consumers); the conciled parameter keeps name and kind of the left operand; bucket/kind closure of "
    "the fold (the structural core of merge(a,b,c) == merge(merge(a,b),c)). It does NOT decide the iff over calls nor the "
    "identity laws as equalities of values.")
ASSUMPTIONS = [
    "oracle tables B1-B7 of DESIGN.md are the trusted base",
    "inspect orders parameter kinds PO < POK < VP < KWO < VK and validates that order in the constructor",
    "Python semantics as modelled by the path enumerator",
]


def run(check):
    M = Models(check)
    check.run_rule('C09.R1', lambda c: rm.rule_tables(
        c, M.merge(), 'C09.R1', ('exact', 'starname'), 'effect equals the exact effect of every compatible row (tables B2-B4)',
        witness="merge(s('a=1'), s('')) must be () and must not raise"))
    check.run_rule('C09.R1b', lambda c: rm.rule_kwo_and_stars(c, M.merge(), 'C09.R1', ('exact', 'starname')))
    check.run_rule('C09.R2', lambda c: rule_round_trip(c, M.proto(), 'C09.R2'))
    # apply_params rebuilds through UpgradedSignature.replace(parameters=...): the list handed over -- also an empty one -- is what
    # the result has (shared with C14.R3)
    from ..rules_classes import rule_replace_and_slots
    check.run_rule('C09.R2b', lambda c: rule_replace_and_slots(c, 'C09.R2', classes=['UpgradedSignature'], only_base_overrides=True))
    check.run_rule('C09.R3', lambda c: rm.rule_tables(
        c, M.merge(), 'C09.R3', ('leftwins',), 'name and kind come from the left operand',
        witness="merge(s('a, /'), s('b, /')) must be (a, /)"))
    check.run_rule('C09.R3b', lambda c: rm.concile_table(c, c.repo, {'leftwins': 'C09.R3', 'default': 'C09.R1', 'annotation': 'C09.R1'}))
    from ..rules_derived import rule_lazy_iterators
    check.run_rule('C09.R1c', lambda c: rule_lazy_iterators(c, 'C09.R1'))
    # the fold law: merge(a, b, c) is the left fold of the pairwise step over *every* input, in order
    from .. import rules_fold
    check.run_rule('C09.R4f', lambda c: rules_fold.rule_fold(c, 'C09.R4', '_signatures:merge', ('_Merger',), 'merge(a, b, a) == merge(merge(a, b), a)'))
    check.run_rule('C09.R4', lambda c: rm.rule_kind_closure(c, M.merge(), 'C09.R4'))
