"""C14 -- returned signatures are drop-in inspect.Signature objects."""
from ..rules_classes import rule_eq_totality, rule_replace_and_slots, rule_nothing_else_overridden

EXPLANATION = (
    "Static analysis (class-protocol rules over the class index and path enumeration of __eq__/replace/__init__; no "
    "execution). Decides the structural clauses C14.R1-R4: every __eq__ reads attributes of the other operand only behind "
    "an isinstance guard and tests super().__eq__() against NotImplemented before using it as a bool; a class overriding "
    "__eq__ on a hashable inspect base defines __hash__; replace() obtains its result from super().replace, re-establishes "
    "every added slot (receiver's value unless overridden); bind/bind_partial/__str__/parameters/_hash_basis are inherited "
    "unchanged and the parameter list goes to the validating base constructor; eval() in the annotation wrappers only sees text "
    "(C14.R7) and every __eq__ is reflexive by shape (identity shortcut, or plain attributes after super().__eq__; C14.R8). It does "
    "NOT decide symmetry/hash-consistency as value laws.")
ASSUMPTIONS = [
    "inspect.Signature/Parameter implement __eq__ (returning NotImplemented for foreign objects), __hash__, replace, bind as documented",
    "Python sets __hash__ = None for a class that defines __eq__ without __hash__",
]


def run(check):
    check.run_rule('C14.R1', lambda c: rule_eq_totality(c, 'C14.R1', 'C14.R2'))
    check.run_rule('C14.R3', lambda c: rule_replace_and_slots(c, 'C14.R3'))
    # "every signature sigtools returns": each way out of forged_signature goes through the upgrade (shared with C07.R6)
    from ..rules_escape import rule_chain_order
    check.run_rule('C14.R6', lambda c: rule_chain_order(c, 'C14.R6'))
    from ..rules_classes import rule_eq_does_not_evaluate
    check.run_rule('C14.R1e', lambda c: rule_eq_does_not_evaluate(c, 'C14.R1'))
    from ..rules_classes import rule_iterable_traversed_once
    check.run_rule('C14.R5', lambda c: rule_iterable_traversed_once(c, 'C14.R5'))
    from ..rules_classes import rule_upgrade_idempotent
    check.run_rule('C14.R3b', lambda c: rule_upgrade_idempotent(c, 'C14.R3'))
    from ..rules_classes import rule_sibling_eq
    check.run_rule('C14.R1s', lambda c: rule_sibling_eq(c, 'C14.R1'))
    from ..rules_classes import rule_eval_operand_is_text, rule_eq_reflexive
    check.run_rule('C14.R7', lambda c: rule_eval_operand_is_text(c, 'C14.R7'))
    check.run_rule('C14.R8', lambda c: rule_eq_reflexive(c, 'C14.R8'))
    from ..rules_classes import rule_replace_returns_fresh
    check.run_rule('C14.R3c', lambda c: rule_replace_returns_fresh(c, 'C14.R3'))
    from ..rules_classes import rule_eq_answers, rule_replace_slot_polarity
    check.run_rule('C14.R9', lambda c: rule_eq_answers(c, 'C14.R9'))
    check.run_rule('C14.R3d', lambda c: rule_replace_slot_polarity(c, 'C14.R3'))
    check.run_rule('C14.R4', lambda c: rule_nothing_else_overridden(c, 'C14.R4'))
