"""C07 -- retrieval is total and only ever narrows the callable's own signature."""
from ..rules_escape import (rule_fallback_discipline, rule_containment, rule_chain_order, rule_source_handling,
                            rule_recursion_guard, rule_probe_discipline, rule_sphinx)

EXPLANATION = (
    "Static analysis (interprocedural exception-escape analysis over the resolved call graph, path enumeration of "
    "forged_signature/get_ast, call-cycle detection; no execution). Decides the structural clauses C07.R1-R6: algebra "
    "failures and the internal UnknownForwards/UnresolvableName signals never escape the fallback chain (or are in the "
    "reviewed 'inspect raises the same type' table), stage order forger -> hint -> discovery -> plain; get_ast returns a "
    "checked function definition or None and handles unparsable source; the user-driven retrieval cycle has a guard; "
    "attribute probes on foreign objects are guarded and declaration forgers convert a missing attribute to ValueError; the "
    "Sphinx hook handles every vetted external raiser, binds callables only and keeps every operation on the documented object inside "
    "its try (C07.R15); operations that hand resolved live values to getattr/extend/update/bind_partial are handled (C07.R14); every "
    "result passes through _upgrade_with_warning. It does NOT decide "
    "'only narrows the def parameter list' nor totality over a corpus, nor implicit exception types.")
ASSUMPTIONS = [
    "only explicit raise/assert statements and the vetted external-raiser table (ast.parse, eval, inspect.getsource, "
    "inspect.signature, next) are modelled; implicit exceptions of dynamically typed values are not",
    "the reviewed table REVIEWED_VIA in sa/rules_escape.py",
    "callee resolution of the call graph (class-hierarchy resolution for dynamic method calls is not used)",
]


def run(check):
    check.run_rule('C07.R1', lambda c: rule_fallback_discipline(c, 'C07.R1'))
    check.run_rule('C07.R1b', lambda c: rule_containment(c, 'C07.R1'))
    check.run_rule('C07.R1c', lambda c: rule_chain_order(c, 'C07.R6'))
    from ..rules_escape import rule_nested_retrieval_contained
    check.run_rule('C07.R1d', lambda c: rule_nested_retrieval_contained(c, 'C07.R1'))
    check.run_rule('C07.R2', lambda c: rule_source_handling(c, 'C07.R2'))
    check.run_rule('C07.R3', lambda c: rule_recursion_guard(c, 'C07.R3'))
    check.run_rule('C07.R4', lambda c: rule_probe_discipline(c, 'C07.R4'))
    from ..rules_defuse import rule_definite_assignment
    check.run_rule('C07.R11', lambda c: rule_definite_assignment(
        c, 'C07.R11', ['_specifiers:forged_signature', '_signatures:signature', 'sphinxext:process_signature', '*_autoforwards', '*_util', '*_specifiers'],
        'leaves retrieval / the Sphinx hook'))

    from ..rules_escape import rule_subject_hashed
    check.run_rule('C07.R13', lambda c: rule_subject_hashed(c, 'C07.R13'))

    def r12(c):
        from ..rules_defuse import rule_index_guarded
        from ..rules_windows import retrieval_closure
        from ..callgraph import CallGraph
        rule_index_guarded(c, 'C07.R12', retrieval_closure(c, CallGraph(c.repo)), 'leaves retrieval')
    check.run_rule('C07.R12', r12)

    def r10(c):
        # the other implicit exception visible in the code: subscripting a provenance map with a key it need not have ('+depths' of a
        # hand-built or plain signature a forger returned) -- KeyError leaves retrieval (shared with C15.R7)
        from ..rules_implicit import rule_partial_map_lookup
        from ..rules_alias import Alias
        rule_partial_map_lookup(c, 'C07.R10', Alias(c))
    check.run_rule('C07.R10', r10)
    from ..rules_escape import rule_implicit_attribute_errors
    check.run_rule('C07.R4b', lambda c: rule_implicit_attribute_errors(c, 'C07.R4'))
    check.run_rule('C07.R5', lambda c: rule_sphinx(c, 'C07.R5'))
    from ..rules_escape import rule_sphinx_output
    check.run_rule('C07.R5d', lambda c: rule_sphinx_output(c, 'C07.R5'))
    from ..rules_escape import rule_sphinx_unchanged_pair
    from ..rules_visitor import rule_scope_chain_lookups
    check.run_rule('C07.R7', lambda c: rule_scope_chain_lookups(c, 'C07.R7'))
    from ..rules_escape import rule_retrieval_inside_window, rule_repr_robust
    check.run_rule('C07.R8', lambda c: rule_retrieval_inside_window(c, 'C07.R8'))
    check.run_rule('C07.R8b', lambda c: rule_repr_robust(c, 'C07.R8'))
    from ..rules_visitor import rule_visit_nullable
    check.run_rule('C07.R9', lambda c: rule_visit_nullable(c, 'C07.R9'))
    # the hook binds the documented object with safe_get(); taking __get__ from the object instead of its type calls a
    # descriptor *class* nested in another class as if it were a descriptor instance (TypeError out of the hook)
    from ..rules_wrappers import rule_descriptor_rebinding
    check.run_rule('C07.R5c', lambda c: rule_descriptor_rebinding(c, 'C07.R5', only_safe_get=True))
    from ..rules_visitor import rule_builtins_access
    check.run_rule('C07.R7b', lambda c: rule_builtins_access(c, 'C07.R7'))
    check.run_rule('C07.R5b', lambda c: rule_sphinx_unchanged_pair(c, 'C07.R5'))
    from ..rules_escape import rule_user_value_operations, rule_sphinx_hook_total
    check.run_rule('C07.R14', lambda c: rule_user_value_operations(c, 'C07.R14'))
    check.run_rule('C07.R15', lambda c: rule_sphinx_hook_total(c, 'C07.R15'))
    # "every non-colliding call accepted by the result is accepted by the function's own def": what discovery embeds must not replace the
    # function's own parameter by a callee's of the same name -- embed's duplicate-name rejection (shared with C02.R3)
    from ..rules_embed import EmbedModel, rule_embed_dupes
    check.run_rule('C07.R16', lambda c: rule_embed_dupes(c, EmbedModel(c.repo), 'C07.R16'))
