"""C17 -- concurrent signature retrieval gives the sequential answer."""
from ..rules_windows import (rule_cm_window, rule_recursion_guard_emptied, rule_shared_state_inventory, rule_shared_windows)

EXPLANATION = (
    "Static analysis (a race argument from code shape, not a schedule exploration; no execution). Decides the necessary "
    "condition 'no temporary-mutation window on an object other threads can reach': C17.R1 -- every mutate/restore window "
    "(delete/restore of attributes, add/discard on a set) in the retrieval closure is on a receiver that is created in the "
    "activation or thread-confined (threading.local); windows on the inspected callable (INPUT) or on module-level/"
    "class-level state (SHARED) are reported; C17.R2 (fails closed) -- the inventory of shared mutable state of the package "
    "equals a reviewed list, a new modified entry is inconclusive until classified. It does NOT decide anything about "
    "actual interleavings, nor benign races on caches.")
ASSUMPTIONS = [
    "the reviewed tables REVIEWED_SHARED / REVIEWED_CLASS_ATTRS in sa/rules_windows.py",
    "objects created inside one activation are not reachable from other threads",
    "a window on a caller-owned object cannot be confined by a package-side lock (inspect.signature reads it too)",
]


def run(check):
    check.run_rule('C17.R1', lambda c: rule_cm_window(c, {'restore': None, 'typestate': None, 'usage': None, 'confined': 'C17.R1', 'probe': 'C17.R4', 'exit_no_delete': 'C17.R5'}))
    check.run_rule('C17.R1b', lambda c: rule_recursion_guard_emptied(c, None, 'C17.R1'))
    check.run_rule('C17.R1c', lambda c: rule_shared_windows(c, 'C17.R1'))
    from ..rules_modifiers import rule_cache_publication
    check.run_rule('C17.R3', lambda c: rule_cache_publication(c, 'C17.R3'))
    from ..rules_windows import rule_thread_local_access, rule_flag_published_last
    check.run_rule('C17.R1d', lambda c: rule_thread_local_access(c, 'C17.R1'))
    check.run_rule('C17.R6', lambda c: rule_flag_published_last(c, 'C17.R6'))
    from ..rules_windows import rule_implicit_followers
    check.run_rule('C17.R7', lambda c: rule_implicit_followers(c, 'C17.R7'))
    check.run_rule('C17.R2', lambda c: rule_shared_state_inventory(c, 'C17.R2'))
