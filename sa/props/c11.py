"""C11 -- postponed (PEP 563) annotations resolve in their defining context."""
from .. import rules_merge as rm
from ..rules_classes import rule_replace_and_slots, rule_annotation_pairing, rule_evaluation_context, rule_annotate

EXPLANATION = (
    "Static analysis (class-protocol, argument-flow and decision-table rules over enumerated paths; no execution). Decides "
    "the structural clauses C11.R1-R4: slot completeness of replace()/__init__ of the upgraded classes (the annotation "
    "wrapper and the defining function survive every replace); raw and upgraded annotation always come from the same "
    "operand (_concile_meta, _upgrade, evaluated()); the postponed wrapper eval()s the raw annotation in the __globals__ of "
    "the function stored at upgrade time and upgrade() picks postponed / pre-evaluated / empty by the co-flag table; "
    "annotate wraps supplied values with preevaluated(). It does NOT decide the eager-vs-postponed metamorphic equality.")
ASSUMPTIONS = [
    "table B7 (annotation column) of DESIGN.md is the trusted base",
    "Parameter.replace/Signature.replace keep what is not overridden",
    "Python semantics as modelled by the path enumerator",
]


def run(check):
    check.run_rule('C11.R1', lambda c: rule_replace_and_slots(c, 'C11.R1'))
    check.run_rule('C11.R2', lambda c: rm.concile_table(c, c.repo, {'pair': 'C11.R2', 'annotation': 'C11.R2'}))
    check.run_rule('C11.R2b', lambda c: rule_annotation_pairing(c, 'C11.R2'))
    from ..rules_classes import rule_annotation_pairing_sites
    check.run_rule('C11.R2c', lambda c: rule_annotation_pairing_sites(c, 'C11.R2'))
    check.run_rule('C11.R3', lambda c: rule_evaluation_context(c, 'C11.R3'))
    check.run_rule('C11.R4', lambda c: rule_annotate(c, 'C11.R4'))
    from ..rules_classes import rule_no_rewrap_of_existing
    check.run_rule('C11.R4b', lambda c: rule_no_rewrap_of_existing(c, 'C11.R4'))
    from ..rules_classes import rule_annotate_survives_discovery
    check.run_rule('C11.R5', lambda c: rule_annotate_survives_discovery(c, 'C11.R5'))
    from ..rules_classes import rule_concile_compares_denotation
    check.run_rule('C11.R6', lambda c: rule_concile_compares_denotation(c, 'C11.R6'))
    from ..rules_classes import rule_annotations_paired_with_owner
    check.run_rule('C11.R7', lambda c: rule_annotations_paired_with_owner(c, 'C11.R7'))
    from ..rules_classes import rule_owner_capability_test
    check.run_rule('C11.R8', lambda c: rule_owner_capability_test(c, 'C11.R8'))
    from ..rules_classes import rule_replace_slot_polarity
    check.run_rule('C11.R1d', lambda c: rule_replace_slot_polarity(c, 'C11.R1'))
