"""C19 -- functools.partial objects."""
from ..rules_mask import rule_mask_names, rule_mask_partial, rule_mask_consume
from ..rules_discovery import rule_hint_protocol
from ..rules_partial import rule_partial_siblings, rule_partial_discovery
from ._shared import Models

EXPLANATION = (
    "Static analysis (argument-flow and path/effect analysis; no execution). Decides the structural clauses C19.R1-R4: "
    "the two partial branches (plain retrieval and discovery) call _mask with the same shape (len(p.args), four False "
    "flags, p.keywords or {}, the partial object); the partial rows of the mask table (bound keywords become keyword-only "
    "with the bound value as default, absorbed keywords are created and sourced to the partial object); the provenance "
    "copy with depths + 1 precedes placing the partial object at depth 0; discovery passes the bound positionals and an "
    "empty keyword mapping. It does NOT decide agreement with really calling the partial.")
ASSUMPTIONS = [
    "the C03 per-name table (partial column) of DESIGN.md is the trusted base",
    "functools.partial exposes func/args/keywords as documented",
    "Python semantics as modelled by the path enumerator",
]


def run(check):
    M = Models(check)
    check.run_rule('C19.R1', lambda c: rule_partial_siblings(c, M.mask(), 'C19.R1'))
    from ..rules_wrappers import rule_known_arguments_threaded
    check.run_rule('C19.R5', lambda c: rule_known_arguments_threaded(c, 'C19.R5'))
    check.run_rule('C19.R2', lambda c: rule_mask_names(c, M.mask(), {
        'table': 'C19.R2', 'index': 'C19.R2', 'kinds': 'C19.R2', 'src': 'C19.R2', 'pdefault': 'C19.R2', 'posonly': 'C19.R2'}))
    from ._shared import rule_posindex
    check.run_rule('C19.R2p', lambda c: rule_posindex(c, 'C19.R2'))
    check.run_rule('C19.R3', lambda c: rule_mask_partial(c, M.mask(), 'C19.R3'))
    # "the partial object has depth 0" is written into the '+depths' entry of the copy _mask takes in partial mode: copy_sources must give
    # every copy that entry, whatever the input map has (shared with C08.R4 / C15.R9)
    from ..rules_protocol import rule_source_helpers
    check.run_rule('C19.R3c', lambda c: rule_source_helpers(c, {'depths': 'C19.R3', 'arith': None, 'dedup': None, 'complete': None}))
    check.run_rule('C19.R4', lambda c: rule_partial_discovery(c, 'C19.R4'))
    from ..rules_discovery import rule_translation
    check.run_rule('C19.R4c', lambda c: rule_translation(c, {'translate': 'C19.R4', 'fallback': None}))
    check.run_rule('C19.R4b', lambda c: rule_hint_protocol(c, 'C19.R4'))
    # bound positionals disappear: consumption order and trip count of the mask
    check.run_rule('C19.R2c', lambda c: rule_mask_consume(c, M.mask(), 'C19.R2'))
    from ..rules_derived import rule_partial_binding_validated
    check.run_rule('C19.R6', lambda c: rule_partial_binding_validated(c, 'C19.R6'))
    # "positionals resolve callee parameters, keywords do not": a known argument is looked up among the known arguments only (shared with C06.R8)
    from ..rules_visitor import rule_resolution_order
    check.run_rule('C19.R7', lambda c: rule_resolution_order(c, 'C19.R7'))
    from ..rules_derived import rule_narrowed_kind_compared
    check.run_rule('C19.R6b', lambda c: rule_narrowed_kind_compared(c, 'C19.R6'))
    from ..rules_mask import rule_reserved_names_complete
    check.run_rule('C19.R2r', lambda c: rule_reserved_names_complete(c, M.mask(), 'C19.R2'))
