"""C10 -- defaults, annotations, kinds, order of combined parameters."""
from .. import rules_merge as rm
from ..rules_embed import rule_embed_buckets
from ..rules_mask import rule_mask_names
from ..rules_protocol import rule_kind_restrictions
from ._shared import Models

EXPLANATION = (
    "Static analysis (path enumeration with abstract effects; no execution). Decides the structural clauses C10.R1-R5: "
    "the guard -> (default, annotation) table of _concile_meta (B7: optional only if both are, common default else None, "
    "agreed annotation else none, raw/upgraded annotation taken from the same operand); defaults are cleared in _embed "
    "exactly when a required inner positional follows; every replace(kind=) in the algebra restricts positional-or-keyword "
    "to positional-only/keyword-only; outer before inner per bucket; partial-mode defaults are the bound value of the "
    "parameter's own name. It does NOT decide displayed values.")
ASSUMPTIONS = [
    "oracle table B7/B8 and the C03 per-name table of DESIGN.md are the trusted base",
    "Parameter.replace keeps every attribute that is not overridden",
    "Python semantics as modelled by the path enumerator",
]


def run(check):
    M = Models(check)
    check.run_rule('C10.R1', lambda c: rm.concile_table(c, c.repo, {
        'default': 'C10.R1', 'annotation': 'C10.R1a', 'pair': 'C10.R1p'}))
    check.run_rule('C10.R1c', lambda c: rm.rule_tables(
        c, M.merge(), 'C10.R1c', ('conc',), 'every parameter standing for two inputs passes through _concile_meta',
        witness="merge(s('a, b'), s('a, *, b=1')) must require b"))
    check.run_rule('C10.R1s', lambda c: rm.rule_kwo_and_stars(c, M.merge(), 'C10.R1c', ('conc',)))
    check.run_rule('C10.R4m', lambda c: rm.rule_tables(
        c, M.merge(), 'C10.R4', ('order',), 'positional buckets are filled in zip order',
        witness="merge(s('a, *args'), s('a, b, c')) must be (a, b, c, /)"))
    check.run_rule('C10.R2', lambda c: rule_embed_buckets(c, M.embed(), {
        'kinds': None, 'clear_must': 'C10.R2', 'clear_only': 'C10.R2', 'order': 'C10.R4'}))
    check.run_rule('C10.R3', lambda c: rule_kind_restrictions(c, 'C10.R3', M.merge(), M.embed(), M.mask()))
    check.run_rule('C10.R5', lambda c: rule_mask_names(c, M.mask(), {
        'table': None, 'index': 'C10.R5', 'kinds': 'C10.R3', 'src': None, 'pdefault': 'C10.R5'}))
    from ._shared import rule_posindex
    check.run_rule('C10.R5p', lambda c: rule_posindex(c, 'C10.R5'))
    from ..rules_classes import rule_disagreement_remembered
    check.run_rule('C10.R6', lambda c: rule_disagreement_remembered(c, 'C10.R6'))
