"""C03 -- mask: exact residual signature after n positionals and named arguments."""
from ..rules_mask import (MaskModel, rule_mask_hide, rule_mask_names, rule_mask_consume, rule_mask_binding, rule_mask_flag_independence)

EXPLANATION = (
    "Static analysis (path-sensitive abstract-effect analysis of _mask, no execution). Decides the structural "
    "necessary conditions C03.R1-R5: the per-name decision table (consumed -> ValueError; positional-or-keyword -> "
    "split, tail to keyword-only, *args removed; keyword-only -> removed / default replaced; otherwise ValueError "
    "without **kwargs; every accepted name recorded), coherence of the name index with the list it is derived from "
    "(order independence), positional consumption (order, induction-variable trip count, exhaustion raises unless "
    "*args), kinds of converted parameters, hide flags that only remove and are bound name-preservingly by mask(), and no raise "
    "decision of _mask depends on a hide flag (C03.R8). "
    "It does NOT decide exactness over all calls nor mask(mask(s,n),m) == mask(s,n+m) as a value law.")
ASSUMPTIONS = [
    "the per-name table of DESIGN.md section 3 (C03) and table B9 are the trusted base",
    "sort_params returns private copies with the protocol kinds (C09.R2, C16.R1)",
    "Python semantics as modelled by the path enumerator",
]


def run(check):
    holder = {}

    def model():
        if 'm' not in holder:
            holder['m'] = MaskModel(check.repo)
            check.absorb(holder['m'].interp)
            check.analysed(holder['m'].fi)
            check.analysed(holder['m'].pub)
        return holder['m']

    check.run_rule('C03.R1', lambda c: rule_mask_names(c, model(), {
        'table': 'C03.R1', 'index': 'C03.R2', 'kinds': 'C03.R4', 'src': None, 'pdefault': None}))
    from ._shared import rule_posindex
    check.run_rule('C03.R2p', lambda c: rule_posindex(c, 'C03.R2'))
    from ..rules_alias import rule_classification_fresh
    check.run_rule('C03.R6', lambda c: rule_classification_fresh(c, 'C03.R6'))
    # the parameters left over -- also none at all -- are what the result has: apply_params rebuilds through
    # UpgradedSignature.replace(parameters=...), which must take the list as given (shared with C14.R3 / C09.R2)
    from ..rules_classes import rule_replace_and_slots
    check.run_rule('C03.R7', lambda c: rule_replace_and_slots(c, 'C03.R7', classes=['UpgradedSignature'], only_base_overrides=True))
    check.run_rule('C03.R3', lambda c: rule_mask_consume(c, model(), 'C03.R3'))
    check.run_rule('C03.R8', lambda c: rule_mask_flag_independence(c, model(), 'C03.R8'))
    check.run_rule('C03.R5', lambda c: rule_mask_hide(c, model(), 'C03.R5', None))
    from ..rules_defaults import rule_neutral_defaults
    check.run_rule('C03.R5d', lambda c: rule_neutral_defaults(c, 'C03.R5', 'mask'))
    from ..rules_defaults import rule_public_switch_defaults
    check.run_rule('C03.R5p', lambda c: rule_public_switch_defaults(c, 'C03.R5', '_signatures:mask', 'the residual signature with nothing hidden'))
    from ..rules_mask import rule_reserved_names_complete
    check.run_rule('C03.R1r', lambda c: rule_reserved_names_complete(c, model(), 'C03.R1'))
    check.run_rule('C03.R5b', lambda c: rule_mask_binding(c, model(), 'C03.R5'))
