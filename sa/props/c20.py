"""C20 -- support helpers faithfully build and bind signatures."""
from ..rules_support import rule_bind_callsig, rule_sort_callsigs, rule_make_up_bounds

EXPLANATION = (
    "Static analysis (decision-table conformance and effect ordering on enumerated paths; no execution). Decides only the "
    "structural clauses C20.R1-R3: the table of the independent binder bind_callsig (B15: surplus positional, keyword naming "
    "a positional-only / already assigned parameter, unknown keyword with and without **kwargs, defaults, missing required "
    "-> TypeError); sort_callsigs partitions exactly by the outcome of bind_callsig; make_up_callsigs ranges over prefixes "
    "0..len(names) and keyword subsets of every size 0..len(final names) -- the sizes being computed after the star names are "
    "appended -- and returns their full product. NOT APPLICABLE (stated, not claimed): the string <-> code <-> signature "
    "round trip of read_sig/func_code/f/s/func_from_sig and equality of bind_callsig's mapping with CPython's are "
    "value-level string and dictionary computations; no structural clause of them is a necessary condition that can be "
    "decided without running them.")
ASSUMPTIONS = [
    "table B15 of DESIGN.md is the trusted base",
    "itertools.product/combinations/chain behave as documented",
]


def run(check):
    check.run_rule('C20.R1', lambda c: rule_bind_callsig(c, 'C20.R1'))
    check.run_rule('C20.R2', lambda c: rule_sort_callsigs(c, 'C20.R2'))
    check.run_rule('C20.R3', lambda c: rule_make_up_bounds(c, 'C20.R3'))
    from ..rules_derived import rule_no_memoisation
    check.run_rule('C20.R6', lambda c: rule_no_memoisation(c, 'C20.R6', ('support',), 'equal signatures that differ (defaults 1/True/1.0) get the '
                   'first one\'s function, an earlier result that was altered is handed out again, unhashable defaults raise TypeError'))
    from ..rules_support import rule_future_flags, rule_func_from_sig
    check.run_rule('C20.R5', lambda c: rule_func_from_sig(c, 'C20.R5'))
    check.run_rule('C20.R4', lambda c: rule_future_flags(c, 'C20.R4'))
