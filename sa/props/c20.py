"""C20 -- support helpers faithfully build and bind signatures."""
from ..rules_support import rule_bind_callsig, rule_sort_callsigs, rule_make_up_bounds

EXPLANATION = (
    "Static analysis (decision-table conformance and effect ordering on enumerated paths; no execution). Decides only the "
    "structural clauses C20.R1-R3: the table of the independent binder bind_callsig (B15: surplus positional, keyword naming "
    "a positional-only / already assigned parameter, unknown keyword with and without **kwargs, defaults, missing required "
    "-> TypeError); sort_callsigs partitions exactly by the outcome of bind_callsig; make_up_callsigs ranges over prefixes "
    "0..len(names) and keyword subsets of every size 0..len(final names) -- the sizes being computed after the star names are "
    "appended -- and returns their full product. NOT APPLICABLE (stated, not claimed): the string <-> code <-> signature "
    "round trip of read_sig/func_code/f/s/func_from_sig and equality of bind_callsig's mapping with CPython's are "
    "value-level string and dictionary computations; no structural clause of them is a necessary condition that can be "
    "decided without running them.")
ASSUMPTIONS = [
    "table B15 of DESIGN.md is the trusted base",
    "itertools.product/combinations/chain behave as documented",
]


def run(check):
    check.run_rule('C20.R1', lambda c: rule_bind_callsig(c, 'C20.R1'))
    check.run_rule('C20.R2', lambda c: rule_sort_callsigs(c, 'C20.R2'))
    check.run_rule('C20.R3', lambda c: rule_make_up_bounds(c, 'C20.R3'))
    from ..rules_derived import rule_no_memoisation
    check.run_rule('C20.R6', lambda c: rule_no_memoisation(c, 'C20.R6', ('support',), 'equal signatures that differ (defaults 1/True/1.0) get the '
                   'first one\'s function, an earlier result that was altered is handed out again, unhashable defaults raise TypeError'))
    from ..rules_support import rule_future_flags, rule_func_from_sig
    check.run_rule('C20.R5', lambda c: rule_func_from_sig(c, 'C20.R5'))
    check.run_rule('C20.R4', lambda c: rule_future_flags(c, 'C20.R4'))

    def r7(c):
        # the modifiers-based spellings: func_code writes `@modifiers.annotate(...)` above `@modifiers.kwoargs/posoargs(...)`, so
        # the functions made by f()/s() are exactly as good as the translator's preparation table, its re-preparation by annotate
        # (idempotent: every container _prepare fills is created inside it) and annotate's protocol (shared with C12.R1 / C18.R3)
        import ast
        fc = c.repo.func('support:func_code')
        consts = [n.value for n in ast.walk(fc.node) if isinstance(n, ast.Constant) and isinstance(n.value, str)]
        emits = [w for w in ('modifiers.annotate', 'modifiers.kwoargs', 'modifiers.posoargs') if any(w in s for s in consts)]
        if 'modifiers.annotate' not in emits or len(emits) < 2:
            c.holds('C20.R7', '-', 'func_code does not stack annotate over a keyword/positional modifier (%s)' % ', '.join(emits), key='func_code|stack',
                    nontrivial=False)
            return
        c.holds('C20.R7', '%s %s' % (fc.loc(fc.node), fc.key), 'func_code stacks %s' % ' over '.join(emits), key='func_code|stack')
        from ..rules_modifiers import rule_prepare_table, rule_annotate_after_modifier, rule_call_table
        rule_prepare_table(c, 'C20.R7', 'C20.R7')
        rule_annotate_after_modifier(c, 'C20.R7')
        # ... and what f()'s function returns for a call goes through the translator's call translation (shared with C12.R2)
        rule_call_table(c, 'C20.R7')
    check.run_rule('C20.R7', r7)
    from ..rules_defuse import rule_definite_assignment
    check.run_rule('C20.R9', lambda c: rule_definite_assignment(
        c, 'C20.R9', ['support:read_sig', 'support:func_code', 'support:make_func', 'support:f', 'support:s', 'support:func_from_sig',
                      'support:bind_callsig', 'support:sort_callsigs', 'support:make_up_callsigs'], 'from the support helpers'))
    from ..rules_support import rule_read_sig_flag_gating, rule_options_forwarded
    check.run_rule('C20.R10', lambda c: rule_options_forwarded(c, 'C20.R10'))
    check.run_rule('C20.R11', lambda c: rule_read_sig_flag_gating(c, 'C20.R11'))
    from ..rules_defuse import rule_sentinel_identity
    check.run_rule('C20.R12', lambda c: rule_sentinel_identity(c, 'C20.R12', ['support'], '-- bind_callsig disagrees with CPython about a parameter having a default', floor=1))
    from ..rules_support import rule_read_sig_insertion_index
    check.run_rule('C20.R8', lambda c: rule_read_sig_insertion_index(c, 'C20.R8'))
    from ..rules_support import rule_no_format_on_fstring
    check.run_rule('C20.R13', lambda c: rule_no_format_on_fstring(c, 'C20.R13'))
