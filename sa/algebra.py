"""E4/E8 -- the bucket protocol and the kind domain of the signature algebra.

Everything is *derived from the code*: the field order of the
`SortedParameters` namedtuple, which parameter kind `sort_params` stores at
which position of its result, which attribute of `_Merger` holds the left and
right operand, which attribute `__iter__` returns at which position.  Rules
talk about roles (bucket index, side), never about local names.
"""
import ast

from .index import Inconclusive, norm
from .interp import Interp, Policy, show, show_lit, walk_effects, K, NONE, subterms

KINDS = ['PO', 'POK', 'VP', 'KWO', 'VK']
KIND_ATTR = {
    'POSITIONAL_ONLY': 'PO', 'POSITIONAL_OR_KEYWORD': 'POK', 'VAR_POSITIONAL': 'VP',
    'KEYWORD_ONLY': 'KWO', 'VAR_KEYWORD': 'VK',
}
SIG = '_signatures'


def kind_of_attr_term(t):
    """`<anything>.POSITIONAL_ONLY` -> 'PO'"""
    if t is not None and t[0] in ('A', 'EXT') :
        name = t[2] if t[0] == 'A' else t[1].rsplit('.', 1)[-1]
        return KIND_ATTR.get(name)
    return None


def no_inline_algebra(fi, depth, node):
    """inline policy for the algebra: helpers of the same module are inlined,
    except the ones that have their own table / summary"""
    if fi.module.name != SIG:
        return False
    return fi.name not in (
        '_concile_meta', '_merge_depths', 'sort_params', 'apply_params', 'copy_sources',
        'merge_depths', '_add_sources', '_add_all_sources', '_exclude_from_seq',
        '_check_no_dupes', '_remove_from_src', '_upgrade_with_warning', '_upgrade',
        'default_sources', 'set_default_sources', 'signature', '_mask', 'mask', 'embed',
        '_embed', 'merge', 'forwards', '_upgrade_parameters_with_warning', '__init__',
        'upgrade', 'preevaluated', 'replace')


class Protocol(object):
    """facts about the 6-position bucket protocol, derived from the source"""

    def __init__(self, repo):
        self.repo = repo
        self.mod = repo.module(SIG)
        self._fields()
        self._sort_params()

    # -- namedtuple declaration ---------------------------------------------
    def _fields(self):
        vals = self.mod.assigns.get('SortedParameters')
        if not vals:
            raise Inconclusive('SortedParameters declaration vanished')
        v = vals[-1]
        self.decl_node = v
        if not (isinstance(v, ast.Call) and norm(v.func).endswith('namedtuple') and len(v.args) >= 2):
            raise Inconclusive('SortedParameters is no longer a namedtuple declaration')
        f = v.args[1]
        if isinstance(f, ast.Constant) and isinstance(f.value, str):
            fields = f.value.replace(',', ' ').split()
        elif isinstance(f, (ast.List, ast.Tuple)) and all(isinstance(e, ast.Constant) for e in f.elts):
            fields = [e.value for e in f.elts]
        else:
            raise Inconclusive('SortedParameters field list not a literal')
        self.fields = fields
        self.field_index = dict((n, i) for i, n in enumerate(fields))

    # -- sort_params: which kind lands at which position ----------------------
    def _sort_params(self):
        fi = self.repo.func(SIG + ':sort_params')
        # a private helper the classification was moved into is read in place
        it = Interp(self.repo, Policy(inline=lambda f_, d_, n_: f_.module.name == SIG and f_.cls is None and f_.name.startswith('_')
                                      and f_.name not in ('_upgrade_parameters_with_warning',) and d_ < 2))
        paths = it.run(fi)
        self.sort_interp = it
        self.sort_paths = paths
        # classification loop
        facts = {}       # holder (object term or ('var', name)) -> set of kinds stored
        self.sort_unknown_arm = None
        self.sort_loop_paths = []
        loops = []
        for p in paths:
            for e in p.effects:
                if e.kind == 'loop':
                    loops.append(e)
        if not loops:
            raise Inconclusive('sort_params: classification loop not found')
        seen = set()
        for lp in loops:
            if lp.ctx in seen:
                continue
            seen.add(lp.ctx)
            for sp in lp.sub:
                kinds_true = []
                kinds_false = []
                elem = None
                for atom, pol in sp.lits:
                    k = None
                    if atom[0] == 'eq':
                        for a, b in ((atom[1], atom[2]), (atom[2], atom[1])):
                            if a[0] == 'A' and a[2] == 'kind' and kind_of_attr_term(b):
                                k = kind_of_attr_term(b)
                                elem = a[1]
                    if k is None:
                        continue
                    (kinds_true if pol else kinds_false).append(k)
                self.sort_loop_paths.append((sp, kinds_true, kinds_false, elem))
                if len(kinds_true) == 1 and elem is not None:
                    k = kinds_true[0]
                    for e in sp.effects:
                        if e.kind == 'mut' and e.op in ('append', 'setitem', 'add'):
                            val = e.args[-1]
                            if val == elem:
                                facts.setdefault(e.target, set()).add(k)
                    for name, val in (sp.value or {}).items() if isinstance(sp.value, dict) else ():
                        pass
                    for name, val in getattr(sp, 'env_out', {}).items():
                        if val == elem:
                            facts.setdefault(('var', name), set()).add(k)
                elif not kinds_true and len(kinds_false) >= 5:
                    self.sort_unknown_arm = sp
        self.sort_facts = facts
        # return shapes
        self.sort_returns = []
        for p in paths:
            if p.status != 'return':
                continue
            v = p.value
            items = None
            if v[0] == 'T':
                items = list(v[1])
            elif v[0] == 'C' and (str(v[1]).endswith('SortedParameters') or (isinstance(v[1], tuple) and 'SortedParameters' in show(v[1]))):
                items = list(v[2])
            if items is None:
                raise Inconclusive('sort_params: unrecognised return shape %s' % show(v))
            self.sort_returns.append((p, items))
        if not self.sort_returns:
            raise Inconclusive('sort_params: no return found')
        # position -> kinds
        self.pos_kinds = []
        for p, items in self.sort_returns:
            row = []
            for t in items:
                holder = t
                if t[0] == 'V':
                    holder = ('var', t[1])
                row.append(facts.get(holder))
            self.pos_kinds.append(row)

    def kind_at(self, idx):
        """the kind sort_params stores at position idx (None if not uniform)"""
        ks = set()
        for row in self.pos_kinds:
            if idx < len(row) and row[idx]:
                ks |= row[idx]
        if len(ks) == 1:
            return list(ks)[0]
        return None

    def index_of_kind(self, kind):
        for i in range(5):
            if self.kind_at(i) == kind:
                return i
        raise Inconclusive('sort_params stores no bucket for kind %s' % kind)

    def idx_of_field(self, name):
        return self.field_index.get(name)


class Sides(object):
    """maps root terms to operand sides and resolves bucket references"""

    def __init__(self, proto, roots):
        self.proto = proto
        self.roots = roots     # list of (term, sidename)

    def side_of_root(self, t):
        for r, s in self.roots:
            if t == r:
                return s
        return None

    def bucket(self, t):
        """(side, idx) if t denotes bucket idx of an operand, else None.
        Iterators/copies of a bucket denote the same bucket."""
        while True:
            if t is None:
                return None
            if t[0] == 'IT':
                t = t[1]
                continue
            if t[0] == 'M' and t[2] in ('values', 'copy') and not t[3]:
                t = t[1]
                continue
            if t[0] == 'C' and t[1] in ('iter', 'list', 'tuple', 'reversed') and len(t[2]) == 1:
                t = t[2][0]
                continue
            break
        if t[0] == 'A':
            s = self.side_of_root(t[1])
            if s is not None:
                idx = self.proto.idx_of_field(t[2])
                if idx is not None:
                    return (s, idx)
        if t[0] == 'S' and t[2][0] == 'K' and isinstance(t[2][1], int):
            s = self.side_of_root(t[1])
            if s is not None:
                return (s, t[2][1])
        return None


def first_arg_self_stripped(t):
    """args of a C-term for a package method, without the self argument"""
    return t[2][1:]
